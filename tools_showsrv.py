#!/usr/bin/env python3
import sys,json
f,n=sys.argv[1],int(sys.argv[2]); ctx=int(sys.argv[3]) if len(sys.argv)>3 else 4
for i,l in enumerate(open(f),1):
    if i<n-ctx: continue
    if i>n+1: break
    e=json.loads(l); st=e.pop('st',None); rs=e.pop('rsnap',None); sst=e.pop('sst',None)
    print('>>' if i==n else '  ',i,json.dumps(e)[:500])
    if sst and i>=n-1: print('      sst',json.dumps(sst))
    if st and i>=n-1 and 'rib' in st:
        for ni,c in st['rib'].items():
            if c['nh'] or c['nhg'] or c['top']: print('      rib',ni,json.dumps(c))
        print('      pend',[(o['id'],o['typ'],o['kind'],o['key'],o['ni']) for o in st['pend']])
