#!/usr/bin/env python3
"""Rewrites the table between <!-- MATRIX:BEGIN --> and <!-- MATRIX:END --> in DESIGN.md from seeded/*/meta.json."""
import json, os, re
ROOT = os.path.dirname(os.path.dirname(os.path.abspath(__file__)))
rows = []
tot = det = 0
for mid in sorted(os.listdir(os.path.join(ROOT, "seeded"))):
    mp = os.path.join(ROOT, "seeded", mid, "meta.json")
    if not os.path.exists(mp):
        continue
    m = json.load(open(mp))
    tot += 1
    by = ", ".join(m.get("detected_by") or [])
    if by:
        det += 1
    first = ""
    for c in m.get("detected_by") or []:
        ls = [l for l in m["results"][c]["lines"] if l.startswith("  what")]
        if ls:
            first = re.sub(r"at trace line \d+: ", "", ls[0].replace("  what: ", ""))[:110]
            break
    summ = re.sub(r"^[#\s]*(C\d\d\s*[/-]?\s*)?m\d\s*[-—:]*\s*", "", m.get("summary", ""))[:100].replace("|", "/")
    note = m.get("tier_note", "")
    rows.append(f"| {mid} | {summ} | {by or '— ' + note} | {first.replace('|', '/')} |")
table = "| change | what it does | detected by (quick tier) | first report |\n|---|---|---|---|\n" + "\n".join(rows) + f"\n\n{det} of {tot} detected at the quick tier.\n"
p = os.path.join(ROOT, "DESIGN.md")
s = open(p).read()
s = re.sub(r"<!-- MATRIX:BEGIN -->.*?<!-- MATRIX:END -->", "<!-- MATRIX:BEGIN -->\n" + table + "<!-- MATRIX:END -->", s, flags=re.S)
open(p, "w").write(s)
print(det, "of", tot)
