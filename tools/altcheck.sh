#!/bin/bash
# usage: tools/altcheck.sh <patch.diff | revert:<commit>> <PROP> [PROP...]
# Applies a change to a scratch copy of /repo HEAD (never /repo itself) and runs the checks against it (VERIF_REPO).
set -u
chg="$1"; shift
case "$chg" in revert:*) ;; *) chg=$(readlink -f "$chg");; esac
W=$(mktemp -d /tmp/alt.XXXXXX)
git -C /repo archive HEAD | tar -x -C "$W"
cd "$W"
case "$chg" in
  revert:*) git -C /repo show "${chg#revert:}" | patch -R -p1 -s --no-backup-if-mismatch >/dev/null || { echo "REVERT DOES NOT APPLY"; rm -rf "$W"; exit 3; } ;;
  *) if ! git apply "$chg" 2>/dev/null; then patch -p1 -F3 -s --no-backup-if-mismatch < "$chg" >/dev/null 2>&1 || { echo "PATCH DOES NOT APPLY: $chg"; rm -rf "$W"; exit 3; }; fi ;;
esac
find . -name '*.orig' -delete; find . -name '*.rej' -delete
export GOFLAGS=-mod=mod GOPROXY=off
if ! go build ./... 2>/dev/null; then echo "DOES NOT BUILD: $chg"; rm -rf "$W"; exit 3; fi
cd /verif
for p in "$@"; do
  out=$(VERIF_REPO="$W" timeout 3000 ./check "$p" --tier ${TIER:-quick} --seed ${VERIF_SEED:-1} 2>&1); rc=$?
  echo "$p rc=$rc $(echo "$out" | grep -m3 -e VIOLATION -e '^  what' -e '^OK' -e INFRA | tr '\n' ' ' | cut -c1-600)"
done
rm -rf "$W"
