#!/bin/bash
# usage: tools/intake.sh <PROP> <mN>   - take a sub-agent's deliverable from /tmp/mut/<PROP>/<mN>/ into seeded/<PROP>-<mN>/,
# re-basing the patch onto /repo HEAD in a scratch worktree if necessary, then confirm it (tools/confirm_mutant.sh).
prop="$1"; m="$2"; src=/tmp/mut/$prop/$m; id=$prop-$m; dst=/verif/seeded/$id
[ -f "$src/patch.diff" ] || { echo "no $src/patch.diff"; exit 2; }
mkdir -p "$dst"
cp "$src/demo_test.go" "$dst/demo_test.go"; cp "$src/notes.md" "$dst/agent_notes.md"
W=/tmp/intake/$id; rm -rf "$W"; mkdir -p /tmp/intake; git -C /repo worktree prune
git -C /repo worktree add -q --detach "$W" HEAD || exit 2
cd "$W"
if git apply "$src/patch.diff" 2>/dev/null; then cp "$src/patch.diff" "$dst/patch.diff"
elif patch -p1 -F3 -s --no-backup-if-mismatch < "$src/patch.diff" >/dev/null 2>&1; then
  find . -name '*.orig' -delete; find . -name '*.rej' -delete
  git diff > "$dst/patch.diff"; cp "$src/patch.diff" "$dst/patch_vs_original_commit.diff"; echo "$id: re-based with fuzz"
else echo "$id: NEEDS MANUAL PORT"; cd /; git -C /repo worktree remove --force "$W"; exit 3; fi
cd /; git -C /repo worktree remove --force "$W"
exec /verif/tools/confirm_mutant.sh "$id"
