#!/bin/bash
# usage: tools/confirm_mutant.sh <seeded-id>   - confirms a seeded change in a scratch worktree of /repo HEAD
id="$1"; S=/verif/seeded/$id; W=/tmp/confirm/$id; L=/tmp/confirm/$id.log
export GOFLAGS=-mod=mod GOPROXY=off
mkdir -p /tmp/confirm; rm -rf "$W"; git -C /repo worktree prune
git -C /repo worktree add -q --detach "$W" HEAD || exit 2
cd "$W" || exit 2
res() { python3 - "$@" <<'PY'
import json,sys
id,builds,suite,demo_with,demo_without,testdir,tests=sys.argv[1:8]
json.dump({"id":id,"builds":builds=="0","suite_passes_with_change":suite=="0","demo_fails_with_change":demo_with!="0","demo_passes_without_change":demo_without=="0","demo_dir":testdir,"demo_tests":tests,"confirmed_at_repo_head":True},open(f"/verif/seeded/{id}/confirm.json","w"),indent=1)
PY
}
pkg=$(grep -m1 '^package ' $S/demo_test.go | awk '{print $2}' | sed 's/_test$//')
case "$pkg" in reconciler) dir=rib/reconciler;; ccli) dir=cmd/ccli;; *) dir=$pkg;; esac
tests=$(grep -o '^func Test[A-Za-z0-9_]*' $S/demo_test.go | sed 's/func //' | paste -sd'|')
{
git apply $S/patch.diff || { echo "patch does not apply"; res $id 1 1 0 1 "$dir" "$tests"; exit 1; }
go build ./... ; b=$?
go test -vet=off -count=1 -timeout 25m ./... 2>&1 | tail -25; s=${PIPESTATUS[0]}
cp $S/demo_test.go $dir/zz_seeded_demo_test.go
extra=""; grep -q -- "-race" $S/demo_test.go && head -6 $S/demo_test.go | grep -q -- "-race" && extra="-race"
if [ -n "$extra" ]; then GOTOOLCHAIN=local go1.26 test -race -vet=off -count=1 -timeout 10m -run "^($tests)\$" ./$dir/ 2>&1 | tail -15; dw=${PIPESTATUS[0]};
else go test -vet=off -count=1 -timeout 10m -run "^($tests)\$" ./$dir/ 2>&1 | tail -15; dw=${PIPESTATUS[0]}; fi
git apply -R $S/patch.diff
if [ -n "$extra" ]; then GOTOOLCHAIN=local go1.26 test -race -vet=off -count=1 -timeout 10m -run "^($tests)\$" ./$dir/ 2>&1 | tail -8; dn=${PIPESTATUS[0]};
else go test -vet=off -count=1 -timeout 10m -run "^($tests)\$" ./$dir/ 2>&1 | tail -8; dn=${PIPESTATUS[0]}; fi
echo "RESULT $id builds=$b suite=$s demo_with=$dw demo_without=$dn"
res $id $b $s $dw $dn "$dir" "$tests"
} > "$L" 2>&1
cd /; git -C /repo worktree remove --force "$W"; rm -f /tmp/*.test.* 2>/dev/null
tail -1 "$L"
