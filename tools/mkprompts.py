#!/usr/bin/env python3
"""Writes /tmp/mut/prompt_<ID>.txt for a round of seeded changes: usage tools/mkprompts.py m5 m6 [ID...]
Each sub-agent gets only its prompt (property text + scratch worktree path /tmp/wt/<ID>), nothing from /verif."""
import json, os, re, sys
ROOT = os.path.dirname(os.path.dirname(os.path.abspath(__file__)))
a, b = sys.argv[1], sys.argv[2]
ids = sys.argv[3:]
T = open(os.path.join(ROOT, "tools", "mutant_prompt_template.txt")).read()
os.makedirs("/tmp/mut", exist_ok=True)
for l in open(os.path.join(ROOT, "properties.jsonl")):
    p = json.loads(l)
    pid = p["id"]
    if ids and pid not in ids:
        continue
    avoid = []
    for d in sorted(os.listdir(os.path.join(ROOT, "seeded"))):
        n = os.path.join(ROOT, "seeded", d, "agent_notes.md")
        if d.startswith(pid + "-") and os.path.exists(n):
            first = [x for x in open(n).read().splitlines() if x.strip()][0]
            avoid.append("  - " + re.sub(r"^[#\s]*", "", first)[:220])
    s = T.format(wt=f"/tmp/wt/{pid}", out=f"/tmp/mut/{pid}", pid=pid, title=p["title"], statement=p["statement"],
                 files=", ".join(p["anchors"]["files"]), avoid="\n".join(avoid), a=a, b=b)
    open(f"/tmp/mut/prompt_{pid}.txt", "w").write(s)
    print(pid, len(avoid), "ideas to avoid")
