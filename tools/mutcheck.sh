#!/bin/bash
# usage: tools/mutcheck.sh <patch.diff> <PROP> [PROP...]   - apply a patch to /repo, run quick checks, always revert
set -u
patch="$1"; shift
cd /repo || exit 2
if git status --short | grep -qv '^??'; then echo "repo dirty"; exit 2; fi
if ! git apply "$patch" >/dev/null 2>&1; then
  git reset -q --hard HEAD
  if ! patch -p1 -F3 -s --no-backup-if-mismatch < "$patch" >/dev/null 2>&1; then echo "PATCH DOES NOT APPLY: $patch"; git reset -q --hard HEAD; git clean -fdq; exit 3; fi
  find . -name '*.orig' -delete; find . -name '*.rej' -delete
fi
export GOFLAGS=-mod=mod GOPROXY=off
if ! go build ./... 2>/dev/null; then echo "PATCH DOES NOT BUILD: $patch"; git reset -q --hard HEAD; exit 3; fi
cd /verif
for p in "$@"; do
  out=$(timeout 1800 ./check "$p" --tier ${TIER:-quick} --seed ${VERIF_SEED:-1} 2>&1); rc=$?
  echo "$p rc=$rc $(echo "$out" | grep -m2 -e VIOLATION -e '^  what' -e '^OK' -e INFRA | tr '\n' ' ' | cut -c1-300)"
done
git -C /repo reset -q --hard HEAD; git -C /repo clean -fdq
