#!/usr/bin/env python3
"""Self-test: run the quick checks against every seeded change (seeded/<id>/patch.diff), in parallel on scratch copies
of /repo (never /repo itself), and write seeded/<id>/meta.json and seeded/MATRIX.md.

usage: tools/matrix.py [-j N] [--seed S] [ID ...]
"""
import concurrent.futures, json, os, re, shutil, subprocess, sys, tempfile

ROOT = os.path.dirname(os.path.dirname(os.path.abspath(__file__)))
SEEDED = os.path.join(ROOT, "seeded")
# checks run in addition to the change's own property (where the deviation surfaces in a neighbouring property's oracle)
EXTRA = {"C16-m14": ["C03", "C11"], "C06-m8": ["C13"], "C10-m5": ["C11"], "C11-m6": ["C10"], "C06-m6": ["C11"], "C08-m6": ["C11"], "C04-m6": ["C11"], "C01-m5": ["C06"], "C03-m6": ["C11"], "C07-m5": ["C11"], "C07-m6": ["C01"], "C11-m4": ["C10"], "C07-m1": ["C01"], "C07-m2": ["C01"], "C08-m2": ["C03"], "C05-m3": ["C11"], "C04-m3": ["C11"], "C07-m3": ["C01"]}
# changes the quick tier cannot reach by construction (confirmed at the thorough tier with tools/altcheck.sh)
TIER_NOTES = {"C07-m4": "needs a consumer that stalls for more than 5 s: the quick tier stalls 1.5 s; detected at the thorough tier (6.5 s stall; getEntries, getRebuild)"}
SCRATCH = os.environ.get("MATRIX_SCRATCH", "/tmp/mx%d" % os.getpid())


def needs_of(notes):
    lines = notes.splitlines()
    for i, l in enumerate(lines):
        if re.search(r"need(ed|s)?( to manifest)?\s*[:(]|needs:|to manifest", l, re.I):
            txt = " ".join(x.strip() for x in lines[i:i + 4])
            return re.sub(r"\s+", " ", txt)[:600]
    return re.sub(r"\s+", " ", " ".join(lines[:4]))[:600]


def one(mid, seed):
    d = os.path.join(SEEDED, mid)
    prop = mid.split("-")[0]
    work = os.path.join(SCRATCH, mid)
    shutil.rmtree(work, ignore_errors=True)
    os.makedirs(work)
    ran, results = [], {}
    try:
        subprocess.run(f"git -C /repo archive HEAD | tar -x -C {work}", shell=True, check=True)
        p = subprocess.run(["git", "apply", os.path.join(d, "patch.diff")], cwd=work, capture_output=True, text=True)
        ran.append("git apply seeded/%s/patch.diff  (on a scratch copy of /repo HEAD)" % mid)
        if p.returncode != 0:
            return mid, {"error": "patch does not apply: " + p.stderr[-300:]}
        env = dict(os.environ, GOFLAGS="-mod=mod", GOPROXY="off")
        env.pop("GOSUMDB", None)
        p = subprocess.run(["go", "build", "./..."], cwd=work, env=env, capture_output=True, text=True)
        ran.append("go build ./...")
        if p.returncode != 0:
            return mid, {"error": "does not build: " + p.stderr[-300:]}
        for chk in [prop] + EXTRA.get(mid, []):
            env2 = dict(env, VERIF_REPO=work)
            p = subprocess.run([os.path.join(ROOT, "check"), chk, "--tier", "quick", "--seed", str(seed)], cwd=ROOT, env=env2,
                               capture_output=True, text=True, timeout=3600)
            ran.append(f"VERIF_REPO=<scratch> ./check {chk} --tier quick --seed {seed}  -> exit {p.returncode}")
            lines = [l for l in p.stdout.splitlines() if l.startswith(("VIOLATION", "  what", "OK ", "INFRA"))]
            results[chk] = {"exit": p.returncode, "lines": [l[:400] for l in lines[:4]]}
    finally:
        shutil.rmtree(work, ignore_errors=True)
    notes = open(os.path.join(d, "agent_notes.md")).read() if os.path.exists(os.path.join(d, "agent_notes.md")) else ""
    conf = json.load(open(os.path.join(d, "confirm.json"))) if os.path.exists(os.path.join(d, "confirm.json")) else {}
    meta = {
        "id": mid, "property": prop,
        "summary": re.sub(r"\s+", " ", notes.strip().splitlines()[0] if notes.strip() else "")[:300],
        "needs_to_manifest": needs_of(notes),
        "confirmed": {"builds": conf.get("builds"), "existing_suite_passes_with_change": conf.get("suite_passes_with_change"),
                      "demonstration_fails_with_change": conf.get("demo_fails_with_change"),
                      "demonstration_passes_without_change": conf.get("demo_passes_without_change"),
                      "demonstration": f"seeded/{mid}/demo_test.go ({conf.get('demo_dir')}: {conf.get('demo_tests')})",
                      "how": "tools/confirm_mutant.sh in a scratch worktree of /repo (removed afterwards)"},
        "ran": ran,
        "detected_by": sorted(c for c, r in results.items() if r["exit"] == 1),
        "not_detected_by": sorted(c for c, r in results.items() if r["exit"] == 0),
        "infra": sorted(c for c, r in results.items() if r["exit"] not in (0, 1)),
        "results": results,
    }
    if mid in TIER_NOTES:
        meta["tier_note"] = TIER_NOTES[mid]
    json.dump(meta, open(os.path.join(d, "meta.json"), "w"), indent=1)
    return mid, meta


def main():
    args = sys.argv[1:]
    jobs, seed = 4, 1
    while args and args[0].startswith("-"):
        if args[0] == "-j":
            jobs = int(args[1]); args = args[2:]
        elif args[0] == "--seed":
            seed = int(args[1]); args = args[2:]
    ids = args or sorted(x for x in os.listdir(SEEDED) if os.path.isdir(os.path.join(SEEDED, x)))
    os.makedirs(SCRATCH, exist_ok=True)
    with concurrent.futures.ThreadPoolExecutor(jobs) as ex:
        for mid, meta in ex.map(lambda m: one(m, seed), ids):
            print(mid, meta.get("error") or ("detected by " + ",".join(meta["detected_by"]) if meta["detected_by"] else "NOT DETECTED"),
                  ("(not by " + ",".join(meta["not_detected_by"]) + ")") if meta.get("not_detected_by") else "", flush=True)
    # matrix over everything that has a meta.json
    rows = []
    for mid in sorted(x for x in os.listdir(SEEDED) if os.path.exists(os.path.join(SEEDED, x, "meta.json"))):
        m = json.load(open(os.path.join(SEEDED, mid, "meta.json")))
        first = ""
        for c in m["detected_by"]:
            ls = [l for l in m["results"][c]["lines"] if l.startswith("  what")]
            if ls:
                first = ls[0].replace("  what: ", "")[:150]
                break
        rows.append(f"| {mid} | {m['summary'][:110].replace('|', '/')} | {', '.join(m['detected_by']) or '—'} | {', '.join(m['not_detected_by']) or ''} | {first.replace('|', '/')} |")
    with open(os.path.join(SEEDED, "MATRIX.md"), "w") as f:
        f.write("# Seeded changes × quick checks\n\nGenerated by tools/matrix.py (each change applied to a scratch copy of /repo HEAD).\n\n")
        f.write("| change | what it does | detected by | run but silent | first report |\n|---|---|---|---|---|\n" + "\n".join(rows) + "\n")
    shutil.rmtree(SCRATCH, ignore_errors=True)


main()
