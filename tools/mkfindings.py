#!/usr/bin/env python3
"""Writes /verif/KNOWN_FINDINGS.json (run by hand after a fix: commit; never at check time)."""
import json, subprocess, os
ROOT = os.path.dirname(os.path.dirname(os.path.abspath(__file__)))
log = subprocess.run(['git', '-C', '/repo', 'log', '--format=%h %s', '--grep=^fix:'], capture_output=True, text=True).stdout.strip().splitlines()
def c(prefix):
    for l in log:
        h, s = l.split(' ', 1)
        if s.startswith(prefix):
            return h
    raise KeyError(prefix)
FIXED = [
 ("C16", "fix: apply the post-change hook", "post-change hook missing on network instances created after registration",
  "reset[DEFAULT,vrf1,vrf2]; SetPostChangeHook; AddNetworkInstance(late1); ADD nh 1 in late1 -> no notification, mirror != RIB"),
 ("C03", "fix: count a next-hop repeated", "duplicate next-hop index in a group counted per list element",
  "ADD nhg 2 {nhs:[4,4,4]} increments the next-hop counter three times, DELETE nhg decrements once: NH 4 undeletable"),
 ("C06", "fix: remove an operation from the pending", "failed held operation stayed pending and was answered FAILED repeatedly",
  "held REPLACE whose key was deleted is answered FAILED on every later install and never leaves pendingEntries"),
 ("C12", "fix: reject a next-hop-group with a zero", "group with zero next-hop index held instead of FAILED (map-order dependent)",
  "ADD nhg {nhs:[3(missing),0]} held or failed depending on map iteration order"),
 ("C08", "fix: do not report a flush as failed", "flush error for shared/missing backup group",
  "Flush with a missing or shared backup next-hop-group returned 'cannot find NHG' (INTERNAL) although everything was removed"),
 ("C01", "fix: reject deletion of an MPLS label", "MPLS delete truncated the label to 32 bits",
  "DELETE mpls label 2^32+k removed label k and was acknowledged"),
 ("C12", "fix: return an error instead of panicking", "undefined enum number panicked the server",
  "ADD nh with encapsulate_header=99 panicked inside protomap.PathsFromProto and killed the process"),
]
OPEN = []
extra = os.path.join(ROOT, "tools", "findings_extra.json")
if os.path.exists(extra):
    x = json.load(open(extra))
    FIXED += [tuple(t) for t in x.get("fixed", [])]
    OPEN += x.get("open", [])
findings = []
for prop, prefix, short, what in FIXED:
    h = c(prefix)
    findings.append({"status": "fixed", "property": prop, "commit": h, "what": what, "line": f"fixed: property={prop} {h} {short}"})
findings += OPEN
json.dump({"comment": "Genuine defects of openconfig/gribigo found by the checks. status=fixed entries are informational and suppress nothing; status=open entries are matched by 'match' and reported as KNOWN-FINDING instead of VIOLATION. Never written at run time.",
           "findings": findings}, open(os.path.join(ROOT, 'KNOWN_FINDINGS.json'), 'w'), indent=1)
print(len(findings), "findings")
