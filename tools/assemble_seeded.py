#!/usr/bin/env python3
"""Copies the sub-agents' deliverables from /tmp/mut into /verif/seeded/<id>/ (patch re-based onto /repo HEAD)."""
import glob, json, os, re, shutil, subprocess
for d in sorted(glob.glob('/tmp/mut/C*.out')):
    prop = os.path.basename(d)[:3]
    for m in ('m1', 'm2'):
        src = f'{d}/{m}.diff'
        if not os.path.exists(src):
            continue
        sid = f'{prop}-{m}'
        dst = f'/verif/seeded/{sid}'
        os.makedirs(dst, exist_ok=True)
        shutil.copy(f'{d}/{m}_demo_test.go', f'{dst}/demo_test.go') if os.path.exists(f'{d}/{m}_demo_test.go') else None
        if os.path.exists(f'{d}/{m}.md'):
            shutil.copy(f'{d}/{m}.md', f'{dst}/agent_notes.md')
        if not os.path.exists(f'{dst}/patch.diff'):
            # re-base onto the current HEAD of /repo
            subprocess.run('git -C /repo reset -q --hard HEAD && git -C /repo clean -fdq', shell=True)
            ok = subprocess.run(f'cd /repo && git apply {src}', shell=True, capture_output=True).returncode == 0
            if not ok:
                subprocess.run('git -C /repo reset -q --hard HEAD', shell=True)
                ok = subprocess.run(f'cd /repo && patch -p1 -F3 -s --no-backup-if-mismatch < {src}', shell=True, capture_output=True).returncode == 0
                subprocess.run("cd /repo && find . -name '*.orig' -delete -o -name '*.rej' -delete", shell=True)
            if ok:
                diff = subprocess.run('git -C /repo diff', shell=True, capture_output=True, text=True).stdout
                open(f'{dst}/patch.diff', 'w').write(diff)
            else:
                print('NEEDS MANUAL PORT', sid)
            subprocess.run('git -C /repo reset -q --hard HEAD && git -C /repo clean -fdq', shell=True)
        shutil.copy(src, f'{dst}/patch_vs_original_commit.diff')
        print(sid, 'ok' if os.path.exists(f'{dst}/patch.diff') else 'MISSING')
