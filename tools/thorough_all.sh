#!/bin/bash
for p in ${@:-C01 C02 C03 C04 C05 C06 C07 C08 C09 C10 C11 C12 C13 C14 C15 C16 C17 C18 C19}; do
  s=$(date +%s); ./check $p --tier thorough --seed 1 > th_$p.log 2>&1; rc=$?; e=$(date +%s)
  echo "$p rc=$rc secs=$((e-s)) $(grep -c '^KNOWN-FINDING' th_$p.log) known; $(tail -n 1 th_$p.log | cut -c1-200)"
done
