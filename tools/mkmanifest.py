#!/usr/bin/env python3
"""Regenerates /verif/MANIFEST.json from the table below (kept next to the checks so they stay in step)."""
import json, os, sys
ROOT = os.path.dirname(os.path.dirname(os.path.abspath(__file__)))
sys.path.insert(0, os.path.join(ROOT, "lib"))

TECH = "explicit TLA+ spec (TLC model checking) + trace validation of the real code against it"
CHECKS = {
 "C01": dict(ref="DESIGN.md 5/C01", engine="GribiRIB",
   text="TLC model-checks GribiRIB (InstalledIsFold, FailedLeavesNoTrace) on bounded instances; TLC-emitted input sequences (all short ones, biased simulation walks) and seeded random histories over 3-4 instances are replayed into the real rib package; every call's results, the full projected RIB, and the fold of the acknowledged operations are validated by TLC against GribiRIBTrace, deviations attributed per component.",
   note="trusted: TLC, the Go projection (ygot entry hash vs catalogue), the verif hooks; bounded constants; replayed histories only"),
 "C02": dict(ref="DESIGN.md 5/C02", engine="GribiRIB",
   text="GribiRIB models addEntryInternal with explicit cascade frames (any snapshot order); TLC checks NoDangling, NothingResolvableHeld, NoFwdMeansNoHeld; the real code's per-attempt outcomes (installed/held/failed, logged by the verif hook in cascade order), held-operation set and final state are validated by TLC call by call.",
   note="trusted: TLC, hooks at the three outcome sites of addEntryInternal, read-only snapshot of pendingEntries"),
 "C03": dict(ref="DESIGN.md 5/C03", engine="GribiRIB",
   text="The specification defines the DELETE verdict from installed entries (ground truth) and maintains the counters incrementally; TLC checks CountersExact on all bounded histories; on the real code every DELETE verdict and the reference counters (read-only snapshot) are compared after every call, incl. duplicate next-hop lists, retargeting replaces, cross-instance references and partial flushes.",
   note="trusted: TLC, snapshot accessor VerifRefCounts; bounded constants"),
 "C08": dict(ref="DESIGN.md 5/C08", engine="GribiRIB",
   text="RIB part (FlushExact): Flush(S) empties exactly S, keeps other instances, reports OK, keeps counters exact (TLC invariant + trace validation of every flush on the real rib). The election gate of the Flush RPC is decided by the server-level specification (see DESIGN).",
   note="RIB-level flush only until the server family is registered for this property"),
 "C12": dict(ref="DESIGN.md 5/C12", engine="GribiRIB",
   text="Malformed operations (classes concretised to several concrete protobufs each) are part of the alphabet; the specification requires a FAILED result or an error return and an unchanged state; a panic in the code under test is an event with no specification action. Validated on the real rib after every call.",
   note="input space covered through malformation classes and their concrete instances, not all protobuf messages (DESIGN 7)"),
 "C16": dict(ref="DESIGN.md 5/C16", engine="GribiRIB",
   text="A consumer folding post-change notifications (mirror) must equal the RIB after every call, for instances created before and after hook registration; every resolved-entry notification must carry a snapshot equal to the RIB right after the announced change, be delivered, and stay unchanged (checked at the end of every history). TLC invariant MirrorIsRib + trace validation.",
   note="trusted: TLC, harness fold of notifications; resolved-entry snapshots matched by the spawn hook order"),
}
NA = {}
def main():
    import families
    props = [json.loads(l) for l in open(os.path.join(ROOT, "properties.jsonl"))]
    checks, na = [], []
    for p in props:
        pid = p["id"]
        if pid in families.REGISTRY and pid in CHECKS:
            c = CHECKS[pid]
            checks.append({
                "property_id": pid,
                "quick_cmd": f"./check {pid} --tier quick",
                "thorough_cmd": f"./check {pid} --tier thorough",
                "evidence_file": f"/verif/evidence/{pid}.json",
                "replay_cmd_template": f"./check {pid} --replay {{path}}",
                "engine": c["engine"],
                "level_claimed": {"category": "model_checking", "text": c["text"], "design_ref": c["ref"]},
                "level_note": c["note"],
                "technique": c.get("tech", TECH),
            })
        else:
            na.append({"property_id": pid, "reason": NA.get(pid, "check not built yet in this round; see DESIGN.md section 10 (build order)")})
    hooks = json.load(open(os.path.join(ROOT, "tools", "hook_commits.json")))
    m = {
        "version": 1,
        "setup_cmd": "cd /verif/harness && cp /repo/go.sum . && GOFLAGS=-mod=mod GOPROXY=off go build -tags verif -o /verif/.cache/vh-warm ./cmd/vh && rm -f /verif/.cache/vh-warm",
        "hooks": {
            "guard": "verif",
            "enable": "go build -tags verif (harness module /verif/harness with replace github.com/openconfig/gribigo => /repo)",
            "baseline_off_cmd": "cd /repo && GOFLAGS=-mod=mod GOPROXY=off go test -json -vet=off -count=1 -timeout 25m ./...",
            "source_commits": hooks,
            "add_only": True,
        },
        "engines": [
            {"name": "GribiRIB", "path": "/verif/spec/GribiRIB.tla", "serves_properties": ["C01", "C02", "C03", "C08", "C12", "C16"],
             "kind_free_text": "TLA+ spec of rib/rib.go; GribiRIB_MC (bounded instance, input emission), GribiRIBTrace (trace validation); Go harness /verif/harness (vh rib-run)"},
        ],
        "checks": checks,
        "not_applicable": na,
        "notes": "All checks: ./check <ID> [--tier quick|thorough]; VERIF_SEED/VERIF_TIER honoured. Known findings: /verif/KNOWN_FINDINGS.json.",
    }
    json.dump(m, open(os.path.join(ROOT, "MANIFEST.json"), "w"), indent=1)
    print("checks:", [c["property_id"] for c in checks], "n/a:", [n["property_id"] for n in na])
main()
