#!/usr/bin/env python3
"""Regenerates /verif/MANIFEST.json from the table below (kept next to the checks so they stay in step)."""
import json, os, sys
ROOT = os.path.dirname(os.path.dirname(os.path.abspath(__file__)))
sys.path.insert(0, os.path.join(ROOT, "lib"))

TECH = "explicit TLA+ spec model-checked with TLC; TLC-emitted behaviours (exhaustive small instance + simulation) and seeded random sequences replayed into the real code; the recorded traces validated step by step by TLC against the spec"
CHECKS = {
 "C01": dict(ref="DESIGN.md 5/C01", engine="GribiRIB",
   text="TLC model-checks GribiRIB (InstalledIsFold, FailedLeavesNoTrace) on bounded instances; TLC-emitted input sequences (all short ones, biased simulation walks) and seeded random histories over 3-4 instances are replayed into the real rib package; every call's results, the full projected RIB, and the fold of the acknowledged operations are validated by TLC against GribiRIBTrace, deviations attributed per component.",
   note="trusted: TLC, the Go projection (ygot entry hash vs catalogue), the verif hooks; bounded constants; replayed histories only"),
 "C02": dict(ref="DESIGN.md 5/C02", engine="GribiRIB",
   text="GribiRIB models addEntryInternal with explicit cascade frames (any snapshot order); TLC checks NoDangling, NothingResolvableHeld, NoFwdMeansNoHeld; the real code's per-attempt outcomes (installed/held/failed, logged by the verif hook in cascade order), held-operation set and final state are validated by TLC call by call.",
   note="trusted: TLC, hooks at the three outcome sites of addEntryInternal, read-only snapshot of pendingEntries"),
 "C03": dict(ref="DESIGN.md 5/C03", engine="GribiRIB",
   text="The specification defines the DELETE verdict from installed entries (ground truth) and maintains the counters incrementally; TLC checks CountersExact on all bounded histories; on the real code every DELETE verdict and the reference counters (read-only snapshot) are compared after every call, incl. duplicate next-hop lists, retargeting replaces, cross-instance references and partial flushes.",
   note="trusted: TLC, snapshot accessor VerifRefCounts; bounded constants"),
 "C08": dict(ref="DESIGN.md 5/C08", engine="GribiRIB",
   text="RIB part (FlushExact): Flush(S) empties exactly S, keeps other instances, reports OK, keeps counters exact (TLC invariant + trace validation of every flush on the real rib). The election gate of the Flush RPC is decided by the server-level specification (see DESIGN).",
   note="RIB-level flush only until the server family is registered for this property"),
 "C12": dict(ref="DESIGN.md 5/C12", engine="GribiRIB",
   text="Malformed operations (classes concretised to several concrete protobufs each) are part of the alphabet; the specification requires a FAILED result or an error return and an unchanged state; a panic in the code under test is an event with no specification action. Validated on the real rib after every call.",
   note="input space covered through malformation classes and their concrete instances, not all protobuf messages (DESIGN 7)"),
 "C16": dict(ref="DESIGN.md 5/C16", engine="GribiRIB",
   text="A consumer folding post-change notifications (mirror) must equal the RIB after every call, for instances created before and after hook registration; every resolved-entry notification must carry a snapshot equal to the RIB right after the announced change, be delivered, and stay unchanged (checked at the end of every history). TLC invariant MirrorIsRib + trace validation.",
   note="trusted: TLC, harness fold of notifications; resolved-entry snapshots matched by the spawn hook order"),
}
CHECKS.update({
 "C04": dict(ref="DESIGN.md 5/C04", engine="GribiServer",
   text="GribiServer models one received message per step with the election/client snapshot taken once per request; TLC checks OnlyPrimaryWrites and ElecOnlyByElection (action properties) over all interleavings of open/announce/operate/close of 2-3 sessions on an id lattice spanning both 64-bit halves; TLC-emitted message sequences and seeded random profiles are driven through the real server.Modify on in-process streams; every RIB call that the specification does not allow at that point (ribCallUnexpected), every state change outside such a call and every divergence of the session's recorded election id are reported.",
   note="message grain: sessions are driven one message at a time; handler interleavings at the gates between critical sections: GribiServerSched (see C11); trusted: TLC, hooks, in-process stream",
   engine2="GribiServer+GribiServerSched"),
 "C05": dict(ref="DESIGN.md 5/C05", engine="GribiServer",
   text="TLC checks ElecIsMax (learnt id = maximum announced, 128-bit order), ElecMonotone and LowerNeverSteals on all announcement sequences of 3 sessions over a 3x3 id lattice; every sequence of parameter / election messages of two (three) sessions over a single id (ties, re-announcements) is emitted exhaustively; on the real server every election reply, the learnt id and the primary are compared after every message (ids concretised order-preservingly to uint64 boundary values 1, 5, 2^32, 2^63, 2^64-1).",
   note="abstract ids are ranks into a table of six uint64 values per half; interleaved announcements: GribiServerSched schedules (store / compare-and-set of different sessions interleaved) and C11",
   engine2="GribiServer+GribiServerSched"),
 "C06": dict(ref="DESIGN.md 5/C06", engine="GribiServer",
   text="The specification derives, per operation, the exact ModifyResponse (RIB then FIB acks per acknowledged id, FAILED per failed id) from the RIB call's result or from the server's own checks; TLC checks OneVerdict; on the real server every response is compared, extra, missing, misordered and foreign results are reported; held operations resolved by later operations and hand-overs of the primary role are part of the driven histories. One open known finding (held operation answered on another session's stream).",
   note="a response lost because the RPC is ending (fatal error of a later operation / failed write) is allowed, as the property excuses ended streams"),
 "C07": dict(ref="DESIGN.md 5/C07", engine="GribiServer",
   text="GetRPC in the specification returns exactly the installed entries of the (instance, table) scope; on the real server every Get of the request matrix is compared as a set with duplicates, tags and payload identities (proto payload hash against the catalogue that covers every builder field), Get(ALL) vs per-table, empty scopes, error scopes, and rib.FromGetResponses of the responses is compared with the scope's entries. One open known finding (boolean leaves dropped by ygot protomap).",
   note="payload fidelity is established for the catalogue's field combinations (DESIGN 7)"),
 "C09": dict(ref="DESIGN.md 5/C09", engine="GribiServer",
   text="The status table (code + ModifyRPCErrorDetails reason) for every negotiation/protocol violation is part of GribiServer; TLC explores all message sequences over the full alphabet on up to three sessions; on the real server the terminal status, the absence of any effect on RIB/election/other sessions and the removal of the failed session's footprint are compared after every message.",
   note="where specification.md is silent the pinned behaviour of the reference server is the oracle"),
 "C10": dict(ref="DESIGN.md 5/C10", engine="GribiServer",
   text="Close (half-close, receive error) after any message, a failed write of any response (incl. multi-operation requests, whose one straggling operation is modelled), and Get streams whose consumer fails after k responses; after every such fault the specification requires unchanged RIB and election state and the server must keep answering: a step that does not complete within the watchdog is reported with the blocked goroutine frames.",
   note="in-process streams (no real transport); a hang is confirmed by a goroutine dump showing the frame blocked inside gribigo"),
})
CHECKS.update({
 "C15": dict(ref="DESIGN.md 5/C15", engine="GribiReconcile",
   text="GribiReconcile defines the plan (add/replace/delete sets per table, over the union of network instances) from the package documentation; TLC checks on all pairs of RIBs built by bounded operation sequences (continuing from the target or from scratch, with target-only instances) that applying the plan through the GribiRIB actions in the documented order acknowledges every operation at once and converges; on the real code pairs of real RIBs are built, the real reconciler's operation sets are compared with the plan (as sets, ids base+1..base+n), applied to the real target in the documented order under RIB trace validation, and the result compared with the intended RIB.",
   note="next-hop payloads with boolean leaves are excluded (known finding getBoolLeafDropped); plans are computed against the local target and, for comparison, against the same target through reconciler.RemoteRIB (client.Get + rib.FromGetResponses over an in-process server)"),
 "C17": dict(ref="DESIGN.md 5/C17", engine="GribiChk",
   text="GribiChk is the direct specification of each helper's verdict; TLC enumerates the bounded input space (GribiChk_MC: result lists, wants, option combinations, Get responses, error values, statuses) and every enumerated case plus seeded cases over larger domains (near-miss wants) is executed on the real helper with a capturing testing.TB; TLC compares each observed verdict with the specification; for the cached checker the specification is the property's relation (never passes where the plain one fails; equal when keys are unique).",
   note="a fatal failure and a non-fatal t.Error are both counted as failure; trusted: TLC, the capturing TB"),
 "C18": dict(ref="DESIGN.md 5/C18", engine="GribiFluent",
   text="GribiFluent models every With*/Add* method as an update of a flat field map and the queueing calls as snapshots; TLC checks QueuedImmutable, IdsFromOne, StampedWhenElected on all programs of bounded length and emits programs; each program (TLC-emitted and seeded random over every method) runs on the real fluent API with a recording stub stream; EntryProto() of every queued builder and the complete sequence of ModifyRequests that reached the stream (generic protoreflect flattening, independent of fluent) are compared with the specification.",
   note="encap headers are exercised through two composite calls (MPLS labels, UDPv6 with all fields); values are drawn from small sets"),
})
CHECKS.update({
 "C11": dict(ref="DESIGN.md 5/C11", engine="GribiServerCS",
   text="GribiServerCS models the server's lock-protected critical sections (session table, parameter check/set, election store and compare-and-set, per-request snapshot); TLC explores every interleaving of the store/compare-and-set sections of three sessions and checks quiescent consistency and monotonicity; on the real code concurrent scenarios (2-4 Modify sessions on disjoint key ranges, Get readers, Flush callers) run in a binary built with -race: any race report is a violation, every request must be answered within a watchdog (blocked frames are recorded), and the sequence of critical-section events (sequence numbers taken in the hooks, inside the locks) is validated by TLC against GribiServerCS: atomic compare-and-set outcomes, untorn snapshots, quiescent election state, and - without overlapping Flush - installed next-hops equal to the fold of the acknowledged operations. GribiServerSched models the handlers of concurrent Modify sessions and a Flush caller as gate-to-gate segments (store | compare-and-set; snapshot | per-operation check and RIB call; flush check | flush); TLC checks every interleaving of bounded instances and its schedules (all histories of small instances + simulation of 3 sessions) are replayed into one real server through the gates, the election state, recorded ids, installed next-hops and replies being validated by TLC after every segment.",
   note="data races are observed by Go's race detector on the schedules the runtime produced in this run; the specification contributes the atomicity/consistency oracle for the recorded interleavings (DESIGN 7)",
   tech="explicit TLA+ specs at critical-section and handler-segment grain (TLC); TLC-generated interleavings replayed through scheduler gates into the real server; trace validation of free-running concurrent runs; race detector as observer",
   engine2="GribiServerCS+GribiServerSched"),
 "C13": dict(ref="DESIGN.md 5/C13", engine="GribiClient",
   text="GribiClient models Q/StartSending/the receiver's handling of every response kind/AwaitConverged; TLC checks Conservation, NeverTwice and ConvergedMeansAnswered over all batches against all server behaviours (reordering across ids, batching, RIB before FIB, election/parameter responses, unknown ids, repeated terminal results, multi-field responses) and emits sequences; on the real client (scripted stub stream) pending operations, results with their operation type/key, error counts, what reached the stream and the AwaitConverged verdict are compared after every step; Status() snapshots taken concurrently with the receiver - one of them held at a gate between its two reads while a response is handled - must account for every operation. One open known finding.",
   note="call grain: the sender goroutine is eager (harness waits for its Send); goroutine grain: see C14; ids unique in TLC-emitted sequences except deliberate clashes with a pending id",
   engine2="GribiClient+GribiClientProc"),
 "C14": dict(ref="DESIGN.md 5/C14", engine="GribiClient",
   text="Same specification with the fault actions: a failed Send after n messages (which breaks the stream for the receiver too), a receive error, a clean end of stream, and a burst of Q calls while Send is stuck and then fails; after each the specification requires the recorded errors, the AwaitConverged verdict 'err', every Q call to return, Close/Reset to return with no client goroutine left (goroutine census) and a fresh client after Reset+Connect. A call that does not return within the watchdog is reported with the blocked frames. Goroutine grain (GribiClientProc): the application, sender and receiver goroutines, the modify channel (capacity 5), the sender-exit channel, the awaiting RWMutex with Go's writer preference, the wait group and the done channel are modelled step by step; TLC checks every interleaving of small instances for NoPanic, CloseLeavesNoGoroutine, AwaitSound, AwaitReportsErrors, ResetIsFresh and - under weak fairness - that every Q / AwaitConverged / Close / Reset call returns whatever fault the stream suffers (the design before fix 9773e1f fails QReturns); TLC-generated schedules of the instance with the real capacity are replayed goroutine step by goroutine step through scheduler gates in the real client, and TLC validates after every step where each goroutine is parked and the observable state.",
   note="stub stream (no real transport); goroutines are counted by stack census of the client package; which ready case a Go select takes cannot be forced (logged, schedule cut there)",
   engine2="GribiClient+GribiClientProc"),
})
CHECKS["C19"] = dict(ref="DESIGN.md 5/C19", engine="GribiServer",
   text="The unmodified compliance suite runs against one long-lived reference server per forward-reference mode (bufconn) in permuted orders and with different starting election ids: every test must meet its expected verdict whatever ran before it, and the complete wire trace of the run (every ModifyRequest/Response, Get, Flush, with the server's RIB and session state) is validated by TLC against GribiServer - so the suite's verdicts are tied to a server the specification accepts. A catalogue of wrappers that break exactly one protocol requirement (no FIB ack, Get withholds an entry, Flush ignored, election response echoes the request, repeated session parameters accepted, idempotent delete failed, non-primary programmed, error reason dropped, forward references rejected) is run against the tests written for that requirement (spec/compliance_map.json): each must fail, and TLC must reject the wrapper's wire trace at that requirement.",
   note="permutations are sampled; tests with two simultaneously active clients are excluded from message-grain trace validation",
   tech="explicit TLA+ spec (TLC) as wire-trace oracle for compliance-suite runs in permuted orders; fault-injection wrappers with pinned expected failures")
CHECKS["C08"]["text"] = CHECKS["C08"]["text"].replace("The election gate of the Flush RPC is decided by the server-level specification (see DESIGN).", "Server part (FlushGate): the complete decision table of network-instance and election fields against the learnt election id is part of GribiServer.FlushVerdict; every Flush RPC's status/reason and effect are compared on the real server.")
CHECKS["C08"]["note"] = "trusted: TLC, hooks; bounded constants"
CHECKS["C08"]["engine"] = "GribiRIB+GribiServer"
CHECKS["C12"]["engine"] = "GribiRIB+GribiServer"
RIBCS = (" Overlapping calls: GribiRIBCS models AddEntry / DeleteEntry / Flush / AddNetworkInstance at the grain of the code's critical sections (check, install, reference "
         "counting and retry walk are separate sections); TLC enumerates the interleavings of 13 scenarios and 144 call pairs (invariants hold with Serial = TRUE, the interleavings "
         "that break them at the code's grain are the open findings) and the schedules are replayed through gates in rib/rib.go, the tables, counters, held operations, gate reached "
         "and call results being validated by TLC after every segment.")
for _p in ("C02", "C03", "C06", "C08", "C11"):
    CHECKS[_p]["text"] += RIBCS
    CHECKS[_p]["engine2"] = CHECKS[_p].get("engine2", CHECKS[_p]["engine"]) + "+GribiRIBCS"
HAMMER = (" Free-running part: several goroutines call AddEntry / DeleteEntry on one RIB at once (malformed operations included) in a -race build; a race report, a crash inside gribigo, "
          "a goroutine left blocked, or an operation that is neither acknowledged, failed nor held at quiescence (GribiRIBCS.Accounted, checked by TLC at the code's grain and evaluated by "
          "TLC on the recorded answers) is a violation.")
for _p in ("C11", "C12"):
    CHECKS[_p]["text"] += HAMMER
CHECKS["C12"]["engine2"] = CHECKS["C12"].get("engine2", CHECKS["C12"]["engine"]) + "+GribiRIBCS"
SCHEDX = (" Handler-grain scenarios (vh sched-run, judged by GribiServerSched): a burst on one stream is processed in arrival order (an operation stamped with a not yet announced id "
          "is FAILED although the announcement follows at once), and a violation sent while the write of an earlier answer is held up still ends the RPC with its status and removes the session's footprint.")
for _p in ("C04", "C09"):
    CHECKS[_p]["text"] += SCHEDX
CHECKS["C09"]["engine2"] = "GribiServer+GribiServerSched"
NA = {}
def main():
    import families
    props = [json.loads(l) for l in open(os.path.join(ROOT, "properties.jsonl"))]
    checks, na = [], []
    for p in props:
        pid = p["id"]
        if pid in families.REGISTRY and pid in CHECKS:
            c = CHECKS[pid]
            checks.append({
                "property_id": pid,
                "quick_cmd": f"./check {pid} --tier quick",
                "thorough_cmd": f"./check {pid} --tier thorough",
                "evidence_file": f"/verif/evidence/{pid}.json",
                "replay_cmd_template": f"./check {pid} --replay {{path}}",
                "engine": c.get("engine2", c["engine"]),
                "level_claimed": {"category": "model_checking", "text": c["text"], "design_ref": c["ref"]},
                "level_note": c["note"],
                "technique": c.get("tech", TECH),
            })
        else:
            na.append({"property_id": pid, "reason": NA.get(pid, "check not built yet in this round; see DESIGN.md section 10 (build order)")})
    import subprocess
    hooks = subprocess.run(["git", "-C", "/repo", "log", "--reverse", "--format=%H", "--grep=^verif:"], capture_output=True, text=True, check=True).stdout.split()
    m = {
        "version": 1,
        "setup_cmd": "cd /verif/harness && cp /repo/go.sum . && GOFLAGS=-mod=mod GOPROXY=off go build -tags verif -o /verif/.cache/vh-warm ./cmd/vh && rm -f /verif/.cache/vh-warm",
        "hooks": {
            "guard": "verif",
            "enable": "go build -tags verif (harness module /verif/harness with replace github.com/openconfig/gribigo => /repo)",
            "baseline_off_cmd": "cd /repo && GOFLAGS=-mod=mod GOPROXY=off go test -json -vet=off -count=1 -timeout 25m ./...",
            "source_commits": hooks,
            "add_only": True,
        },
        "engines": [
            {"name": "GribiRIB", "path": "/verif/spec/GribiRIB.tla", "serves_properties": ["C01", "C02", "C03", "C08", "C12", "C16"],
             "kind_free_text": "TLA+ spec of rib/rib.go; GribiRIB_MC (bounded instance, input emission), GribiRIBTrace (trace validation); Go harness /verif/harness (vh rib-run)"},
            {"name": "GribiServerCS", "path": "/verif/spec/GribiServerCS.tla", "serves_properties": ["C11"], "kind_free_text": "critical-section grain spec + GribiServerCS_MC + GribiServerCSTrace; vh conc-run built with -race"},
            {"name": "GribiClient", "path": "/verif/spec/GribiClient.tla", "serves_properties": ["C13", "C14"], "kind_free_text": "client library spec + GribiClient_MC + GribiClientTrace; vh client-run with scripted stub stream"},
            {"name": "GribiServerSched", "path": "/verif/spec/GribiServerSched.tla", "serves_properties": ["C04", "C05", "C11"], "kind_free_text": "handler-segment grain spec of concurrent Modify sessions and Flush on top of GribiServerCS + GribiServerSched_MC (all interleavings, schedule emission) + GribiServerSchedTrace; vh sched-run replays schedules through the server's gates"},
            {"name": "GribiRIBConc", "path": "/verif/spec/GribiRIBConc.tla", "serves_properties": ["C01", "C08"], "kind_free_text": "lock-grain spec of Flush over several network instances vs concurrent installs (linearizability) + GribiRIBConc_MC + GribiRIBConcTrace; vh lin-run records stamped concurrent histories of the real rib package"},
            {"name": "GribiRIBCS", "path": "/verif/spec/GribiRIBCS.tla", "serves_properties": ["C02", "C03", "C06", "C08", "C11", "C12"], "kind_free_text": "critical-section grain spec of overlapping RIB calls (check / install / count / retry walk, Flush holding its locks) + GribiRIBCS_MC (scenario catalogue, all interleavings, schedule emission) + GribiRIBCSTrace; vh ribcs-run replays schedules through the gates of rib/rib.go"},
            {"name": "GribiElectionInd", "path": "/verif/spec/GribiElectionInd.tla", "serves_properties": ["C05"], "kind_free_text": "election core with unbounded ids; inductive invariant (ElecIsMax, PrimaryAnnouncedIt) discharged by apalache-mc (base case + induction step)"},
            {"name": "GribiGetProc", "path": "/verif/spec/GribiGetProc.tla", "serves_properties": ["C10", "C07"], "kind_free_text": "goroutine-grain spec of the Get RPC (producer holding the read lock, consumer, writer); TLC safety + liveness under weak fairness; bound through directed abandoned / slow-consumer Gets in vh srv-run"},
            {"name": "GribiModifyProc", "path": "/verif/spec/GribiModifyProc.tla", "serves_properties": ["C10", "C09"], "kind_free_text": "goroutine-grain spec of one Modify RPC (handler, receive loop, result pump, unbuffered channels, session-table lock); TLC safety + liveness; bound through directed mid-batch write failures in vh srv-run"},
            {"name": "GribiClientProc", "path": "/verif/spec/GribiClientProc.tla", "serves_properties": ["C13", "C14"], "kind_free_text": "goroutine-grain spec of the client (application, sender, receiver, channels, RWMutex) + GribiClientProc_MC (safety, schedule emission) + GribiClientProc_Live (termination under fairness) + GribiClientProcTrace; vh proc-run replays schedules through the client's scheduler gates"},
            {"name": "GribiReconcile", "path": "/verif/spec/GribiReconcile.tla", "serves_properties": ["C15"], "kind_free_text": "plan specification + GribiReconcile_MC + GribiReconcileTrace; vh recon-run"},
            {"name": "GribiChk", "path": "/verif/spec/GribiChk.tla", "serves_properties": ["C17"], "kind_free_text": "verdict specification + GribiChk_MC (case enumeration) + GribiChkTrace; vh chk-run"},
            {"name": "GribiFluent", "path": "/verif/spec/GribiFluent.tla", "serves_properties": ["C18"], "kind_free_text": "builder/queue specification + GribiFluent_MC (program generation) + GribiFluentTrace; vh fluent-run"},
            {"name": "GribiServer", "path": "/verif/spec/GribiServer.tla", "serves_properties": ["C04", "C05", "C06", "C07", "C08", "C09", "C10", "C12", "C19"],
             "kind_free_text": "TLA+ spec of server/server.go at message grain on top of GribiRIB; GribiServer_MC, GribiServerTrace; Go harness (vh srv-run) driving server.Server through in-process streams"},
        ],
        "checks": checks,
        "not_applicable": na,
        "notes": "All checks: ./check <ID> [--tier quick|thorough]; VERIF_SEED/VERIF_TIER honoured. Known findings: /verif/KNOWN_FINDINGS.json.",
    }
    json.dump(m, open(os.path.join(ROOT, "MANIFEST.json"), "w"), indent=1)
    print("checks:", [c["property_id"] for c in checks], "n/a:", [n["property_id"] for n in na])
main()
