"""Shared machinery of verif/check: work directories, Go build, TLC runs, evidence, verdicts."""
import hashlib, json, os, re, shutil, subprocess, sys, time

ROOT = os.path.dirname(os.path.dirname(os.path.abspath(__file__)))
REPO = "/repo"
# Self-test only (tools/matrix.py): check a scratch copy of the repository instead of /repo, so that seeded
# changes can be tried in parallel without touching /repo. Evidence of such runs goes to the work area.
ALT_REPO = os.environ.get("VERIF_REPO") or None
if ALT_REPO:
    REPO = ALT_REPO
SPEC = os.path.join(ROOT, "spec")
NCPU = os.cpu_count() or 4


class Infra(Exception):
    pass


class VhStuck(Infra):
    """A driver run exceeded its watchdog; dump = file with its goroutine dump."""

    def __init__(self, msg, dump="", stderr=""):
        super().__init__(msg)
        self.dump, self.stderr = dump, stderr


class Crash(Exception):
    """The harness process died with a panic raised inside the code under test."""

    def __init__(self, text):
        super().__init__(text[:200])
        self.text = text


def gribigo_panic(stderr):
    """Returns the panic text if stderr shows a Go panic whose goroutine stack starts (after runtime frames) inside
    openconfig/gribigo rather than inside the harness; None otherwise."""
    i = stderr.find("panic:")
    j0 = stderr.find("fatal error:")     # e.g. "concurrent map read and map write": the runtime kills the process
    if i < 0 or (0 <= j0 < i):
        i = j0
    if i < 0:
        return None
    txt = stderr[i:]
    j = txt.find("\ngoroutine ")
    if j < 0:
        return None
    stack = txt[j:].split("\n\n")[0]
    for line in stack.splitlines():
        line = line.strip()
        if not line or line.startswith(("goroutine ", "panic(", "runtime.", "/", "created by", "[signal", "internal/", "sync.")):
            continue
        if line.startswith("github.com/openconfig/gribigo/"):
            return txt[:20000]
        if line.startswith("verif/harness"):
            return None
        # dependencies of gribigo (ygot, protobuf ...) called from it: keep looking for the first project frame
    return None


class Result:
    """Outcome of one check run."""

    def __init__(self):
        self.violations = []      # list of dict(replay=path, what=str)
        self.known = []           # list of str (KNOWN-FINDING lines)
        self.notes = []           # unattributed deviations etc.
        self.coverage = {}
        self.assumptions = []
        self.level = "model_checking"
        self.wall_s = 0.0


class Ctx:
    def __init__(self, prop, tier, seed, keep=False):
        self.prop, self.tier, self.seed, self.keep = prop, tier, seed, keep
        self.work = os.path.join(ROOT, ".work", f"{prop}-{tier}-{os.getpid()}")
        self.bin = os.path.join(self.work, "bin")
        self.n = 0
        self.env = dict(os.environ)
        self.env.update({"GOFLAGS": "-mod=mod", "GOPROXY": "off", "VH_LOGDIR": os.path.join(self.work, "glog")})
        self.env.pop("GOSUMDB", None)

    def prepare(self):
        shutil.rmtree(self.work, ignore_errors=True)
        os.makedirs(self.bin)
        os.makedirs(os.path.join(ROOT, "evidence"), exist_ok=True)
        os.makedirs(os.path.join(ROOT, "replays"), exist_ok=True)

    def cleanup(self):
        if not self.keep:
            shutil.rmtree(self.work, ignore_errors=True)

    def sub(self, name):
        self.n += 1
        d = os.path.join(self.work, f"{self.n:02d}-{name}")
        os.makedirs(d)
        return d

    # -- Go -------------------------------------------------------------
    def build_vh(self, race=False):
        """Build the harness against /repo's current working tree with the verif tag."""
        out = os.path.join(self.bin, "vh-race" if race else "vh")
        if os.path.exists(out):
            return out
        go, env = "go", dict(self.env)
        cmd = [go, "build", "-tags", "verif", "-o", out]
        if race:
            cmd = ["go1.26", "build", "-race", "-tags", "verif", "-o", out]
            env["GOTOOLCHAIN"] = "local"
        cmd.append("./cmd/vh")
        harness = os.path.join(ROOT, "harness")
        if ALT_REPO:
            alt = os.path.join(self.work, "harness")
            if not os.path.isdir(alt):
                shutil.copytree(harness, alt)
                gm = os.path.join(alt, "go.mod")
                txt = open(gm).read().replace("=> /repo", "=> " + ALT_REPO)
                open(gm, "w").write(txt)
            harness = alt
        # several checks may build at the same time: never expose a half-written go.sum
        src, dst = os.path.join(REPO, "go.sum"), os.path.join(harness, "go.sum")
        want = open(src, "rb").read()
        if not os.path.exists(dst) or open(dst, "rb").read() != want:
            tmp = f"{dst}.{os.getpid()}.tmp"
            open(tmp, "wb").write(want)
            os.replace(tmp, dst)
        p = subprocess.run(cmd, cwd=harness, env=env, capture_output=True, text=True)
        if p.returncode != 0:
            raise Infra("go build failed:\n" + p.stdout[-3000:] + p.stderr[-3000:])
        return out

    def run_vh(self, args, timeout=1800, race=False, cwd=None, watchdog=None):
        """watchdog: seconds after which the driver is sent SIGQUIT (its goroutine dump is kept in the work directory) and
        VhStuck is raised - for drivers whose normal running time is known, so that a rare stall can be retried."""
        vh = self.build_vh(race=race)
        if self.tier == "thorough":
            timeout = max(timeout, 4 * 3600)
        if watchdog:
            import signal
            pr = subprocess.Popen([vh] + args, cwd=cwd or self.work, env=self.env, stdout=subprocess.PIPE, stderr=subprocess.PIPE, text=True)
            try:
                out, err = pr.communicate(timeout=watchdog)
                return subprocess.CompletedProcess([vh] + args, pr.returncode, out, err)
            except subprocess.TimeoutExpired:
                pr.send_signal(signal.SIGQUIT)
                try:
                    out, err = pr.communicate(timeout=20)
                except subprocess.TimeoutExpired:
                    pr.kill()
                    out, err = pr.communicate()
                n = len([f for f in os.listdir(self.work) if f.startswith("stuck-")])
                dump = os.path.join(self.work, f"stuck-{n}.txt")
                open(dump, "w").write(" ".join(args) + "\n" + (err or "")[-400000:])
                raise VhStuck(f"vh {args[0]} did not finish within {watchdog}s (goroutine dump: {dump})", dump, err or "")
        try:
            p = subprocess.run([vh] + args, cwd=cwd or self.work, env=self.env, capture_output=True, text=True, timeout=timeout)
        except subprocess.TimeoutExpired:
            raise Infra(f"vh {args[0]} did not finish within {timeout}s")
        return p

    # -- TLC ------------------------------------------------------------
    def tlc(self, module, cfg, name=None, workers=None, simulate=None, depth=None, seed=None,
            timeout=3600, extra_files=None, cfg_text=None, heap=None, deadlock=False, coverage=False):
        """Run TLC on spec/<module>.tla with spec/<cfg> (or cfg_text) in a scratch copy. Returns TLCRun."""
        if self.tier == "thorough":
            timeout = max(timeout, 3 * 3600)
        d = self.sub(name or f"tlc-{module}")
        for f in os.listdir(SPEC):
            if f.endswith(".tla"):
                shutil.copy(os.path.join(SPEC, f), d)
        if cfg_text is not None:
            cfgname = "run.cfg"
            open(os.path.join(d, cfgname), "w").write(cfg_text)
        else:
            cfgname = cfg
            shutil.copy(os.path.join(SPEC, cfg), d)
        for src, dst in (extra_files or {}).items():
            shutil.copy(src, os.path.join(d, dst))
        cmd = ["tlc", "-metadir", os.path.join(d, "md"), "-config", cfgname]
        if simulate is not None:
            cmd += ["-workers", "1", "-simulate", f"num={simulate}"]
            if depth:
                cmd += ["-depth", str(depth)]
        else:
            cmd += ["-workers", str(workers or 1)]
        if seed is not None:
            cmd += ["-seed", str(seed)]
        if deadlock:
            cmd += ["-deadlock"]
        if coverage:
            cmd += ["-coverage", "1"]
        cmd.append(module + ".tla")
        env = dict(os.environ)
        if heap:
            env["JAVA_TOOL_OPTIONS"] = (env.get("JAVA_TOOL_OPTIONS", "") + f" -Xmx{heap}").strip()
        t0 = time.time()
        logf = os.path.join(d, "tlc.out")
        with open(logf, "w") as lf:
            try:
                p = subprocess.run(cmd, cwd=d, env=env, stdout=lf, stderr=subprocess.STDOUT, timeout=timeout)
                rc = p.returncode
            except subprocess.TimeoutExpired:
                subprocess.run(["pkill", "-f", "tlc2.TL[C]"])
                raise Infra(f"TLC timeout ({timeout}s) on {module}/{cfgname}")
        return TLCRun(d, logf, rc, time.time() - t0)


def apalache(ctx, module_text, module, args, name, timeout=1800):
    """Runs apalache-mc check on a module given as text, in a scratch directory. Returns (ok, tail)."""
    d = ctx.sub(name)
    open(os.path.join(d, module + ".tla"), "w").write(module_text)
    t0 = time.time()
    try:
        p = subprocess.run(["apalache-mc", "check", f"--out-dir={d}/out"] + args + [module + ".tla"], cwd=d, capture_output=True, text=True, timeout=timeout)
    except subprocess.TimeoutExpired:
        raise Infra(f"apalache timeout ({timeout}s) on {module}")
    out = p.stdout + p.stderr
    ok = p.returncode == 0 and "The outcome is: NoError" in out
    if not ok and "The outcome is: Error" not in out:
        raise Infra("apalache failed: " + out[-1500:])
    return ok, round(time.time() - t0, 1), out[-1500:]


class TLCRun:
    def __init__(self, d, logf, rc, secs):
        self.dir, self.log, self.rc, self.secs = d, logf, rc, secs
        self.generated = self.distinct = 0
        self.depth = 0
        self.error = None
        self.violated = None
        self.lines = []
        for line in open(logf, errors="replace"):
            line = line.rstrip("\n")
            m = re.match(r"(\d+) states generated, (\d+) distinct states found", line)
            if m:
                self.generated, self.distinct = int(m.group(1)), int(m.group(2))
            m = re.search(r"depth of the complete state graph search is (\d+)", line)
            if m:
                self.depth = int(m.group(1))
            m = re.match(r"Error: Invariant (\S+) is violated", line)
            if m:
                self.violated = m.group(1)
            m = re.match(r"Error: (.*)", line)
            if m and self.error is None and "Invariant" not in line and "Postcondition" not in line:
                self.error = m.group(1)
            if "is violated" in line and "property" in line.lower() and not self.violated:
                self.violated = line
            self.lines.append(line)

    def ok(self):
        return self.rc == 0 and self.error is None and self.violated is None

    def emitted(self):
        """Lines printed by the specification with the @@ marker (input sequences)."""
        out = []
        for line in self.lines:
            s = line.strip()
            if s.startswith('"@@'):
                try:
                    s = json.loads(s)
                except Exception:
                    continue
            if s.startswith("@@"):
                out.append(s[2:])
        return out

    def tail(self, n=40):
        keep = [l for l in self.lines if not re.match(r"^(Parsing|Semantic|Linting)", l)]
        return "\n".join(keep[-n:])


def require_ok(run, what):
    if not run.ok():
        raise Infra(f"{what}: TLC rc={run.rc} error={run.error} violated={run.violated}\n{run.tail()}")
    return run


# -- trace reports ----------------------------------------------------------
MISMATCH_RE = re.compile(r'<<\s*"MISMATCH",\s*(\d+),\s*"([\w.]+)",\s*\{(.*?)\}\s*>>')


def parse_trace_report(run):
    """Returns (matched, total, [(line, event, [components])])."""
    txt = " ".join(l.strip() for l in run.lines)
    mism = []
    for m in MISMATCH_RE.finditer(txt):
        comps = [c.strip().strip('"') for c in m.group(3).split(",") if c.strip()]
        mism.append((int(m.group(1)), m.group(2), comps))
    m = re.search(r'<<\s*"TRACE",\s*"matched",\s*(\d+),\s*"of",\s*(\d+)\s*>>', txt)
    if not m:
        raise Infra("trace validation produced no TRACE line:\n" + run.tail())
    matched, total = int(m.group(1)), int(m.group(2))
    if run.error and "Postcondition" not in (run.error or ""):
        raise Infra(f"trace validation: TLC error {run.error}\n{run.tail(60)}")
    return matched, total, mism


# -- known findings -----------------------------------------------------------
def load_known():
    p = os.path.join(ROOT, "KNOWN_FINDINGS.json")
    if not os.path.exists(p):
        return []
    return json.load(open(p)).get("findings", [])


def sha(s):
    return hashlib.sha256(s.encode()).hexdigest()[:12]


# -- evidence and verdict -------------------------------------------------------
def conclude(ctx, res):
    ev = {
        "property_id": ctx.prop,
        "tier": ctx.tier,
        "seed": ctx.seed,
        "level": res.level,
        "coverage": res.coverage,
        "assumptions": res.assumptions,
        "wall_s": round(res.wall_s, 2),
        "violations": len(res.violations),
    }
    if res.notes:
        ev["coverage"]["notes"] = res.notes[:50]
    if res.known:
        ev["coverage"]["known_findings_seen"] = res.known
    path = os.path.join(ROOT, "evidence", f"{ctx.prop}.json")
    if ALT_REPO:
        os.makedirs(os.path.join(ROOT, ".work", "alt-evidence"), exist_ok=True)
        path = os.path.join(ROOT, ".work", "alt-evidence", f"{ctx.prop}-{os.getpid()}.json")
    tmp = path + ".tmp"
    json.dump(ev, open(tmp, "w"), indent=1, sort_keys=True, default=str)
    os.replace(tmp, path)
    for k in res.known:
        print(f"KNOWN-FINDING: property={ctx.prop} {k}")
    for n in res.notes[:20]:
        print(f"NOTE: {n}")
    if res.violations:
        for v in res.violations[:10]:
            print(f"VIOLATION property={ctx.prop} replay={v['replay']}")
            print(f"  what: {v['what']}")
        return 1
    c = res.coverage
    print(f"OK property={ctx.prop} tier={ctx.tier} seed={ctx.seed} states={c.get('states')} "
          f"traces={c.get('traces_validated_against_impl')} evaluations={c.get('evaluations')} wall={res.wall_s:.1f}s")
    return 0
