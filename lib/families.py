"""Property families: which specifications, configurations, drivers and attributions decide each property."""
import json, os, random, subprocess, collections

import vlib
from vlib import Infra, Result, require_ok, parse_trace_report

REGISTRY = {}


def q(s):
    return '"' + s + '"'


def tlaset(xs):
    return "{" + ", ".join(q(x) if isinstance(x, str) else str(x).upper() if isinstance(x, bool) else str(x) for x in xs) + "}"


# ---------------------------------------------------------------------------
# RIB family: GribiRIB / GribiRIB_MC / GribiRIBTrace  (C01 C02 C03 C08(rib) C12(rib) C16)

RIB_INVARIANTS = ("InstalledIsFold NoDangling NothingResolvableHeld NoFwdMeansNoHeld CountersExact "
                  "MirrorIsRib AnswerOnce PendShape FailedLeavesNoTrace")


def rib_cfg(InitNIs=("DEFAULT",), LateNIs=(), OpNIs=("DEFAULT",), NHK=("1",), NHGK=("1",), NHLists="L_1",
            BKs=("",), TopK="T_v4", GNIs=("",), PLs=("a",), FwdModes=(True, False), MaxOps=3, WithFlush=True,
            BadKinds=(), EmitOn=False, Bias=False, view=True, invariants=True):
    lines = ["SPECIFICATION MCSpec", "CONSTANTS", '  DefaultNI = "DEFAULT"',
             f"  InitNIs = {tlaset(InitNIs)}", f"  LateNIs = {tlaset(LateNIs)}", f"  OpNIs = {tlaset(OpNIs)}",
             f"  NHK = {tlaset(NHK)}", f"  NHGK = {tlaset(NHGK)}", f"  NHLists <- {NHLists}",
             f"  BKs = {tlaset(BKs)}", f"  TopK <- {TopK}", f"  GNIs = {tlaset(GNIs)}", f"  PLs = {tlaset(PLs)}",
             f"  FwdModes = {tlaset(FwdModes)}", f"  MaxOps = {MaxOps}", f"  WithFlush = {str(WithFlush).upper()}",
             f"  BadKinds = {tlaset(BadKinds)}", f"  EmitOn = {str(EmitOn).upper()}", f"  Bias = {str(Bias).upper()}"]
    if view:
        lines.append("VIEW View")
    if invariants:
        lines.append("INVARIANTS " + RIB_INVARIANTS)
    if EmitOn:
        lines.append("INVARIANTS Emit")
    lines.append("CHECK_DEADLOCK FALSE")
    return "\n".join(lines) + "\n"


# component reported by GribiRIBTrace -> properties it concerns
def rib_attr(comp, ev, rec):
    if comp.endswith("AfterBad") or comp.endswith("Bad"):
        return {"C12"}
    if comp.startswith("flush:"):
        base = comp[6:]
        return {"C08"} | {"rib": {"C01"}, "refs": {"C03"}, "mirror": {"C16"}, "pend": {"C02"}}.get(base, set())
    table = {
        "rib": {"C01"}, "fold": {"C01"}, "res": {"C01", "C06"}, "failedTrace": {"C01", "C12"},
        "pend": {"C02"}, "pendShape": {"C02"}, "heldResolvable": {"C02"}, "heldNoFwd": {"C02"},
        "dangling": {"C02"}, "try": {"C02"}, "incomplete": {"C02"}, "begin": {"C02"},
        "refs": {"C03"}, "counters": {"C03"},
        "mirror": {"C16"}, "mirrorVsRib": {"C16"}, "rsnapMissing": {"C16"}, "rsnapTag": {"C16"},
        "rsnapContent": {"C16"}, "rsnapUnexpected": {"C16"}, "snapMutated": {"C16"}, "snapUndelivered": {"C16"},
        "answeredTwice": {"C06"}, "foreignAck": {"C06"},
        "flushResult": {"C08"}, "flushUnexpected": {"C08"},
        "panic": {"C12"}, "errUnexpected": {"C12"}, "stateError": {"C01"},
        "addniUnexpected": {"C01"}, "addniResult": {"C01"}, "deleteUnexpected": {"C01"},
    }
    if comp == "delVerdict":
        kind = (rec.get("op") or {}).get("kind")
        return {"C03"} if kind in ("nh", "nhg") else {"C01"}
    return table.get(comp, set())


class Segments:
    """Splits an NDJSON trace into segments (reset .. next reset) with light statistics."""

    def __init__(self, path):
        self.path = path
        self.starts = []
        self.nlines = 0
        with open(path) as f:
            for i, line in enumerate(f, 1):
                self.nlines = i
                if line.startswith('{"ev":"reset"'):
                    self.starts.append(i)

    def segment_of(self, lineno):
        s = 1
        for st in self.starts:
            if st <= lineno:
                s = st
            else:
                break
        return s

    def lines(self, a, b):
        out = []
        with open(self.path) as f:
            for i, line in enumerate(f, 1):
                if i < a:
                    continue
                if i > b:
                    break
                out.append(json.loads(line))
        return out


def events_to_inputs(evs):
    """Reconstructs the input sequence of a trace segment (for replay files)."""
    ins = []
    for e in evs:
        k = e["ev"]
        if k == "reset":
            ins.append({"a": "reset", "nis": e["nis"], "fwd": e["fwd"]})
        elif k in ("addbegin", "delete", "callerr"):
            ins.append({"a": "op", "op": e["op"]})
        elif k == "panic":
            ins.append(e["input"])
        elif k == "flush":
            ins.append({"a": "flush", "nis": e["nis"]})
        elif k == "addni":
            ins.append({"a": "addni", "ni": e["ni"]})
    return ins


def strip_state(e):
    e = dict(e)
    for k in ("st", "rsnap"):
        if k in e:
            e[k] = "<omitted>"
    return e


def rib_trace_stats(path, prop):
    """Per-segment statistics from the recorded trace: counts of calls, distinct input sequences and of
    sequences that are non-trivial for the property (stated rule)."""
    segs = 0
    distinct = set()
    nontrivial = set()
    events = 0
    cur = None
    samples = []

    def close():
        nonlocal cur
        if cur is None:
            return
        key = vlib.sha(json.dumps(cur["ins"], sort_keys=True))
        distinct.add(key)
        f = cur["flags"]
        changed = f["installed"] > 0
        ante = {
            "C01": f["installed"] > 0 and (f["replaced"] > 0 or f["deleted"] > 0),
            "C02": f["held"] > 0 and f["cascade"] > 0,
            "C03": f["delref"] > 0,
            "C08": f["flush_nonempty"] > 0,
            "C12": f["bad"] > 0,
            "C16": f["notified"] > 0,
            "C06": f["cascade"] > 0,
        }.get(prop, changed)
        if changed and ante:
            nontrivial.add(key)
            if len(samples) < 3:
                samples.append(cur["ins"][:14])
        cur = None

    with open(path) as fh:
        for line in fh:
            e = json.loads(line)
            events += 1
            k = e["ev"]
            if k == "reset":
                close()
                segs += 1
                cur = {"ins": [], "flags": collections.Counter(), "held": set(), "size": 0}
                cur["ins"].append({"a": "reset", "nis": e["nis"], "fwd": e["fwd"]})
                continue
            if cur is None:
                continue
            f = cur["flags"]
            if k == "addbegin":
                cur["ins"].append({"a": "op", "op": e["op"]})
                cur["top"] = e["op"]["id"]
                if e["op"].get("bad"):
                    f["bad"] += 1
            elif k == "try":
                if e["out"] == "held":
                    cur["held"].add(e["id"])
                    f["held"] += 1
                elif e["out"] == "installed":
                    f["installed"] += 1
                    if e["id"] != cur.get("top"):
                        f["cascade"] += 1
                    if "rsnap" in e:
                        f["notified"] += 1
            elif k == "addend":
                st = e.get("st") or {}
                if "rib" in st:
                    size = sum(len(v["nh"]) + len(v["nhg"]) + len(v["top"]) for v in st["rib"].values())
                    if size <= cur["size"] and len(e["oks"]) > 0:
                        f["replaced"] += 1
                    cur["size"] = size
                    if st.get("mirror") and any(v["nh"] or v["nhg"] or v["top"] for v in st["mirror"].values()):
                        f["notified"] += 1
            elif k == "delete":
                cur["ins"].append({"a": "op", "op": e["op"]})
                if e["op"].get("bad"):
                    f["bad"] += 1
                if e.get("oks"):
                    st = e.get("st") or {}
                    if "rib" in st:
                        size = sum(len(v["nh"]) + len(v["nhg"]) + len(v["top"]) for v in st["rib"].values())
                        if size < cur["size"]:
                            f["deleted"] += 1
                        cur["size"] = size
                if e.get("fails") and e["op"]["kind"] in ("nh", "nhg") and not e["op"].get("bad"):
                    f["delref"] += 1
            elif k == "callerr":
                cur["ins"].append({"a": "op", "op": e["op"]})
                if e["op"].get("bad"):
                    f["bad"] += 1
            elif k == "flush":
                cur["ins"].append({"a": "flush", "nis": e["nis"]})
                if cur["size"] > 0:
                    f["flush_nonempty"] += 1
                st = e.get("st") or {}
                if "rib" in st:
                    cur["size"] = sum(len(v["nh"]) + len(v["nhg"]) + len(v["top"]) for v in st["rib"].values())
            elif k == "addni":
                cur["ins"].append({"a": "addni", "ni": e["ni"]})
            elif k == "panic":
                cur["ins"].append(e["input"])
                f["bad"] += 1
    close()
    return dict(segments=segs, events=events, distinct=len(distinct), nontrivial=len(nontrivial), samples=samples)


RIB_RULE = {
    "C01": "one case = one input sequence (TLC-emitted or seeded random) replayed into rib.RIB and validated by TLC; non-trivial = installs at least one entry and later replaces or deletes an installed key; distinct by hash of the input sequence",
    "C02": "one case = one input sequence; non-trivial = at least one operation was held and at least one held operation was later installed by a cascade",
    "C03": "one case = one input sequence; non-trivial = installs entries and contains a DELETE of a next-hop(-group) that was refused because it was referenced",
    "C08": "one case = one input sequence; non-trivial = contains a Flush of a non-empty RIB",
    "C12": "one case = one input sequence; non-trivial = installs entries and contains a malformed operation",
    "C16": "one case = one input sequence; non-trivial = produced post-change and resolved-entry notifications",
    "C06": "one case = one input sequence; non-trivial = a cascade acknowledged an operation other than the one submitted",
}


class RIBFamily:
    """Decides a RIB-level property:
       1. TLC model-checks GribiRIB (bounded instance) for the invariants;
       2. TLC emits input sequences (exhaustive short ones + simulation walks);
       3. the Go harness replays them (plus seeded random ones over a larger alphabet) into the real rib
          package and records one event per specification action with the projected state after each call;
       4. TLC validates the trace against GribiRIBTrace; reported deviations are attributed to properties."""

    def __init__(self, prop, mc, sims, exh, random_cfg):
        self.prop, self.mc, self.sims, self.exh, self.random_cfg = prop, mc, sims, exh, random_cfg

    def tier(self, ctx, d):
        return d[ctx.tier] if isinstance(d, dict) and ctx.tier in d else d

    def gen_walks(self, ctx, res):
        walks = []
        # exhaustive short input sequences (history variable kept in the fingerprint)
        for kw in self.tier(ctx, self.exh):
            run = require_ok(ctx.tlc("GribiRIB_MC", None, name="emit-exh", workers=1,
                                     cfg_text=rib_cfg(EmitOn=True, view=False, invariants=False, **kw), timeout=1800),
                             "exhaustive emission")
            walks += run.emitted()
        nexh = len(set(walks))
        for i, (kw, num, depth) in enumerate(self.tier(ctx, self.sims)):
            run = require_ok(ctx.tlc("GribiRIB_MC", None, name="emit-sim", simulate=num, depth=depth,
                                     seed=ctx.seed * 1000 + i, cfg_text=rib_cfg(EmitOn=True, invariants=False, **kw),
                                     timeout=1800), "simulation emission")
            walks += run.emitted()
        walks = list(dict.fromkeys(walks))
        return walks, nexh

    def record(self, ctx, walks, out):
        wf = os.path.join(ctx.work, "walks.txt")
        with open(wf, "w") as f:
            for w in walks:
                f.write("@@" + w + "\n")
        rc = self.tier(ctx, self.random_cfg)
        args = ["rib-run", "-in", wf, "-out", out, "-seed", str(ctx.seed), "-random", str(rc["n"]), "-len", str(rc["len"]),
                "-reuse", str(rc.get("reuse", 0)), "-small", str(rc.get("small", 0)), "-bad", str(rc.get("bad", -1))]
        p = ctx.run_vh(args)
        if p.returncode != 0:
            raise Infra("vh rib-run failed: " + p.stdout[-2000:] + p.stderr[-4000:])
        return json.loads(p.stdout.strip().splitlines()[-1])

    def validate(self, ctx, trace):
        cfg = ('SPECIFICATION TraceSpec\nCONSTANTS\n  DefaultNI = "DEFAULT"\n  TraceFile = "trace.ndjson"\n'
               'POSTCONDITION TraceAccepted\nCHECK_DEADLOCK FALSE\n')
        run = ctx.tlc("GribiRIBTrace", None, name="validate", workers=1, cfg_text=cfg,
                      extra_files={trace: "trace.ndjson"}, timeout=3600, heap="12g")
        matched, total, mism = parse_trace_report(run)
        if matched != total:
            raise Infra(f"trace validation stopped at line {matched + 1} of {total} (specification not total on this event)\n" + run.tail())
        return run, mism

    def judge(self, ctx, res, trace, mism):
        """Turns reported deviations into violations of this property / notes about other properties."""
        if not mism:
            return
        segs = Segments(trace)
        byseg = collections.OrderedDict()
        other = collections.Counter()
        for (ln, ev, comps) in mism:
            rec = segs.lines(ln, ln)[0] if len(byseg) < 10 else {}
            mine = [c for c in comps if ctx.prop in rib_attr(c, ev, rec)]
            for c in comps:
                if c not in mine:
                    owners = rib_attr(c, ev, rec)
                    other["/".join(sorted(owners)) or "unattributed" + ":" + c] += 1
            if mine:
                s = segs.segment_of(ln)
                byseg.setdefault(s, []).append((ln, ev, mine))
        for k, n in other.items():
            res.notes.append(f"{n} deviation(s) attributed to {k} (not to {ctx.prop})")
        for s, items in list(byseg.items())[:5]:
            ln, ev, mine = items[0]
            evs = segs.lines(s, ln)
            rp = os.path.join(vlib.ROOT, "replays", f"{ctx.prop}-{vlib.sha(json.dumps(events_to_inputs(evs)))}.json")
            json.dump({
                "property": ctx.prop, "family": "rib", "seed": ctx.seed, "tier": ctx.tier,
                "first_deviation": {"trace_line": ln, "event": ev, "components": mine,
                                    "all_in_segment": [(a, b, c) for (a, b, c) in items[:20]]},
                "inputs": events_to_inputs(evs),
                "failing_event": evs[-1],
                "events": [strip_state(e) for e in evs[-30:]],
                "rerun": f"./check {ctx.prop} --replay {rp}",
            }, open(rp, "w"), indent=1)
            res.violations.append({"replay": rp, "what": f"{ev} at trace line {ln}: specification and implementation differ in {mine}"})
        if len(byseg) > 5:
            res.notes.append(f"{len(byseg)} segments deviate for {ctx.prop}; first 5 written as replay files")

    def run(self, ctx):
        res = Result()
        ctx.build_vh()
        states = trans = 0
        mcs = []
        for kw in self.tier(ctx, self.mc):
            run = require_ok(ctx.tlc("GribiRIB_MC", None, name="mc", workers=vlib.NCPU, cfg_text=rib_cfg(**kw), timeout=3000, heap="24g"),
                             "model checking GribiRIB")
            states += run.distinct
            trans += run.generated
            mcs.append({"constants": {k: (list(v) if isinstance(v, tuple) else v) for k, v in kw.items()},
                        "distinct_states": run.distinct, "generated": run.generated, "depth": run.depth, "secs": round(run.secs, 1)})
        walks, nexh = self.gen_walks(ctx, res)
        trace = os.path.join(ctx.work, "trace.ndjson")
        info = self.record(ctx, walks, trace)
        run, mism = self.validate(ctx, trace)
        stats = rib_trace_stats(trace, self.prop)
        self.judge(ctx, res, trace, mism)
        res.coverage = {
            "states": states, "transitions": trans, "exhaustive": False,
            "traces_validated_against_impl": stats["segments"],
            "evaluations": stats["events"], "distinct_nontrivial": stats["nontrivial"],
            "distinct_input_sequences": stats["distinct"],
            "tlc_emitted_sequences": len(walks), "tlc_exhaustive_sequences": nexh,
            "random_sequences": self.tier(ctx, self.random_cfg)["n"],
            "rib_calls": info.get("calls"), "panics": info.get("panics"),
            "deviations_reported": len(mism),
            "rule": RIB_RULE.get(self.prop, ""),
            "samples": stats["samples"] or [["no non-trivial sample"]],
            "model_checking": mcs,
            "trace_validation": {"events": stats["events"], "tlc_secs": round(run.secs, 1)},
        }
        res.assumptions = [
            "bounded model checking: constants listed under coverage.model_checking",
            "payload identity = hash of the ygot entry / proto payload against the harness catalogue",
            "conformance is established for the replayed input sequences only",
        ]
        return res

    def replay(self, ctx, path):
        res = Result()
        rp = json.load(open(path))
        ctx.build_vh()
        trace = os.path.join(ctx.work, "trace.ndjson")
        walks = [json.dumps(rp["inputs"])]
        wf = os.path.join(ctx.work, "walks.txt")
        open(wf, "w").write("@@" + walks[0] + "\n")
        p = ctx.run_vh(["rib-run", "-in", wf, "-out", trace, "-random", "0"])
        if p.returncode != 0:
            raise Infra("vh rib-run failed: " + p.stderr[-3000:])
        run, mism = self.validate(ctx, trace)
        for m in mism:
            print("DEVIATION", m)
        self.judge(ctx, res, trace, mism)
        stats = rib_trace_stats(trace, self.prop)
        res.coverage = {"states": 1, "transitions": 1, "traces_validated_against_impl": 1,
                        "samples": [rp["inputs"][:14]], "evaluations": stats["events"], "distinct_nontrivial": stats["nontrivial"]}
        return res


def _rib(prop, **kw):
    REGISTRY[prop] = RIBFamily(prop, **kw)


TWO = ("DEFAULT", "vrf1")

_SIM_RICH = dict(InitNIs=TWO, OpNIs=TWO, NHK=("1", "2"), NHGK=("1", "2"), NHLists="L_all", BKs=("", "2"), TopK="T_kinds",
                 GNIs=("", "DEFAULT", "vrf1"), PLs=("a", "b"), MaxOps=14, Bias=True, WithFlush=True, LateNIs=("vrf2",))
_SIM_SMALL = dict(InitNIs=TWO, OpNIs=TWO, NHK=("1",), NHGK=("1",), NHLists="L_1", TopK="T_v4",
                  GNIs=("", "DEFAULT", "vrf1"), PLs=("a", "b"), MaxOps=10, Bias=True, WithFlush=True)
_EXH2 = dict(InitNIs=TWO, OpNIs=TWO, NHK=("1",), NHGK=("1",), NHLists="L_1", TopK="T_v4", GNIs=("", "DEFAULT"),
             PLs=("a",), MaxOps=2, FwdModes=(True,))
_RANDOM = {"quick": {"n": 120, "len": 60, "small": 40}, "thorough": {"n": 1500, "len": 80, "small": 40, "reuse": 0}}
_SIMS = {"quick": [(_SIM_RICH, 150, 400), (_SIM_SMALL, 250, 300)],
         "thorough": [(_SIM_RICH, 3000, 400), (_SIM_SMALL, 3000, 300)]}
_EXH = {"quick": [_EXH2], "thorough": [dict(_EXH2, MaxOps=3)]}

_rib("C01",
     mc={"quick": [dict(TopK="T_kinds", NHK=("1",), PLs=("a", "b"), MaxOps=3)],
         "thorough": [dict(TopK="T_kinds", NHK=("1",), PLs=("a", "b"), MaxOps=4),
                      dict(InitNIs=TWO, OpNIs=TWO, GNIs=("", "DEFAULT"), MaxOps=4, PLs=("a", "b"))]},
     sims=_SIMS, exh=_EXH, random_cfg=_RANDOM)
_rib("C02",
     mc={"quick": [dict(InitNIs=TWO, OpNIs=TWO, GNIs=("", "DEFAULT"), NHLists="L_1_12", NHK=("1", "2"), MaxOps=3, WithFlush=False)],
         "thorough": [dict(InitNIs=TWO, OpNIs=TWO, GNIs=("", "DEFAULT"), NHLists="L_1_12", NHK=("1", "2"), MaxOps=4, WithFlush=False),
                      dict(NHLists="L_1", MaxOps=6, WithFlush=False, PLs=("a", "b"))]},
     sims=_SIMS, exh=_EXH, random_cfg=_RANDOM)
_rib("C03",
     mc={"quick": [dict(InitNIs=TWO, OpNIs=TWO, GNIs=("", "DEFAULT"), NHLists="L_dup", NHK=("1", "2"), MaxOps=3)],
         "thorough": [dict(InitNIs=TWO, OpNIs=TWO, GNIs=("", "DEFAULT"), NHLists="L_dup", NHK=("1", "2"), MaxOps=4),
                      dict(NHLists="L_dup", NHK=("1", "2"), NHGK=("1", "2"), MaxOps=4, FwdModes=(True,))]},
     sims=_SIMS, exh=_EXH, random_cfg=_RANDOM)
_rib("C16",
     mc={"quick": [dict(LateNIs=("vrf1",), OpNIs=TWO, GNIs=("", "DEFAULT"), MaxOps=3)],
         "thorough": [dict(LateNIs=("vrf1",), OpNIs=TWO, GNIs=("", "DEFAULT"), MaxOps=4, PLs=("a", "b"))]},
     sims=_SIMS, exh=_EXH, random_cfg=_RANDOM)
_rib("C08",
     mc={"quick": [dict(InitNIs=TWO, OpNIs=TWO, GNIs=("", "DEFAULT", "vrf1"), BKs=("", "2"), NHGK=("1", "2"), MaxOps=3, FwdModes=(True,))],
         "thorough": [dict(InitNIs=TWO, OpNIs=TWO, GNIs=("", "DEFAULT", "vrf1"), BKs=("", "2"), NHGK=("1", "2"), MaxOps=4, FwdModes=(True,))]},
     sims=_SIMS, exh=_EXH, random_cfg=_RANDOM)
_rib("C12",
     mc={"quick": [dict(BadKinds=("nh", "nhg", "v4", "v6", "mpls"), MaxOps=3, NHK=("1",), WithFlush=False)],
         "thorough": [dict(BadKinds=("nh", "nhg", "v4", "v6", "mpls"), MaxOps=4, NHK=("1",), TopK="T_kinds", WithFlush=False)]},
     sims={"quick": [(dict(_SIM_RICH, BadKinds=("nh", "nhg", "v4", "v6", "mpls")), 150, 400), (_SIM_SMALL, 100, 300)],
           "thorough": [(dict(_SIM_RICH, BadKinds=("nh", "nhg", "v4", "v6", "mpls")), 3000, 400), (_SIM_SMALL, 1000, 300)]},
     exh=_EXH, random_cfg={"quick": {"n": 150, "len": 60, "small": 30, "bad": 15}, "thorough": {"n": 1500, "len": 80, "small": 30, "bad": 15}})
