"""Property families: which specifications, configurations, drivers and attributions decide each property."""
import json, os, random, subprocess, collections

import vlib
from vlib import Infra, Result, require_ok, parse_trace_report

REGISTRY = {}


def q(s):
    return '"' + s + '"'


def tlaset(xs):
    return "{" + ", ".join(q(x) if isinstance(x, str) else str(x).upper() if isinstance(x, bool) else str(x) for x in xs) + "}"


# ---------------------------------------------------------------------------
# RIB family: GribiRIB / GribiRIB_MC / GribiRIBTrace  (C01 C02 C03 C08(rib) C12(rib) C16)

RIB_INVARIANTS = ("InstalledIsFold NoDangling NothingResolvableHeld NoFwdMeansNoHeld CountersExact "
                  "MirrorIsRib AnswerOnce PendShape FailedLeavesNoTrace")


def rib_cfg(InitNIs=("DEFAULT",), LateNIs=(), OpNIs=("DEFAULT",), NHK=("1",), NHGK=("1",), NHLists="L_1",
            BKs=("",), TopK="T_v4", GNIs=("",), PLs=("a",), FwdModes=(True, False), MaxOps=3, WithFlush=True,
            BadKinds=(), EmitOn=False, Bias=False, view=True, invariants=True):
    lines = ["SPECIFICATION MCSpec", "CONSTANTS", '  DefaultNI = "DEFAULT"',
             f"  InitNIs = {tlaset(InitNIs)}", f"  LateNIs = {tlaset(LateNIs)}", f"  OpNIs = {tlaset(OpNIs)}",
             f"  NHK = {tlaset(NHK)}", f"  NHGK = {tlaset(NHGK)}", f"  NHLists <- {NHLists}",
             f"  BKs = {tlaset(BKs)}", f"  TopK <- {TopK}", f"  GNIs = {tlaset(GNIs)}", f"  PLs = {tlaset(PLs)}",
             f"  FwdModes = {tlaset(FwdModes)}", f"  MaxOps = {MaxOps}", f"  WithFlush = {str(WithFlush).upper()}",
             f"  BadKinds = {tlaset(BadKinds)}", f"  EmitOn = {str(EmitOn).upper()}", f"  Bias = {str(Bias).upper()}"]
    if view:
        lines.append("VIEW View")
    if invariants:
        lines.append("INVARIANTS " + RIB_INVARIANTS)
    if EmitOn:
        lines.append("INVARIANTS Emit")
    lines.append("CHECK_DEADLOCK FALSE")
    return "\n".join(lines) + "\n"


# component reported by GribiRIBTrace -> properties it concerns
def rib_attr(comp, ev, rec):
    if comp.endswith("AfterBad") or comp.endswith("Bad"):
        return {"C12"}
    if comp.startswith("flush:"):
        base = comp[6:]
        return {"C08"} | {"rib": {"C01"}, "refs": {"C03"}, "mirror": {"C16"}, "pend": {"C02"}, "heldLost": {"C02", "C06"}}.get(base, set())
    table = {
        "rib": {"C01"}, "fold": {"C01"}, "res": {"C01", "C06"}, "failedTrace": {"C01", "C12"},
        "pend": {"C02"}, "heldLost": {"C02", "C06"}, "pendShape": {"C02"}, "heldResolvable": {"C02", "C06"}, "heldNoFwd": {"C02"},
        "dangling": {"C02"}, "try": {"C02", "C01"}, "incomplete": {"C02", "C06"}, "begin": {"C02"},
        "refs": {"C03"}, "counters": {"C03"},
        "mirror": {"C16"}, "mirrorVsRib": {"C16"}, "rsnapMissing": {"C16"}, "rsnapTag": {"C16"}, "rsnapKey": {"C16"},
        "rsnapContent": {"C16"}, "rsnapUnexpected": {"C16"}, "snapMutated": {"C16"}, "snapUndelivered": {"C16"},
        "answeredTwice": {"C06"}, "foreignAck": {"C06"},
        "flushResult": {"C08"}, "flushUnexpected": {"C08"},
        "panic": {"C12"}, "hang": {"C12", "C10", "C11"}, "errUnexpected": {"C12"}, "stateError": {"C01"},
        "addniUnexpected": {"C01"}, "addniResult": {"C01"}, "deleteUnexpected": {"C01"},
    }
    if comp == "delVerdict":
        kind = (rec.get("op") or {}).get("kind")
        return {"C03"} if kind in ("nh", "nhg") else {"C01"}
    return table.get(comp, set())


class Segments:
    """Splits an NDJSON trace into segments (reset .. next reset) with light statistics."""

    def __init__(self, path, prefix='{"ev":"reset"'):
        self.path = path
        self.starts = []
        self.nlines = 0
        with open(path) as f:
            for i, line in enumerate(f, 1):
                self.nlines = i
                if line.startswith(prefix):
                    self.starts.append(i)

    def segment_of(self, lineno):
        s = 1
        for st in self.starts:
            if st <= lineno:
                s = st
            else:
                break
        return s

    def lines(self, a, b):
        out = []
        with open(self.path) as f:
            for i, line in enumerate(f, 1):
                if i < a:
                    continue
                if i > b:
                    break
                out.append(json.loads(line))
        return out


def events_to_inputs(evs):
    """Reconstructs the input sequence of a trace segment (for replay files)."""
    ins = []
    for e in evs:
        k = e["ev"]
        if k == "reset":
            ins.append({"a": "reset", "nis": e["nis"], "fwd": e["fwd"]})
        elif k in ("addbegin", "delete", "callerr"):
            ins.append({"a": "op", "op": e["op"]})
        elif k == "panic":
            ins.append(e["input"])
        elif k == "flush":
            ins.append({"a": "flush", "nis": e["nis"]})
        elif k == "addni":
            ins.append({"a": "addni", "ni": e["ni"]})
        elif k == "hookstall":
            ins.append({"a": "hookstall", "ms": e["ms"]})
    return ins


def strip_state(e):
    e = dict(e)
    for k in ("st", "rsnap"):
        if k in e:
            e[k] = "<omitted>"
    return e


def rib_trace_stats(path, prop):
    """Per-segment statistics from the recorded trace: counts of calls, distinct input sequences and of
    sequences that are non-trivial for the property (stated rule)."""
    segs = 0
    distinct = set()
    nontrivial = set()
    events = 0
    cur = None
    samples = []

    def close():
        nonlocal cur
        if cur is None:
            return
        key = vlib.sha(json.dumps(cur["ins"], sort_keys=True))
        distinct.add(key)
        f = cur["flags"]
        changed = f["installed"] > 0
        ante = {
            "C01": f["installed"] > 0 and (f["replaced"] > 0 or f["deleted"] > 0),
            "C02": f["held"] > 0 and f["cascade"] > 0,
            "C03": f["delref"] > 0,
            "C08": f["flush_nonempty"] > 0,
            "C12": f["bad"] > 0,
            "C16": f["notified"] > 0,
            "C06": f["cascade"] > 0,
        }.get(prop, changed)
        if changed and ante:
            nontrivial.add(key)
            if len(samples) < 3:
                samples.append(cur["ins"][:14])
        cur = None

    with open(path) as fh:
        for line in fh:
            e = json.loads(line)
            events += 1
            k = e["ev"]
            if k == "reset":
                close()
                segs += 1
                cur = {"ins": [], "flags": collections.Counter(), "held": set(), "size": 0}
                cur["ins"].append({"a": "reset", "nis": e["nis"], "fwd": e["fwd"]})
                continue
            if cur is None:
                continue
            f = cur["flags"]
            if k == "addbegin":
                cur["ins"].append({"a": "op", "op": e["op"]})
                cur["top"] = e["op"]["id"]
                if e["op"].get("bad"):
                    f["bad"] += 1
            elif k == "try":
                if e["out"] == "held":
                    cur["held"].add(e["id"])
                    f["held"] += 1
                elif e["out"] == "installed":
                    f["installed"] += 1
                    if e["id"] != cur.get("top"):
                        f["cascade"] += 1
                    if "rsnap" in e:
                        f["notified"] += 1
            elif k == "addend":
                st = e.get("st") or {}
                if "rib" in st:
                    size = sum(len(v["nh"]) + len(v["nhg"]) + len(v["top"]) for v in st["rib"].values())
                    if size <= cur["size"] and len(e["oks"]) > 0:
                        f["replaced"] += 1
                    cur["size"] = size
                    if st.get("mirror") and any(v["nh"] or v["nhg"] or v["top"] for v in st["mirror"].values()):
                        f["notified"] += 1
            elif k == "delete":
                cur["ins"].append({"a": "op", "op": e["op"]})
                if e["op"].get("bad"):
                    f["bad"] += 1
                if e.get("oks"):
                    st = e.get("st") or {}
                    if "rib" in st:
                        size = sum(len(v["nh"]) + len(v["nhg"]) + len(v["top"]) for v in st["rib"].values())
                        if size < cur["size"]:
                            f["deleted"] += 1
                        cur["size"] = size
                if e.get("fails") and e["op"]["kind"] in ("nh", "nhg") and not e["op"].get("bad"):
                    f["delref"] += 1
            elif k == "callerr":
                cur["ins"].append({"a": "op", "op": e["op"]})
                if e["op"].get("bad"):
                    f["bad"] += 1
            elif k == "flush":
                cur["ins"].append({"a": "flush", "nis": e["nis"]})
                if cur["size"] > 0:
                    f["flush_nonempty"] += 1
                st = e.get("st") or {}
                if "rib" in st:
                    cur["size"] = sum(len(v["nh"]) + len(v["nhg"]) + len(v["top"]) for v in st["rib"].values())
            elif k == "addni":
                cur["ins"].append({"a": "addni", "ni": e["ni"]})
            elif k == "panic":
                cur["ins"].append(e["input"])
                f["bad"] += 1
    close()
    return dict(segments=segs, events=events, distinct=len(distinct), nontrivial=len(nontrivial), samples=samples)


RIB_RULE = {
    "C01": "one case = one input sequence (TLC-emitted or seeded random) replayed into rib.RIB and validated by TLC; non-trivial = installs at least one entry and later replaces or deletes an installed key; distinct by hash of the input sequence",
    "C02": "one case = one input sequence; non-trivial = at least one operation was held and at least one held operation was later installed by a cascade",
    "C03": "one case = one input sequence; non-trivial = installs entries and contains a DELETE of a next-hop(-group) that was refused because it was referenced",
    "C08": "one case = one input sequence; non-trivial = contains a Flush of a non-empty RIB",
    "C12": "one case = one input sequence; non-trivial = installs entries and contains a malformed operation",
    "C16": "one case = one input sequence; non-trivial = produced post-change and resolved-entry notifications",
    "C06": "one case = one input sequence; non-trivial = a cascade acknowledged an operation other than the one submitted",
}


class RIBFamily:
    MC_MODULE = "GribiRIB_MC"
    TRACE_MODULE = "GribiRIBTrace"
    TRACE_SPEC = "TraceSpec"
    VH_CMD = "rib-run"
    FAMILY = "rib"
    TRACE_CONSTS = '  DefaultNI = "DEFAULT"\n'
    RESET_PREFIX = '{"ev":"reset"'

    @staticmethod
    def cfg(**kw):
        return rib_cfg(**kw)

    @staticmethod
    def attr(comp, ev, rec):
        return rib_attr(comp, ev, rec)

    @staticmethod
    def stats(path, prop):
        return rib_trace_stats(path, prop)

    @staticmethod
    def to_inputs(evs):
        return events_to_inputs(evs)

    def vh_args(self, ctx, rc):
        a = ["-random", str(rc["n"]), "-len", str(rc["len"]), "-reuse", str(rc.get("reuse", 0)),
             "-small", str(rc.get("small", 0)), "-bad", str(rc.get("bad", -1))]
        if self.prop == "C16" and self.VH_CMD == "rib-run":
            # the same input sequences once more on a RIB without reference checks (TUnchecked: MirrorIsRib only)
            a += ["-nochecks", "600" if ctx.tier == "quick" else "4000"]
        return a

    """Decides a RIB-level property:
       1. TLC model-checks GribiRIB (bounded instance) for the invariants;
       2. TLC emits input sequences (exhaustive short ones + simulation walks);
       3. the Go harness replays them (plus seeded random ones over a larger alphabet) into the real rib
          package and records one event per specification action with the projected state after each call;
       4. TLC validates the trace against GribiRIBTrace; reported deviations are attributed to properties."""

    def __init__(self, prop, mc, sims, exh, random_cfg, directed=None, extra_mc=None):
        self.prop, self.mc, self.sims, self.exh, self.random_cfg = prop, mc, sims, exh, random_cfg
        self.directed = directed      # callable(ctx) -> list of input sequences (JSON strings) added to the TLC-emitted ones
        self.extra_mc = extra_mc      # callable(ctx) -> list of model-checking records of further specification modules

    def tier(self, ctx, d):
        return d[ctx.tier] if isinstance(d, dict) and ctx.tier in d else d

    def gen_walks(self, ctx, res):
        walks = []
        # exhaustive short input sequences (history variable kept in the fingerprint)
        for kw in self.tier(ctx, self.exh):
            run = require_ok(ctx.tlc(self.MC_MODULE, None, name="emit-exh", workers=1,
                                     cfg_text=self.cfg(EmitOn=True, view=False, invariants=False, **kw), timeout=1800),
                             "exhaustive emission")
            walks += run.emitted()
        nexh = len(set(walks))
        for i, (kw, num, depth) in enumerate(self.tier(ctx, self.sims)):
            run = require_ok(ctx.tlc(self.MC_MODULE, None, name="emit-sim", simulate=num, depth=depth,
                                     seed=ctx.seed * 1000 + i, cfg_text=self.cfg(EmitOn=True, invariants=False, **kw),
                                     timeout=1800), "simulation emission")
            walks += run.emitted()
        if self.directed:
            # the directed histories come first: a driver that gives up after repeated hangs must have run them by then
            walks = self.directed(ctx) + walks
        walks = list(dict.fromkeys(walks))
        cap = getattr(self, "MAX_WALKS", None)
        if cap and len(walks) > cap:
            # a driver that is slow per walk (waits for goroutines to settle) replays a seeded sample of the emitted sequences
            res.notes.append(f"{len(walks)} input sequences emitted by TLC, a seeded sample of {cap} replayed")
            walks = random.Random(ctx.seed).sample(walks, cap)
            nexh = min(nexh, cap)
        return walks, nexh

    def record(self, ctx, walks, out):
        wf = os.path.join(ctx.work, "walks.txt")
        with open(wf, "w") as f:
            for w in walks:
                f.write("@@" + w + "\n")
        rc = self.tier(ctx, self.random_cfg)
        info = {}
        first = True
        for prof in (rc if isinstance(rc, list) else [rc]):
            o = out if first else out + ".part"
            args = [self.VH_CMD, "-out", o, "-seed", str(ctx.seed)] + (["-in", wf] if first else []) + self.vh_args(ctx, prof)
            p = ctx.run_vh(args)
            if p.returncode != 0:
                crash = vlib.gribigo_panic(p.stderr)
                if crash and self.prop in ("C12", "C11", "C10", "C13", "C14"):
                    raise vlib.Crash(crash)
                raise Infra(f"vh {self.VH_CMD} failed: " + p.stdout[-2000:] + p.stderr[-4000:])
            part = json.loads(p.stdout.strip().splitlines()[-1])
            for k, v in part.items():
                info[k] = info.get(k, 0) + v
            if not first:
                with open(out, "ab") as dst, open(o, "rb") as src:
                    import shutil
                    shutil.copyfileobj(src, dst)
                os.remove(o)
            first = False
        return info

    def validate(self, ctx, trace):
        cfg = (f'SPECIFICATION {self.TRACE_SPEC}\nCONSTANTS\n{self.TRACE_CONSTS}  TraceFile = "trace.ndjson"\n'
               'POSTCONDITION TraceAccepted\nCHECK_DEADLOCK FALSE\n')
        run = ctx.tlc(self.TRACE_MODULE, None, name="validate", workers=1, cfg_text=cfg,
                      extra_files={trace: "trace.ndjson"}, timeout=3600, heap="12g")
        matched, total, mism = parse_trace_report(run)
        if matched != total:
            raise Infra(f"trace validation stopped at line {matched + 1} of {total} (specification not total on this event)\n" + run.tail())
        return run, mism

    def judge(self, ctx, res, trace, mism):
        """Turns reported deviations into violations of this property / notes about other properties."""
        if not mism:
            return
        segs = Segments(trace, self.RESET_PREFIX)
        byseg = collections.OrderedDict()
        other = collections.Counter()
        known = {k.get("id"): k for k in vlib.load_known() if k.get("status") == "open"}
        kf_seen = collections.Counter()
        for (ln, ev, comps) in mism:
            rec = segs.lines(ln, ln)[0] if len(byseg) < 40 else {}
            if any(c in ("hang", "clientHang") for c in comps) and rec.get("blocked") == []:
                # a watchdog expired although no goroutine is parked inside the package under test: the machine is too slow
                # for the time limits - not a verdict about the code
                raise Infra(f"{ev} at trace line {ln}: a call exceeded its time limit (several times over) without any goroutine blocked inside gribigo")
            mine = []
            for c in comps:
                if c.startswith("KF:"):
                    k = known.get(c[3:])
                    if k is not None:
                        if k.get("property") == ctx.prop:
                            kf_seen[c[3:]] += 1
                        else:
                            other[f"{k.get('property')}:known finding {c[3:]}"] += 1
                        continue
                    # a quirk the known-findings file does not list: an ordinary violation
                owners = set(self.attr(c, ev, rec))
                # a deviation observed at an operation that is itself malformed (invalid content, empty or unknown network
                # instance) is a deviation of "malformed operations are rejected in-band without effect" as well
                mop = rec.get("op") or {}
                if not mop and rec.get("ev") in ("try", "addend", "adderr") and len(byseg) < 40:
                    # events of a RIB call carry the operation only at its beginning
                    for prev in reversed(segs.lines(max(1, ln - 8), ln - 1)):
                        if prev.get("ev") == "addbegin":
                            mop = prev.get("op") or {}
                            break
                        if prev.get("ev") in ("addend", "adderr", "delete", "reset"):
                            break
                if isinstance(mop, dict) and (mop.get("bad") or mop.get("ni") in ("", "nosuchni") or mop.get("gni") == "nosuchni"):
                    owners.add("C12")
                if ctx.prop in owners:
                    mine.append(c)
                else:
                    other[("/".join(sorted(owners)) or "unattributed") + ":" + c] += 1
            if mine:
                s = segs.segment_of(ln)
                byseg.setdefault(s, []).append((ln, ev, mine))
        for kid, n in kf_seen.items():
            res.known.append(f"{known[kid]['line']} ({n} occurrence(s) in this run)")
        for k, n in other.items():
            res.notes.append(f"{n} deviation(s) attributed to {k} (not to {ctx.prop})")
        for s, items in list(byseg.items())[:5]:
            ln, ev, mine = items[0]
            evs = segs.lines(s, ln)
            rp = os.path.join(vlib.ROOT, "replays", f"{ctx.prop}-{vlib.sha(json.dumps(self.to_inputs(evs)))}.json")
            json.dump({
                "property": ctx.prop, "family": self.FAMILY, "seed": ctx.seed, "tier": ctx.tier,
                "first_deviation": {"trace_line": ln, "event": ev, "components": mine,
                                    "all_in_segment": [(a, b, c) for (a, b, c) in items[:20]]},
                "inputs": self.to_inputs(evs),
                "failing_event": evs[-1],
                "events": [strip_state(e) for e in evs[-30:]],
                "rerun": f"./check {ctx.prop} --replay {rp}",
            }, open(rp, "w"), indent=1)
            res.violations.append({"replay": rp, "what": f"{ev} at trace line {ln}: specification and implementation differ in {mine}"})
        if len(byseg) > 5:
            res.notes.append(f"{len(byseg)} segments deviate for {ctx.prop}; first 5 written as replay files")

    def run(self, ctx):
        res = Result()
        ctx.build_vh()
        states = trans = 0
        mcs = []
        for kw in self.tier(ctx, self.mc):
            run = require_ok(ctx.tlc(self.MC_MODULE, None, name="mc", workers=vlib.NCPU, cfg_text=self.cfg(**kw), timeout=3000, heap="24g"),
                             "model checking " + self.MC_MODULE)
            states += run.distinct
            trans += run.generated
            mcs.append({"constants": {k: (list(v) if isinstance(v, tuple) else v) for k, v in kw.items()},
                        "distinct_states": run.distinct, "generated": run.generated, "depth": run.depth, "secs": round(run.secs, 1)})
        if self.extra_mc:
            mcs += self.extra_mc(ctx)
        walks, nexh = self.gen_walks(ctx, res)
        trace = os.path.join(ctx.work, "trace.ndjson")
        try:
            info = self.record(ctx, walks, trace)
        except vlib.Crash as c:
            # the process running the code under test died with a panic raised inside gribigo: the verdict of "cannot crash"
            rp = os.path.join(vlib.ROOT, "replays", f"{ctx.prop}-crash-{vlib.sha(c.text[:3000])}.txt")
            open(rp, "w").write(c.text)
            res.violations.append({"replay": rp, "what": "the process driving the real code died with a panic raised inside openconfig/gribigo: " + c.text.splitlines()[0][:200]})
            res.coverage = {"states": states, "transitions": trans, "traces_validated_against_impl": 0, "evaluations": 0, "distinct_nontrivial": 0,
                            "samples": [["crashed"]], "rule": self.rule(), "model_checking": mcs}
            return res
        if info.get("gate_missing"):
            raise Infra("a gated call never reached its gate: a verif hook of the implementation is missing (MANIFEST.hooks)")
        run, mism = self.validate(ctx, trace)
        stats = self.stats(trace, self.prop)
        self.judge(ctx, res, trace, mism)
        if info.get("hangs", 0) >= 2 and not res.violations and self.VH_CMD in ("rib-run", "srv-run"):
            # the drivers stop after two calls that did not return; whatever came after was not replayed. The hangs themselves
            # are deviations of other properties (see the notes) - an incomplete replay is not a verdict that this one holds
            raise Infra(f"the driver gave up after {info['hangs']} calls that did not return (deviations of other properties: "
                        + "; ".join(res.notes)[:600] + f"): the input sequences after that point were not replayed - no verdict on {ctx.prop}")
        res.coverage = {
            "states": states, "transitions": trans, "exhaustive": False,
            "traces_validated_against_impl": stats["segments"],
            "evaluations": stats["events"], "distinct_nontrivial": stats["nontrivial"],
            "distinct_input_sequences": stats["distinct"],
            "tlc_emitted_sequences": len(walks), "tlc_exhaustive_sequences": nexh,
            "random_sequences": sum(x["n"] for x in (self.tier(ctx, self.random_cfg) if isinstance(self.tier(ctx, self.random_cfg), list) else [self.tier(ctx, self.random_cfg)])),
            "driver": info,
            "deviations_reported": len(mism),
            "rule": self.rule(),
            "samples": stats["samples"] or [["no non-trivial sample"]],
            "model_checking": mcs,
            "trace_validation": {"events": stats["events"], "tlc_secs": round(run.secs, 1)},
        }
        res.assumptions = [
            "bounded model checking: constants listed under coverage.model_checking",
            "payload identity = hash of the ygot entry / proto payload against the harness catalogue",
            "conformance is established for the replayed input sequences only",
        ]
        return res

    def rule(self):
        return RIB_RULE.get(self.prop, "")

    def replay(self, ctx, path):
        res = Result()
        rp = json.load(open(path))
        ctx.build_vh()
        trace = os.path.join(ctx.work, "trace.ndjson")
        walks = [json.dumps(rp["inputs"])]
        wf = os.path.join(ctx.work, "walks.txt")
        open(wf, "w").write("@@" + walks[0] + "\n")
        p = ctx.run_vh([self.VH_CMD, "-in", wf, "-out", trace, "-random", "0"])
        if p.returncode != 0:
            raise Infra(f"vh {self.VH_CMD} failed: " + p.stderr[-3000:])
        run, mism = self.validate(ctx, trace)
        for m in mism:
            print("DEVIATION", m)
        self.judge(ctx, res, trace, mism)
        stats = self.stats(trace, self.prop)
        res.coverage = {"states": 1, "transitions": 1, "traces_validated_against_impl": 1,
                        "samples": [rp["inputs"][:14]], "evaluations": stats["events"], "distinct_nontrivial": stats["nontrivial"]}
        return res


def _rib(prop, **kw):
    REGISTRY[prop] = RIBFamily(prop, **kw)


TWO = ("DEFAULT", "vrf1")

_SIM_RICH = dict(InitNIs=TWO, OpNIs=TWO, NHK=("1", "2"), NHGK=("1", "2"), NHLists="L_all", BKs=("", "2"), TopK="T_kinds",
                 GNIs=("", "DEFAULT", "vrf1"), PLs=("a", "b"), MaxOps=14, Bias=True, WithFlush=True, LateNIs=("vrf2",))
_SIM_SMALL = dict(InitNIs=TWO, OpNIs=TWO, NHK=("1",), NHGK=("1",), NHLists="L_1", TopK="T_v4",
                  GNIs=("", "DEFAULT", "vrf1"), PLs=("a", "b"), MaxOps=10, Bias=True, WithFlush=True)
_EXH2 = dict(InitNIs=TWO, OpNIs=TWO, NHK=("1",), NHGK=("1",), NHLists="L_1", TopK="T_v4", GNIs=("", "DEFAULT"),
             PLs=("a",), MaxOps=2, FwdModes=(True,))
_RANDOM = {"quick": {"n": 120, "len": 60, "small": 40}, "thorough": {"n": 1500, "len": 80, "small": 40, "reuse": 0}}
_SIMS = {"quick": [(_SIM_RICH, 150, 400), (_SIM_SMALL, 250, 300)],
         "thorough": [(_SIM_RICH, 3000, 400), (_SIM_SMALL, 3000, 300)]}
_EXH = {"quick": [_EXH2], "thorough": [dict(_EXH2, MaxOps=3)]}

_rib("C01",
     mc={"quick": [dict(TopK="T_kinds", NHK=("1",), PLs=("a", "b"), MaxOps=3)],
         "thorough": [dict(TopK="T_kinds", NHK=("1",), PLs=("a", "b"), MaxOps=4),
                      dict(InitNIs=TWO, OpNIs=TWO, GNIs=("", "DEFAULT"), MaxOps=4, PLs=("a", "b"))]},
     sims=_SIMS, exh=_EXH, random_cfg=_RANDOM)
_rib("C02",
     mc={"quick": [dict(InitNIs=TWO, OpNIs=TWO, GNIs=("", "DEFAULT"), NHLists="L_1_12", NHK=("1", "2"), MaxOps=3, WithFlush=False)],
         "thorough": [dict(InitNIs=TWO, OpNIs=TWO, GNIs=("", "DEFAULT"), NHLists="L_1_12", NHK=("1", "2"), MaxOps=4, WithFlush=False),
                      dict(NHLists="L_1", MaxOps=6, WithFlush=False, PLs=("a", "b"))]},
     sims=_SIMS, exh=_EXH, random_cfg=_RANDOM)
_rib("C03",
     mc={"quick": [dict(InitNIs=TWO, OpNIs=TWO, GNIs=("", "DEFAULT"), NHLists="L_dup", NHK=("1", "2"), MaxOps=3)],
         "thorough": [dict(InitNIs=TWO, OpNIs=TWO, GNIs=("", "DEFAULT"), NHLists="L_dup", NHK=("1", "2"), MaxOps=4),
                      dict(NHLists="L_dup", NHK=("1", "2"), NHGK=("1", "2"), MaxOps=4, FwdModes=(True,))]},
     sims=_SIMS, exh=_EXH, random_cfg=_RANDOM)
_rib("C16",
     mc={"quick": [dict(LateNIs=("vrf1",), OpNIs=TWO, GNIs=("", "DEFAULT"), MaxOps=3)],
         "thorough": [dict(LateNIs=("vrf1",), OpNIs=TWO, GNIs=("", "DEFAULT"), MaxOps=4, PLs=("a", "b"))]},
     sims=_SIMS, exh=_EXH, random_cfg=_RANDOM)
_rib("C08",
     mc={"quick": [dict(InitNIs=TWO, OpNIs=TWO, GNIs=("", "DEFAULT", "vrf1"), BKs=("", "2"), NHGK=("1", "2"), MaxOps=3, FwdModes=(True,))],
         "thorough": [dict(InitNIs=TWO, OpNIs=TWO, GNIs=("", "DEFAULT", "vrf1"), BKs=("", "2"), NHGK=("1", "2"), MaxOps=4, FwdModes=(True,))]},
     sims=_SIMS, exh=_EXH, random_cfg=_RANDOM)
_rib("C12",
     mc={"quick": [dict(BadKinds=("nh", "nhg", "v4", "v6", "mpls"), MaxOps=3, NHK=("1",), WithFlush=False)],
         "thorough": [dict(BadKinds=("nh", "nhg", "v4", "v6", "mpls"), MaxOps=4, NHK=("1",), TopK="T_kinds", WithFlush=False)]},
     sims={"quick": [(dict(_SIM_RICH, BadKinds=("nh", "nhg", "v4", "v6", "mpls")), 150, 400), (_SIM_SMALL, 100, 300)],
           "thorough": [(dict(_SIM_RICH, BadKinds=("nh", "nhg", "v4", "v6", "mpls")), 3000, 400), (_SIM_SMALL, 1000, 300)]},
     exh=_EXH, random_cfg={"quick": {"n": 150, "len": 60, "small": 30, "bad": 15}, "thorough": {"n": 1500, "len": 80, "small": 30, "bad": 15}})


# ---------------------------------------------------------------------------
# Server family: GribiServer / GribiServer_MC / GribiServerTrace (message grain)

SRV_INVARIANTS = "ElecIsMax OneVerdict SessShape InstalledIsFold CountersExact NoDangling NothingResolvableHeld MirrorIsRib"
SRV_PROPERTIES = "ElecMonotone LowerNeverSteals OnlyPrimaryWrites ElecOnlyByElection"


def srv_cfg(Sess=("s1", "s2", "s3"), HiVals=(0, 1), LoVals=(1, 2), ParamMsgs="good", WithBadMsgs=False, OpShapes="nh",
            StampModes=("last", "any", "none"), FwdModes=(True,), AckModes=("RIB",), MaxMsgs=5, MaxOpen=2, WithClose=True,
            WithFlushRPC=False, WithSendFail=False, MultiOps=False, EmitOn=False, view=True, invariants=True):
    lines = ["SPECIFICATION MCSpec", "CONSTANTS", '  DefaultNI = "DEFAULT"',
             f"  Sess = {tlaset(Sess)}", f"  HiVals = {tlaset(HiVals)}", f"  LoVals = {tlaset(LoVals)}",
             f"  ParamMsgs = {q(ParamMsgs)}", f"  WithBadMsgs = {str(WithBadMsgs).upper()}", f"  OpShapes = {q(OpShapes)}",
             f"  StampModes = {tlaset(StampModes)}", f"  FwdModes = {tlaset(FwdModes)}", f"  AckModes = {tlaset(AckModes)}",
             f"  MaxMsgs = {MaxMsgs}", f"  MaxOpen = {MaxOpen}", f"  WithClose = {str(WithClose).upper()}",
             f"  WithFlushRPC = {str(WithFlushRPC).upper()}", f"  WithSendFail = {str(WithSendFail).upper()}",
             f"  MultiOps = {str(MultiOps).upper()}", f"  EmitOn = {str(EmitOn).upper()}"]
    if view:
        lines.append("VIEW View")
    if invariants:
        lines.append("INVARIANTS " + SRV_INVARIANTS)
        lines.append("PROPERTIES " + SRV_PROPERTIES)
    if EmitOn:
        lines.append("INVARIANTS Emit")
    lines.append("CHECK_DEADLOCK FALSE")
    return "\n".join(lines) + "\n"


def srv_attr(comp, ev, rec):
    if comp.startswith("close:") or comp in ("closeEnd", "closeUnexpected"):
        base = comp.split(":", 1)[1] if ":" in comp else comp
        extra = {"sst:cur": {"C05"}, "sst:master": {"C05"}, "elecNotMax": {"C05"}, "sst:last": {"C04"}}.get(base, set())
        return {"C10"} | extra
    if comp.startswith("flushGate") or comp in ("flushResult", "flushUnexpected"):
        return {"C08"}
    if comp.startswith("flush:"):
        base = comp[6:]
        if base in ("sst:cur", "sst:master", "elecNotMax", "sst:last"):
            return {"C08", "C05"}
        if base == "sst:sess":
            return {"C08", "C09"}
        return rib_attr(comp, ev, rec)
    if comp.startswith("msgend:") or comp.startswith("open:"):
        owners = {"C04", "C10"}      # state changed outside any RIB call of the primary
        if (rec.get("end") or {}).get("code") not in (None, "", "OK"):
            owners.add("C09")      # ... by a message that ended its RPC with an error: a violation with a side effect
        return owners
    table = {
        "sst:last": {"C04", "C05"},
        "resp:elec": {"C05"}, "sst:cur": {"C05", "C04"}, "sst:master": {"C05", "C04"}, "elecNotMax": {"C05"},
        "ribCallUnexpected": {"C04"}, "ribCallStaleId": {"C04"}, "ribCallInsteadOfError": {"C09", "C04"}, "strayrib": {"C04"}, "ribCallMissing": {"C04", "C06"},
        "opResp": {"C06"}, "ackedNotInstalled": {"C01", "C06"}, "extraResp": {"C06"}, "opsUnanswered": {"C06"}, "opOrder": {"C06"}, "foreignResult": {"C06"},
        "respAfterRibError": {"C06", "C12"}, "respInsteadOfError": {"C09", "C04"},
        "end": {"C09"}, "resp": {"C09"}, "sst:sess": {"C09"}, "msgUnexpected": {"C09"}, "openUnexpected": {"C09"},
        "openEnd": {"C09"}, "msgendUnexpected": {"C09"},
        "getEnd": {"C07"}, "getBadEntry": {"C07"}, "getDuplicate": {"C07"}, "getEntries": {"C07"}, "getNotLastProgrammed": {"C07", "C01"}, "getRebuild": {"C07"},
        "getForeignEntry": {"C07"}, "getEndAfterSendFailure": {"C10"},
        "hang": {"C10", "C11"}, "panic": {"C12"},
    }
    if comp in table:
        owners = set(table[comp])
        if ev == "msgend" and comp.startswith("sst:") and (rec.get("end") or {}).get("code") not in (None, "", "OK"):
            owners.add("C09")      # the message ended its RPC with an error and nevertheless changed session / election state
        return owners
    return rib_attr(comp, ev, rec)


def srv_events_to_inputs(evs):
    ins = []
    for e in evs:
        k = e["ev"]
        if k == "sreset":
            ins.append({"a": "sreset", "nis": e["nis"], "fwd": e["fwd"]})
        elif k == "open":
            ins.append({"a": "open", "s": e["s"]})
        elif k == "msgbegin":
            ins.append({"a": "msg", "s": e["s"], "m": e["m"], "sendfail": e.get("sendfail", False)})
        elif k == "close":
            ins.append({"a": "close", "s": e["s"], "mode": e["mode"]})
        elif k == "flushrpc":
            ins.append({"a": "flushrpc", "r": e["r"]})
        elif k == "get":
            x = {"a": "get", "g": e["g"]}
            if "failafter" in e:
                x["failafter"] = e["failafter"]
            ins.append(x)
    return ins


def srv_trace_stats(path, prop):
    segs = events = 0
    distinct, nontrivial = set(), set()
    samples = []
    cur = None

    def close():
        nonlocal cur
        if cur is None:
            return
        key = vlib.sha(json.dumps(cur["ins"], sort_keys=True))
        distinct.add(key)
        f = cur["f"]
        ante = {
            "C04": f["rejected_op"] > 0 and f["installed"] > 0,
            "C05": f["elec"] >= 2 and f["lower"] > 0,
            "C06": f["installed"] > 0 and (f["cascade"] > 0 or f["failed"] > 0),
            "C07": f["get_nonempty"] > 0,
            "C08": f["flush"] > 0 and f["installed"] > 0,
            "C09": f["rpc_error"] > 0,
            "C10": f["close"] > 0 and f["after_close"] > 0,
            "C12": f["bad"] > 0,
        }.get(prop, f["installed"] > 0)
        if ante:
            nontrivial.add(key)
            if len(samples) < 3:
                samples.append(cur["ins"][:16])
        cur = None

    with open(path) as fh:
        for line in fh:
            e = json.loads(line)
            events += 1
            k = e["ev"]
            if k == "sreset":
                close()
                segs += 1
                cur = {"ins": [], "f": collections.Counter(), "maxid": [0, 0], "closed": False}
            if cur is None:
                continue
            cur["ins"] += srv_events_to_inputs([e])
            f = cur["f"]
            if cur["closed"] and k in ("msgbegin", "get", "flushrpc"):
                f["after_close"] += 1
            if k == "msgbegin":
                m = e["m"]
                if m["k"] == "elec":
                    f["elec"] += 1
                    if m["id"] < cur["maxid"]:
                        f["lower"] += 1
                    else:
                        cur["maxid"] = m["id"]
                elif m["k"] == "ops":
                    for o in m["ops"]:
                        if o.get("bad"):
                            f["bad"] += 1
            elif k == "try":
                if e["out"] == "installed":
                    f["installed"] += 1
            elif k == "addend":
                if len(e.get("oks", [])) > 1:
                    f["cascade"] += 1
            elif k == "opdone":
                rs = e["resp"].get("results", [])
                if any(r["st"] == "FAILED" for r in rs):
                    f["failed"] += 1
                    f["rejected_op"] += 1
            elif k == "msgend":
                if e["end"]["code"] not in ("", "OK"):
                    f["rpc_error"] += 1
            elif k == "close":
                f["close"] += 1
                cur["closed"] = True
            elif k == "get":
                if e.get("entries"):
                    f["get_nonempty"] += 1
            elif k == "flushrpc":
                f["flush"] += 1
    close()
    return dict(segments=segs, events=events, distinct=len(distinct), nontrivial=len(nontrivial), samples=samples)


SRV_RULE = {
    "C04": "one case = one input sequence (sessions, announcements, operations, disconnects) driven through server.Modify on in-process streams; non-trivial = some operation was rejected and some operation was installed",
    "C05": "one case = one input sequence; non-trivial = at least two announcements and one of them lower than the running maximum",
    "C06": "one case = one input sequence; non-trivial = installs entries and contains a cascade acknowledgement or a FAILED result",
    "C07": "one case = one input sequence; non-trivial = a Get returned at least one entry",
    "C08": "one case = one input sequence; non-trivial = a Flush RPC on a server that had installed entries",
    "C09": "one case = one input sequence; non-trivial = at least one Modify RPC ended with a non-OK status",
    "C10": "one case = one input sequence; non-trivial = a session was cut off and the server was used afterwards",
    "C12": "one case = one input sequence; non-trivial = contains a malformed operation",
}


class ServerFamily(RIBFamily):
    MC_MODULE = "GribiServer_MC"
    TRACE_MODULE = "GribiServerTrace"
    TRACE_SPEC = "STraceSpec"
    VH_CMD = "srv-run"
    FAMILY = "server"
    RESET_PREFIX = '{"ev":"sreset"'

    @staticmethod
    def cfg(**kw):
        return srv_cfg(**kw)

    @staticmethod
    def attr(comp, ev, rec):
        return srv_attr(comp, ev, rec)

    @staticmethod
    def stats(path, prop):
        return srv_trace_stats(path, prop)

    @staticmethod
    def to_inputs(evs):
        return srv_events_to_inputs(evs)

    def vh_args(self, ctx, rc):
        a = ["-random", str(rc["n"]), "-len", str(rc["len"]), "-profile", rc.get("profile", "mixed")]
        if rc.get("profile") == "get" or self.prop in ("C07", "C10"):
            # one Get per run is read by a slow consumer (C07: every entry must still arrive; C10: nobody is blocked meanwhile)
            a += ["-getstall", "1500ms" if ctx.tier == "quick" else "6500ms"]
        return a

    def rule(self):
        return SRV_RULE.get(self.prop, "")


def _srv(prop, **kw):
    REGISTRY[prop] = ServerFamily(prop, **kw)


_S_EXH = {"quick": [dict(MaxMsgs=3, MaxOpen=2, HiVals=(0, 1), LoVals=(1,), OpShapes="nh", StampModes=("last", "none"))],
          "thorough": [dict(MaxMsgs=4, MaxOpen=2, HiVals=(0, 1), LoVals=(1, 2), OpShapes="nh", StampModes=("last", "any", "none"))]}
_S_SIM_ELEC = dict(MaxMsgs=14, MaxOpen=3, HiVals=(0, 1, 2), LoVals=(1, 2, 3), OpShapes="nh", StampModes=("last", "any", "none"))
_S_SIM_FSM = dict(MaxMsgs=12, MaxOpen=3, ParamMsgs="all", WithBadMsgs=True, AckModes=("RIB", "RIB_FIB"), OpShapes="nh", WithFlushRPC=True)
_S_SIM_OPS = dict(MaxMsgs=16, MaxOpen=2, OpShapes="chain", StampModes=("last",), AckModes=("RIB", "RIB_FIB"), FwdModes=(True, False), HiVals=(0,), LoVals=(1, 2))
_S_SIMS = {"quick": [(_S_SIM_ELEC, 120, 300), (_S_SIM_FSM, 120, 300), (_S_SIM_OPS, 120, 400)],
           "thorough": [(_S_SIM_ELEC, 2500, 300), (_S_SIM_FSM, 2500, 300), (_S_SIM_OPS, 2500, 400)]}


def _rnd(profiles, nq, nt, length=50):
    return {"quick": [{"n": nq, "len": length, "profile": p} for p in profiles],
            "thorough": [{"n": nt, "len": length + 20, "profile": p} for p in profiles]}


_srv("C04",
     mc={"quick": [dict(MaxMsgs=5, MaxOpen=2, HiVals=(0, 1), LoVals=(1, 2))],
         "thorough": [dict(MaxMsgs=6, MaxOpen=3, HiVals=(0, 1), LoVals=(1, 2)), dict(MaxMsgs=7, MaxOpen=2, HiVals=(0, 1), LoVals=(1,), OpShapes="chain", StampModes=("last", "any"))]},
     sims=_S_SIMS, exh=_S_EXH, random_cfg=_rnd(["elec", "ops"], 60, 600))
_srv("C05",
     mc={"quick": [dict(MaxMsgs=5, MaxOpen=3, HiVals=(0, 1, 2), LoVals=(1, 2), StampModes=("last",))],
         "thorough": [dict(MaxMsgs=6, MaxOpen=3, HiVals=(0, 1, 2), LoVals=(1, 2, 3), StampModes=("last",))]},
     sims=_S_SIMS,
     # ties and re-announcements: every sequence of parameter / election messages of two (three) sessions over a single id
     exh={"quick": _S_EXH["quick"] + [dict(MaxMsgs=5, MaxOpen=2, HiVals=(0,), LoVals=(1,), OpShapes="none", StampModes=("last",), WithClose=False)],
          "thorough": _S_EXH["thorough"] + [dict(MaxMsgs=6, MaxOpen=2, HiVals=(0,), LoVals=(1, 2), OpShapes="none", StampModes=("last",), WithClose=False),
                                            dict(MaxMsgs=7, MaxOpen=3, HiVals=(0,), LoVals=(1,), OpShapes="none", StampModes=("last",), WithClose=False)]},
     random_cfg=_rnd(["elec", "fsm"], 60, 600))
_srv("C06",
     mc={"quick": [dict(MaxMsgs=6, MaxOpen=2, HiVals=(0,), LoVals=(1, 2), OpShapes="chain", StampModes=("last",), AckModes=("RIB", "RIB_FIB"))],
         "thorough": [dict(MaxMsgs=8, MaxOpen=2, HiVals=(0,), LoVals=(1, 2), OpShapes="chain", StampModes=("last",), AckModes=("RIB", "RIB_FIB"), FwdModes=(True, False))]},
     sims=_S_SIMS, exh=_S_EXH, random_cfg=_rnd(["ops", "elec"], 60, 600))
_srv("C07",
     mc={"quick": [dict(MaxMsgs=6, MaxOpen=1, HiVals=(0,), LoVals=(1,), OpShapes="chain", StampModes=("last",))],
         "thorough": [dict(MaxMsgs=8, MaxOpen=1, HiVals=(0,), LoVals=(1,), OpShapes="chain", StampModes=("last",))]},
     sims=_S_SIMS, exh=_S_EXH, random_cfg=_rnd(["get", "ops"], 80, 800), directed=lambda ctx: c07_directed(ctx) + c07_large(ctx))
_srv("C09",
     mc={"quick": [dict(MaxMsgs=4, MaxOpen=2, ParamMsgs="all", WithBadMsgs=True, AckModes=("RIB", "RIB_FIB"), HiVals=(0,), LoVals=(1,), StampModes=("last", "none"))],
         "thorough": [dict(MaxMsgs=5, MaxOpen=3, ParamMsgs="all", WithBadMsgs=True, AckModes=("RIB", "RIB_FIB"), HiVals=(0,), LoVals=(1, 2), StampModes=("last", "none"))]},
     sims={"quick": _S_SIMS["quick"] + [(dict(_S_SIM_ELEC, MultiOps=True, MaxOpen=2), 150, 300)],
           "thorough": _S_SIMS["thorough"] + [(dict(_S_SIM_ELEC, MultiOps=True, MaxOpen=2), 2500, 300)]},
     # every sequence in which one negotiated, elected session sends requests of two differently stamped operations
     exh={"quick": _S_EXH["quick"] + [dict(MaxMsgs=4, MaxOpen=1, HiVals=(0,), LoVals=(1, 2), OpShapes="none", StampModes=("last",), MultiOps=True, WithClose=False)],
          "thorough": _S_EXH["thorough"] + [dict(MaxMsgs=5, MaxOpen=2, HiVals=(0,), LoVals=(1, 2), OpShapes="none", StampModes=("last",), MultiOps=True, WithClose=False)]},
     random_cfg=_rnd(["fsm", "elec"], 80, 800))


class CompositeFamily:
    """A property decided by several families (e.g. RIB-level and server-level parts)."""

    def __init__(self, prop, parts):
        self.prop, self.parts = prop, parts

    def run(self, ctx):
        res = Result()
        cov = {"states": 0, "transitions": 0, "traces_validated_against_impl": 0, "evaluations": 0,
               "distinct_nontrivial": 0, "samples": [], "parts": {}, "exhaustive": False}
        rules = []
        infra = []
        for part in self.parts:
            try:
                r = part.run(ctx)
            except Infra as e:
                infra.append((part.FAMILY, e))
                continue
            res.violations += r.violations
            res.known += [k for k in r.known if k not in res.known]
            res.notes += r.notes
            res.assumptions += [a for a in r.assumptions if a not in res.assumptions]
            for k in ("states", "transitions", "traces_validated_against_impl", "evaluations", "distinct_nontrivial"):
                cov[k] += r.coverage.get(k, 0) or 0
            cov["samples"] += r.coverage.get("samples", [])[:2]
            cov["parts"][part.FAMILY] = {k: v for k, v in r.coverage.items() if k != "samples"}
            rules.append(f"[{part.FAMILY}] " + r.coverage.get("rule", ""))
        cov["rule"] = " ; ".join(rules)
        res.coverage = cov
        if infra:
            if not res.violations:
                raise infra[0][1]
            for fam, e in infra:
                res.notes.append(f"part {fam} could not run: {str(e)[:300]}")
        return res

    def replay(self, ctx, path):
        fam = json.load(open(path)).get("family")
        for part in self.parts:
            if part.FAMILY == fam:
                return part.replay(ctx, path)
        raise Infra(f"no part handles family {fam}")


_c08_rib = REGISTRY["C08"]
_c08_srv = ServerFamily("C08",
    mc={"quick": [dict(MaxMsgs=5, MaxOpen=2, HiVals=(0, 1), LoVals=(1, 2), StampModes=("last",), WithFlushRPC=True)],
        "thorough": [dict(MaxMsgs=6, MaxOpen=2, HiVals=(0, 1), LoVals=(1, 2), StampModes=("last",), WithFlushRPC=True, OpShapes="chain")]},
    sims={"quick": [(dict(_S_SIM_ELEC, WithFlushRPC=True), 150, 300), (dict(_S_SIM_OPS, WithFlushRPC=True), 100, 400)],
          "thorough": [(dict(_S_SIM_ELEC, WithFlushRPC=True), 2500, 300), (dict(_S_SIM_OPS, WithFlushRPC=True), 2000, 400)]},
    exh={"quick": [dict(MaxMsgs=3, MaxOpen=1, HiVals=(0, 1), LoVals=(1, 2), OpShapes="nh", StampModes=("last",), WithFlushRPC=True, WithClose=False)],
         "thorough": [dict(MaxMsgs=4, MaxOpen=1, HiVals=(0, 1), LoVals=(1, 2), OpShapes="nh", StampModes=("last",), WithFlushRPC=True, WithClose=False)]},
    random_cfg=_rnd(["flush"], 100, 1000))
REGISTRY["C08"] = CompositeFamily("C08", [_c08_rib, _c08_srv])

_c12_rib = REGISTRY["C12"]
_c12_srv = ServerFamily("C12",
    mc={"quick": [dict(MaxMsgs=4, MaxOpen=2, HiVals=(0,), LoVals=(1,), StampModes=("last", "none"))],
        "thorough": [dict(MaxMsgs=5, MaxOpen=2, HiVals=(0,), LoVals=(1,), StampModes=("last", "none"), OpShapes="chain")]},
    sims={"quick": [(_S_SIM_OPS, 100, 400)], "thorough": [(_S_SIM_OPS, 1500, 400)]},
    exh={"quick": [], "thorough": []},
    random_cfg=_rnd(["bad"], 100, 1000))
REGISTRY["C12"] = CompositeFamily("C12", [_c12_rib, _c12_srv])

def _nh(id, ni, key, eid=(0, 1), typ="ADD"):
    return {"id": id, "ni": ni, "typ": typ, "kind": "nh", "key": str(key), "pl": "a" if typ != "DELETE" else "", "nhs": [], "bk": "", "g": "", "gni": "",
            "bad": "", "eid": list(eid), "noeid": False}


def _msg(s, m, sendfail=False):
    return {"a": "msg", "s": s, "m": m, "sendfail": sendfail}


def c10_directed(ctx):
    """The scenario of GribiGetProc on the real server: a Get over two populated instances whose consumer leaves after k
    responses (every k), then a writer (an ADD in each instance, a Flush) and a complete Get must be served."""
    pre = [{"a": "sreset", "nis": ["DEFAULT", "vrf1"], "fwd": True}, {"a": "open", "s": "s1"},
           _msg("s1", {"k": "params", "red": "SINGLE_PRIMARY", "per": "PRESERVE", "ack": "RIB"}), _msg("s1", {"k": "elec", "id": [0, 1]}),
           _msg("s1", {"k": "ops", "ops": [_nh(1, "DEFAULT", 1), _nh(2, "DEFAULT", 2), _nh(3, "vrf1", 1), _nh(4, "vrf1", 2)]})]
    out = []
    for scope in ("*", "DEFAULT", "vrf1"):
        w, oid = list(pre), 10
        for k in range(0, 5):
            w.append({"a": "get", "g": {"ni": scope, "aft": "ALL"}, "failafter": k})
            w.append(_msg("s1", {"k": "ops", "ops": [_nh(oid, "DEFAULT", 3 + k), _nh(oid + 1, "vrf1", 3 + k)]}))
            oid += 2
            w.append({"a": "get", "g": {"ni": "*", "aft": "nh"}})
        w.append({"a": "flushrpc", "r": {"ni": "*", "el": "override", "id": [0, 0]}})
        w.append({"a": "get", "g": {"ni": "*", "aft": "ALL"}})
        out.append(json.dumps(w))
    # the scenario of GribiModifyProc: the write of a reply fails in the middle of a batch (the receive goroutine is left
    # blocked handing over the next reply); the RPC must return, its footprint go, and another session be served
    for nops in (2, 4):
        w = list(pre)
        w.append(_msg("s1", {"k": "ops", "ops": [_nh(30 + i, "DEFAULT", 5 + i) for i in range(nops)]}, sendfail=True))
        w += [{"a": "open", "s": "s2"}, _msg("s2", {"k": "params", "red": "SINGLE_PRIMARY", "per": "PRESERVE", "ack": "RIB"}),
              _msg("s2", {"k": "elec", "id": [0, 2]}), _msg("s2", {"k": "ops", "ops": [_nh(40, "vrf1", 7, eid=(0, 2))]}),
              {"a": "get", "g": {"ni": "*", "aft": "nh"}}, {"a": "close", "s": "s2", "mode": "eof"}]
        out.append(json.dumps(w))
    return out


def c07_large(ctx):
    """More entries in one Get scope than any batching a server might apply (70 next-hops + group + prefix), and a network
    instance created while the server runs, after a Get over all instances was already served."""
    pre = [{"a": "sreset", "nis": ["DEFAULT", "vrf1"], "fwd": True}, {"a": "open", "s": "s1"},
           _msg("s1", {"k": "params", "red": "SINGLE_PRIMARY", "per": "PRESERVE", "ack": "RIB"}), _msg("s1", {"k": "elec", "id": [0, 1]})]
    w = list(pre)
    for base in (0, 35):
        w.append(_msg("s1", {"k": "ops", "ops": [_nh(100 + base + i, "DEFAULT", 1 + base + i) for i in range(35)]}))
    w += [{"a": "get", "g": {"ni": "*", "aft": "ALL"}}, {"a": "get", "g": {"ni": "DEFAULT", "aft": "nh"}}, {"a": "get", "g": {"ni": "vrf1", "aft": "ALL"}}]
    w2 = list(pre) + [_msg("s1", {"k": "ops", "ops": [_nh(1, "DEFAULT", 1)]}), {"a": "get", "g": {"ni": "*", "aft": "ALL"}},
                      {"a": "flushrpc", "r": {"ni": "*", "el": "override", "id": [0, 0]}},
                      {"a": "addni", "ni": "late1"},
                      _msg("s1", {"k": "ops", "ops": [_nh(2, "late1", 1), _nh(3, "DEFAULT", 2)]}),
                      {"a": "get", "g": {"ni": "*", "aft": "ALL"}}, {"a": "get", "g": {"ni": "late1", "aft": "nh"}},
                      {"a": "flushrpc", "r": {"ni": "*", "el": "override", "id": [0, 0]}}, {"a": "get", "g": {"ni": "*", "aft": "ALL"}}]
    return [json.dumps(w), json.dumps(w2)]


def c07_directed(ctx):
    """A Get over two populated instances read by a slow (but connected) consumer: every entry must still arrive."""
    w = [{"a": "sreset", "nis": ["DEFAULT", "vrf1"], "fwd": True}, {"a": "open", "s": "s1"},
         _msg("s1", {"k": "params", "red": "SINGLE_PRIMARY", "per": "PRESERVE", "ack": "RIB"}), _msg("s1", {"k": "elec", "id": [0, 1]}),
         _msg("s1", {"k": "ops", "ops": [_nh(i + 1, ni, 1 + i % 4) for i, ni in enumerate(["DEFAULT"] * 4 + ["vrf1"] * 4)]}),
         {"a": "get", "g": {"ni": "*", "aft": "ALL"}, "stall": True},
         _msg("s1", {"k": "ops", "ops": [_nh(20, "DEFAULT", 5)]}),
         {"a": "get", "g": {"ni": "*", "aft": "nh"}}]
    return [json.dumps(w)]


def c10_getproc_mc(ctx):
    recs = []
    for req, rep in ((2, 2),) if ctx.tier == "quick" else ((2, 2), (3, 3)):
        cfg = (f"SPECIFICATION MSpec\nCONSTANTS\n  Requests = {req}\n  RepliesPerRequest = {rep}\n  HoldCsAcrossSend = FALSE\n"
               "INVARIANTS LeakedHoldNoLock\nPROPERTIES HandlerReturns OthersServed\nCHECK_DEADLOCK FALSE\n")
        run = require_ok(ctx.tlc("GribiModifyProc", None, name="mc-modifyproc", workers=4, cfg_text=cfg, timeout=1800), "model checking GribiModifyProc")
        recs.append({"module": "GribiModifyProc", "constants": {"Requests": req, "RepliesPerRequest": rep, "HoldCsAcrossSend": False},
                     "properties": "LeakedHoldNoLock; HandlerReturns OthersServed (weak fairness)", "distinct_states": run.distinct, "secs": round(run.secs, 1)})
    for nni, per in ((2, 2),) if ctx.tier == "quick" else ((2, 2), (3, 3)):
        cfg = (f"SPECIFICATION GSpec\nCONSTANTS\n  NNI = {nni}\n  PerNI = {per}\n  StopByClose = TRUE\nINVARIANTS LocksBalanced\n"
               "PROPERTIES ProducerEnds LocksReleased WriterServed NoFaultDeliversAll\nCHECK_DEADLOCK FALSE\n")
        run = require_ok(ctx.tlc("GribiGetProc", None, name="mc-getproc", workers=4, cfg_text=cfg, timeout=1800), "model checking GribiGetProc")
        recs.append({"module": "GribiGetProc", "constants": {"NNI": nni, "PerNI": per, "StopByClose": True},
                     "properties": "ProducerEnds LocksReleased WriterServed NoFaultDeliversAll (weak fairness)", "distinct_states": run.distinct, "secs": round(run.secs, 1)})
    return recs


_srv("C10", directed=c10_directed, extra_mc=c10_getproc_mc,
     mc={"quick": [dict(MaxMsgs=5, MaxOpen=2, HiVals=(0,), LoVals=(1, 2), StampModes=("last",), WithSendFail=True)],
         "thorough": [dict(MaxMsgs=6, MaxOpen=3, HiVals=(0,), LoVals=(1, 2), StampModes=("last",), WithSendFail=True, OpShapes="chain")]},
     sims={"quick": [(dict(_S_SIM_OPS, WithSendFail=True), 150, 400), (dict(_S_SIM_ELEC, WithSendFail=True), 100, 300)],
           "thorough": [(dict(_S_SIM_OPS, WithSendFail=True), 2500, 400), (dict(_S_SIM_ELEC, WithSendFail=True), 2000, 300)]},
     exh={"quick": [dict(MaxMsgs=4, MaxOpen=1, HiVals=(0,), LoVals=(1,), OpShapes="nh", StampModes=("last",), WithSendFail=True)],
          "thorough": [dict(MaxMsgs=5, MaxOpen=2, HiVals=(0,), LoVals=(1,), OpShapes="nh", StampModes=("last",), WithSendFail=True)]},
     random_cfg=_rnd(["cut"], 120, 1200, length=60))


# ---------------------------------------------------------------------------
# Reconciler family (C15): GribiReconcile / GribiReconcile_MC / GribiReconcileTrace

def recon_cfg(NIs=("DEFAULT", "vrf1"), TOnly=(), NHK=("1", "2"), NHGK=("1",), NHLists="L_1_12", TopK="T_v4", GNIs=("", "DEFAULT"),
              PLs=("a", "b"), MaxBuild=2, EmitOn=False, view=True, invariants=True):
    lines = ["SPECIFICATION MCSpec", "CONSTANTS", '  DefaultNI = "DEFAULT"', f"  NIs = {tlaset(NIs)}", f"  TOnly = {tlaset(TOnly)}",
             f"  NHK = {tlaset(NHK)}", f"  NHGK = {tlaset(NHGK)}", f"  NHLists <- {NHLists}", f"  TopK <- {TopK}",
             f"  GNIs = {tlaset(GNIs)}", f"  PLs = {tlaset(PLs)}", f"  MaxBuild = {MaxBuild}", f"  EmitOn = {str(EmitOn).upper()}"]
    if view:
        lines.append("VIEW View")
    if invariants:
        lines.append("INVARIANTS EachOpSucceeds Converges EqualGivesNothing CountersStayExact")
    if EmitOn:
        lines.append("INVARIANTS Emit")
    lines.append("CHECK_DEADLOCK FALSE")
    return "\n".join(lines) + "\n"


def recon_attr(comp, ev, rec):
    if comp.startswith("recon"):
        return {"C15"}
    owners = set(rib_attr(comp, ev, rec))
    if comp in ("rib", "fold", "flush:rib", "refs", "flush:refs", "counters"):
        # what the reconciler reads (contents) and relies on (deletion protection) of its target
        owners.add("C15")
    return owners


def recon_stats(path, prop):
    segs = events = 0
    distinct, nontrivial = set(), set()
    samples = []
    with open(path) as fh:
        for line in fh:
            events += 1
            if not line.startswith('{"base"') and '"ev":"recon"' not in line[:200]:
                if line.startswith('{"ev":"reset"'):
                    segs += 1
                continue
            e = json.loads(line)
            if e.get("ev") != "recon":
                continue
            n = sum(len(e["ops"][a][b]) for a in ("add", "rep", "del") for b in ("nh", "nhg", "top"))
            key = vlib.sha(json.dumps([e["intended"], e["ops"]], sort_keys=True))
            distinct.add(key)
            if n >= 2 and any(e["ops"]["del"][b] for b in ("nh", "nhg", "top")) or (n >= 2 and any(e["ops"]["rep"][b] for b in ("nh", "nhg", "top"))):
                nontrivial.add(key)
                if len(samples) < 3:
                    samples.append({"intended": e["intended"], "ops": e["ops"], "base": e["base"]})
    return dict(segments=segs, events=events, distinct=len(distinct), nontrivial=len(nontrivial), samples=samples)


class ReconFamily(RIBFamily):
    MC_MODULE = "GribiReconcile_MC"
    TRACE_MODULE = "GribiReconcileTrace"
    TRACE_SPEC = "RTraceSpec"
    VH_CMD = "recon-run"
    FAMILY = "recon"

    @staticmethod
    def cfg(**kw):
        return recon_cfg(**kw)

    @staticmethod
    def attr(comp, ev, rec):
        return recon_attr(comp, ev, rec)

    @staticmethod
    def stats(path, prop):
        return recon_stats(path, prop)

    @staticmethod
    def to_inputs(evs):
        return [strip_state(e) for e in evs]

    def vh_args(self, ctx, rc):
        return ["-random", str(rc["n"])]

    def rule(self):
        return ("one case = a pair (intended, target) of real RIBs built by TLC-emitted or seeded random operation sequences, reconciled by the real "
                "reconciler and the result applied to the real target; non-trivial = at least two operations including a delete or a replace; distinct by (intended, operation sets)")

    def replay(self, ctx, path):
        raise Infra("replay of reconcile cases: re-run ./check C15 with the seed recorded in the replay file")


REGISTRY["C15"] = ReconFamily("C15",
    mc={"quick": [dict(MaxBuild=2, TOnly=("vrf1",)), dict(MaxBuild=2)],
        "thorough": [dict(MaxBuild=3), dict(MaxBuild=3, TOnly=("vrf1",), NHK=("1",))]},
    sims={"quick": [(dict(MaxBuild=5, NHGK=("1", "2"), TopK="T_2", GNIs=("", "DEFAULT", "vrf1")), 500, 300),
                    (dict(MaxBuild=4, TOnly=("vrf1",), TopK="T_2"), 300, 300)],
          "thorough": [(dict(MaxBuild=6, NHGK=("1", "2"), TopK="T_2", GNIs=("", "DEFAULT", "vrf1")), 3000, 300),
                       (dict(MaxBuild=5, TOnly=("vrf1",), TopK="T_2"), 2000, 300)]},
    exh={"quick": [dict(MaxBuild=1, PLs=("a",))], "thorough": [dict(MaxBuild=2, PLs=("a",), NHK=("1",))]},
    random_cfg={"quick": {"n": 400}, "thorough": {"n": 5000}})


# ---------------------------------------------------------------------------
# chk family (C17): GribiChk / GribiChk_MC / GribiChkTrace

def chk_cfg(Helper="HasResult", Ids=(1, 2), Sts=("RIB", "FAILED"), Errs=("",), Dets="D_small", MaxRes=2, MaxWants=1,
            NIs=("DEFAULT",), Kinds=("v4", "v6"), Keys=(1,), EmitOn=False, view=True, invariants=True):
    lines = ["SPECIFICATION MCSpec", "CONSTANTS", f"  Helper = {q(Helper)}", f"  Ids = {tlaset(Ids)}", f"  Sts = {tlaset(Sts)}",
             f"  Errs = {tlaset(Errs)}", f"  Dets <- {Dets}", f"  MaxRes = {MaxRes}", f"  MaxWants = {MaxWants}", f"  NIs = {tlaset(NIs)}",
             f"  Kinds = {tlaset(Kinds)}", f"  Keys = {tlaset(Keys)}", f"  EmitOn = {str(EmitOn).upper()}"]
    if invariants:
        lines.append("INVARIANTS TypeOK CacheConsistent")
    if EmitOn:
        lines.append("INVARIANTS Emit")
    lines.append("CHECK_DEADLOCK FALSE")
    return "\n".join(lines) + "\n"


def chk_stats(path, prop):
    n = 0
    distinct, nontrivial = set(), set()
    samples = []
    byh = collections.Counter()
    with open(path) as fh:
        for line in fh:
            n += 1
            e = json.loads(line)
            key = vlib.sha(json.dumps(e["c"], sort_keys=True))
            distinct.add(key)
            byh[e["c"]["h"]] += 1
            if e["fatal"]:           # the expected item was absent (or a test error): the interesting half
                nontrivial.add(key)
                if len(samples) < 3:
                    samples.append(e)
    return dict(segments=n, events=n, distinct=len(distinct), nontrivial=len(nontrivial), samples=samples, by_helper=dict(byh))


class ChkFamily(RIBFamily):
    MC_MODULE = "GribiChk_MC"
    TRACE_MODULE = "GribiChkTrace"
    TRACE_SPEC = "CTraceSpec"
    TRACE_CONSTS = ""
    VH_CMD = "chk-run"
    FAMILY = "chk"
    RESET_PREFIX = '{"c"'

    @staticmethod
    def cfg(**kw):
        return chk_cfg(**kw)

    @staticmethod
    def attr(comp, ev, rec):
        return {"C17"} if comp.startswith("chk") else set()

    @staticmethod
    def stats(path, prop):
        return chk_stats(path, prop)

    @staticmethod
    def to_inputs(evs):
        return evs

    def vh_args(self, ctx, rc):
        return ["-random", str(rc["n"])]

    def rule(self):
        return ("one case = one call of a real chk helper on a capturing testing.TB with inputs enumerated by TLC (GribiChk_MC, exhaustive over the bounded "
                "domain) or generated by the seeded driver (larger domains, near-miss wants); non-trivial = the real helper reported a failure "
                "(the wanted item was absent or the call was a test error); distinct by input")

    def replay(self, ctx, path):
        raise Infra("chk cases are replayed by re-running ./check C17 with the recorded seed")


_CHK_HELPERS = [
    dict(Helper="HasResult", MaxRes=2, Dets="D_small"),
    dict(Helper="HasResultsCache", MaxRes=2, MaxWants=1, Dets="D_small", Sts=("RIB",)),
    dict(Helper="GetResponseHasEntries", MaxRes=2, MaxWants=2, Kinds=("nh", "v4", "v6", "mpls"), NIs=("DEFAULT", "vrf1")),
    dict(Helper="HasNErrors"),
    dict(Helper="HasRecvClientErrorWithStatus"),
]
_CHK_THOROUGH = [
    dict(Helper="HasResult", MaxRes=2, Dets="D_kinds", Errs=("", "e1")),
    dict(Helper="HasResultsCache", MaxRes=2, MaxWants=2, Dets="D_kinds", Sts=("RIB",)),
    dict(Helper="GetResponseHasEntries", MaxRes=3, MaxWants=2, Kinds=("nh", "nhg", "v4", "v6", "mpls"), NIs=("DEFAULT", "vrf1")),
    dict(Helper="HasNErrors"),
    dict(Helper="HasRecvClientErrorWithStatus"),
]
REGISTRY["C17"] = ChkFamily("C17", mc={"quick": _CHK_HELPERS, "thorough": _CHK_THOROUGH}, sims={"quick": [], "thorough": []},
                            exh={"quick": _CHK_HELPERS, "thorough": _CHK_THOROUGH},
                            random_cfg={"quick": {"n": 20000}, "thorough": {"n": 300000}})


# ---------------------------------------------------------------------------
# fluent family (C18): GribiFluent / GribiFluent_MC / GribiFluentTrace

def fluent_cfg(BKinds=("nh", "nhg"), MaxSteps=4, MaxBuilders=2, Modes=("elected",), EmitOn=False, view=True, invariants=True):
    lines = ["SPECIFICATION MCSpec", "CONSTANTS", f"  BKinds = {tlaset(BKinds)}", f"  MaxSteps = {MaxSteps}", f"  MaxBuilders = {MaxBuilders}",
             f"  Modes = {tlaset(Modes)}", f"  EmitOn = {str(EmitOn).upper()}"]
    if view:
        lines.append("VIEW View")
    if invariants:
        lines.append("INVARIANTS IdsFromOne StampedWhenElected")
        lines.append("PROPERTIES QueuedImmutable")
    if EmitOn:
        lines.append("INVARIANTS Emit")
    lines.append("CHECK_DEADLOCK FALSE")
    return "\n".join(lines) + "\n"


def fluent_stats(path, prop):
    segs = events = 0
    distinct, nontrivial = set(), set()
    samples = []
    cur, flags = None, None

    def close():
        nonlocal cur
        if cur is None:
            return
        key = vlib.sha(json.dumps(cur, sort_keys=True))
        distinct.add(key)
        if flags["q"] >= 1 and flags["call_after_q"] >= 1:
            nontrivial.add(key)
            if len(samples) < 3:
                samples.append(cur[:14])
        cur = None

    with open(path) as fh:
        for line in fh:
            e = json.loads(line)
            events += 1
            if e["ev"] == "fstart":
                close()
                segs += 1
                cur, flags = [], collections.Counter()
            if cur is None:
                continue
            cur.append({k: v for k, v in e.items() if k not in ("entries", "msgs")})
            if e["ev"] == "fq":
                flags["q"] += 1
            elif e["ev"] in ("fcall", "fupd") and flags["q"]:
                flags["call_after_q"] += 1
    close()
    return dict(segments=segs, events=events, distinct=len(distinct), nontrivial=len(nontrivial), samples=samples)


class FluentFamily(RIBFamily):
    MC_MODULE = "GribiFluent_MC"
    TRACE_MODULE = "GribiFluentTrace"
    TRACE_SPEC = "FTSpec"
    TRACE_CONSTS = ""
    VH_CMD = "fluent-run"
    FAMILY = "fluent"
    RESET_PREFIX = '{"ev":"fstart"'

    @staticmethod
    def cfg(**kw):
        return fluent_cfg(**kw)

    @staticmethod
    def attr(comp, ev, rec):
        return {"C18"} if comp.startswith("fluent") else set()

    @staticmethod
    def stats(path, prop):
        return fluent_stats(path, prop)

    @staticmethod
    def to_inputs(evs):
        return [{k: v for k, v in e.items() if k not in ("entries", "msgs")} for e in evs]

    def vh_args(self, ctx, rc):
        return ["-random", str(rc["n"]), "-len", str(rc["len"])]

    def rule(self):
        return ("one case = one program of builder calls, AddEntry/ReplaceEntry/DeleteEntry and UpdateElectionID calls executed on the real fluent API "
                "with a recording stub; non-trivial = something was queued and a builder or the election id was changed afterwards; distinct by program")

    def replay(self, ctx, path):
        raise Infra("fluent programs are replayed by re-running ./check C18 with the recorded seed")


REGISTRY["C18"] = FluentFamily("C18",
    mc={"quick": [dict(MaxSteps=4, BKinds=("nh", "nhg")), dict(MaxSteps=4, BKinds=("v4", "mpls"), Modes=("elected", "all"))],
        "thorough": [dict(MaxSteps=5, BKinds=("nh", "nhg")), dict(MaxSteps=5, BKinds=("v4", "v6", "mpls"), Modes=("elected", "all"))]},
    sims={"quick": [(dict(MaxSteps=14, BKinds=("nh", "nhg", "v4", "v6", "mpls"), MaxBuilders=3, Modes=("elected", "all")), 300, 40)],
          "thorough": [(dict(MaxSteps=16, BKinds=("nh", "nhg", "v4", "v6", "mpls"), MaxBuilders=3, Modes=("elected", "all")), 6000, 40)]},
    exh={"quick": [dict(MaxSteps=3, BKinds=("nh",), MaxBuilders=1)], "thorough": [dict(MaxSteps=4, BKinds=("nh",), MaxBuilders=1)]},
    random_cfg={"quick": {"n": 400, "len": 30}, "thorough": {"n": 10000, "len": 40}})


# ---------------------------------------------------------------------------
# client family (C13, C14): GribiClient / GribiClient_MC / GribiClientTrace

def client_cfg(MaxSteps=6, MaxOps=3, FibModes=(True, False), WithFaults=True, WithViolations=True, EmitOn=False, view=True, invariants=True):
    lines = ["SPECIFICATION MCSpec", "CONSTANTS", f"  MaxSteps = {MaxSteps}", f"  MaxOps = {MaxOps}", f"  FibModes = {tlaset(FibModes)}",
             f"  WithFaults = {str(WithFaults).upper()}", f"  WithViolations = {str(WithViolations).upper()}", f"  EmitOn = {str(EmitOn).upper()}"]
    if view:
        lines.append("VIEW View")
    if invariants:
        lines.append("INVARIANTS Conservation NeverTwice ConvergedMeansAnswered")
    if EmitOn:
        lines.append("INVARIANTS Emit")
    lines.append("CHECK_DEADLOCK FALSE")
    return "\n".join(lines) + "\n"


def client_attr(comp, ev, rec):
    c14 = {"clientHang", "clientQBlockedForever", "clientGoroutineLeft", "clientNotFreshAfterReset", "clientConnect"}
    both = {"clientAwait", "clientSendErrs", "clientRecvErrs", "clientSent"}
    if comp in c14:
        return {"C14"}
    if comp == "clientConvergedWrongly":
        # convergence reported although operations are outstanding (C13) - or although the stream has failed (C14: "returns the
        # error instead of reporting convergence")
        st = rec.get("st") or {}
        return {"C13", "C14"} if (st.get("recvErrs") or 0) + (st.get("sendErrs") or 0) > 0 else {"C13"}
    if comp in both:
        return {"C13", "C14"}
    if comp.startswith("client"):
        return {"C13"}
    return set()


def client_stats(path, prop):
    segs = events = 0
    distinct, nontrivial = set(), set()
    samples = []
    cur, f = None, None

    def close():
        nonlocal cur
        if cur is None:
            return
        key = vlib.sha(json.dumps(cur, sort_keys=True))
        distinct.add(key)
        ok = (f["results"] > 0 and f["await"] > 0) if prop == "C13" else (f["fault"] > 0 and f["after_fault"] > 0)
        if ok:
            nontrivial.add(key)
            if len(samples) < 3:
                samples.append(cur[:16])
        cur = None

    with open(path) as fh:
        for line in fh:
            e = json.loads(line)
            events += 1
            if e["ev"] == "cnew":
                close()
                segs += 1
                cur, f = [], collections.Counter()
            if cur is None:
                continue
            cur.append({k: v for k, v in e.items() if k != "st"})
            k = e["ev"]
            if f["fault"] and k in ("cq", "cawait", "cclose", "creset", "cburst"):
                f["after_fault"] += 1
            if k == "cdeliver":
                f["results"] += 1
                if (e.get("st") or {}).get("recvErrs", 0) > 0:
                    f["fault"] += 1
            elif k == "cawait":
                f["await"] += 1
            elif k in ("crecvfail", "crecveof", "cburst", "csendfail", "chang"):
                f["fault"] += 1
    close()
    return dict(segments=segs, events=events, distinct=len(distinct), nontrivial=len(nontrivial), samples=samples)


class ClientFamily(RIBFamily):
    MAX_WALKS = 9000
    MC_MODULE = "GribiClient_MC"
    TRACE_MODULE = "GribiClientTrace"
    TRACE_SPEC = "CTSpec"
    TRACE_CONSTS = ""
    VH_CMD = "client-run"
    FAMILY = "client"
    RESET_PREFIX = '{"cfg"'

    @staticmethod
    def cfg(**kw):
        return client_cfg(**kw)

    @staticmethod
    def attr(comp, ev, rec):
        return client_attr(comp, ev, rec)

    @staticmethod
    def stats(path, prop):
        return client_stats(path, prop)

    @staticmethod
    def to_inputs(evs):
        return [{k: v for k, v in e.items() if k != "st"} for e in evs]

    def vh_args(self, ctx, rc):
        return ["-random", str(rc["n"]), "-len", str(rc["len"]), "-storm", str(rc.get("storm", 0))]

    def rule(self):
        if self.prop == "C13":
            return ("one case = one sequence of client calls and server responses driven through the real client with a scripted stub stream; "
                    "non-trivial = results were delivered and AwaitConverged was called; distinct by sequence")
        return ("one case = one sequence with a stream fault (failed Send, receive error, clean end, burst of Q calls while Send is stuck) followed by "
                "further Q / AwaitConverged / Close / Reset calls; non-trivial = a fault occurred and calls were made afterwards")

    def replay(self, ctx, path):
        raise Infra("client sequences are replayed by re-running the check with the recorded seed")


_CL_SIMS = {"quick": [(dict(MaxSteps=14, MaxOps=8), 40, 40)], "thorough": [(dict(MaxSteps=20, MaxOps=10), 1500, 50)]}
_CL_EXH = {"quick": [dict(MaxSteps=3, MaxOps=2, FibModes=(True,))], "thorough": [dict(MaxSteps=4, MaxOps=3, FibModes=(True,)), dict(MaxSteps=3, MaxOps=2)]}
for _p in ("C13", "C14"):
    REGISTRY[_p] = ClientFamily(_p,
        mc={"quick": [dict(MaxSteps=7, MaxOps=3)], "thorough": [dict(MaxSteps=9, MaxOps=4)]},
        sims=_CL_SIMS, exh=_CL_EXH,
        random_cfg={"quick": {"n": 25, "len": 40, "storm": 6}, "thorough": {"n": 500, "len": 60, "storm": 60}})


# ---------------------------------------------------------------------------
# client goroutine family (C14, C13): GribiClientProc / _MC / _Live / Trace - every schedule of the application,
# sender and receiver goroutines; TLC-generated schedules are replayed through the scheduler gates of the client

PROC_INVARIANTS = "NoPanic CloseLeavesNoGoroutine AwaitSound AwaitReportsErrors Accounting ResetIsFresh"
PROC_LIVE = "AppTerminates QReturns CloseReturns"


def proc_cfg(Cap=1, NQ=2, MaxAwait=2, Closer="close", MaxFaults=1, HoldModes=(False,), EmitOn=False, live=False, trace=False):
    lines = ["SPECIFICATION " + ("LiveSpec" if live else "PTSpec" if trace else "MCSpec"), "CONSTANTS", f"  Cap = {Cap}", f"  NQ = {NQ}",
             f"  MaxAwait = {MaxAwait}", f"  Closer = {q(Closer)}", "  SelectOnExit = TRUE"]
    if trace:
        lines += ['  TraceFile = "trace.ndjson"', "POSTCONDITION TraceAccepted"]
    else:
        lines.append(f"  MaxFaults = {MaxFaults}")
        if live:
            lines.append("PROPERTIES " + PROC_LIVE)
        else:
            lines += [f"  EmitOn = {str(EmitOn).upper()}", f"  HoldModes = {tlaset(HoldModes)}"]
            lines += ["INVARIANTS Emit"] if EmitOn else ["VIEW View", "INVARIANTS " + PROC_INVARIANTS]
    lines.append("CHECK_DEADLOCK FALSE")
    return "\n".join(lines) + "\n"


def proc_attr(comp):
    if comp in ("procStall", "procGoroutineLeft", "procPc", "procDone", "procShut", "procHalfClosed", "procPanic", "procNotEnabled"):
        return {"C14"}
    if comp in ("procPend", "procSent", "procModLen", "procConvergedWrongly"):
        return {"C13"}
    if comp in ("procAwait", "procErrs"):
        return {"C13", "C14"}
    return set()


class ProcFamily:
    """Goroutine-grain part of C14 / C13."""
    FAMILY = "clientproc"

    def __init__(self, prop):
        self.prop = prop

    def run(self, ctx):
        res = Result()
        quick = ctx.tier == "quick"
        ctx.build_vh()
        mcs, states, trans = [], 0, 0
        # 1. the design: every interleaving of a small instance (safety), and termination of every call under fairness
        small = [dict(Cap=1, NQ=2, Closer=c) for c in ("close", "reset", "none")] if quick else \
                [dict(Cap=c, NQ=n, Closer=cl) for (c, n) in ((1, 3), (2, 3)) for cl in ("close", "reset", "none")]
        for kw in small:
            run = require_ok(ctx.tlc("GribiClientProc_MC", None, name="mc-proc", workers=vlib.NCPU, cfg_text=proc_cfg(**kw), timeout=3000, heap="16g"),
                             "model checking GribiClientProc_MC")
            states += run.distinct
            trans += run.generated
            mcs.append({"module": "GribiClientProc_MC", "constants": kw, "distinct_states": run.distinct, "generated": run.generated, "secs": round(run.secs, 1)})
        for kw in ([dict(Cap=1, NQ=2, Closer="close"), dict(Cap=1, NQ=2, Closer="reset")] if quick else
                   [dict(Cap=1, NQ=3, Closer="close"), dict(Cap=2, NQ=3, Closer="reset"), dict(Cap=1, NQ=2, MaxAwait=3, Closer="close")]):
            run = require_ok(ctx.tlc("GribiClientProc_Live", None, name="live-proc", workers=vlib.NCPU, cfg_text=proc_cfg(live=True, **kw), timeout=3000, heap="16g"),
                             "liveness of GribiClientProc")
            mcs.append({"module": "GribiClientProc_Live", "constants": kw, "properties": PROC_LIVE, "distinct_states": run.distinct, "secs": round(run.secs, 1)})
        # 2./3./4. schedules of the instance with the real channel capacity -> real client -> trace validation
        nwalks = 250 if quick else 6000
        tot = collections.Counter()
        nseg = events = nontriv = 0
        samples = []
        for ci, closer in enumerate(("close", "reset", "none")):
            kw = dict(Cap=5, NQ=7, MaxAwait=2, Closer=closer)
            sim = require_ok(ctx.tlc("GribiClientProc_MC", None, name="emit-proc", simulate=nwalks, depth=500, seed=ctx.seed * 100 + ci,
                                     cfg_text=proc_cfg(EmitOn=True, HoldModes=(True, False), **kw), timeout=1800), "schedule emission")
            walks = list(dict.fromkeys(sim.emitted()))
            wf = os.path.join(ctx.work, f"pwalks-{closer}.txt")
            with open(wf, "w") as f:
                for w in walks:
                    f.write("@@" + w + "\n")
            trace = os.path.join(ctx.work, f"ptrace-{closer}.ndjson")
            p = ctx.run_vh(["proc-run", "-in", wf, "-out", trace])
            if p.returncode != 0:
                raise Infra("vh proc-run failed: " + p.stdout[-2000:] + p.stderr[-4000:])
            info = json.loads(p.stdout.strip().splitlines()[-1])
            for k, v in info.items():
                tot[k] += v
            run = ctx.tlc("GribiClientProcTrace", None, name="validate-proc", workers=1, cfg_text=proc_cfg(trace=True, **kw),
                          extra_files={trace: "trace.ndjson"}, timeout=3000, heap="12g")
            matched, total, mism = parse_trace_report(run)
            if matched != total:
                raise Infra(f"trace validation stopped at line {matched + 1} of {total}\n" + run.tail())
            events += total
            segs = Segments(trace, '{"closer"')
            nseg += len(segs.starts)
            # non-trivial: a fault step occurred in the walk and the application still ran to the end of the schedule
            with open(trace) as fh:
                fault = False
                for line in fh:
                    if line.startswith('{"closer"'):
                        fault = False
                    elif '"c":"fail"' in line or '"l":"err"' in line or ('"l":"eof"' in line and '"p":"env"' in line):
                        fault = True
                    elif line.startswith('{"clean"') and fault and '"stalled":false' in line:
                        nontriv += 1
            if not samples and walks:
                samples.append(json.loads(walks[0])["steps"][:20])
            byseg = collections.OrderedDict()
            other = collections.Counter()
            for (ln, ev, comps) in mism:
                mine = [c for c in comps if self.prop in proc_attr(c)]
                for c in comps:
                    if self.prop not in proc_attr(c):
                        other["/".join(sorted(proc_attr(c))) + ":" + c] += 1
                if mine:
                    byseg.setdefault(segs.segment_of(ln), []).append((ln, ev, mine))
            for k, n in other.items():
                res.notes.append(f"{n} deviation(s) attributed to {k} (not to {self.prop})")
            for s0, items in list(byseg.items())[:3]:
                ln, ev, mine = items[0]
                evs = segs.lines(s0, ln)
                rp = os.path.join(vlib.ROOT, "replays", f"{self.prop}-proc-{vlib.sha(json.dumps(evs, sort_keys=True))}.json")
                json.dump({"property": self.prop, "family": self.FAMILY, "seed": ctx.seed, "tier": ctx.tier, "constants": kw,
                           "first_deviation": {"trace_line": ln, "event": ev, "components": mine},
                           "schedule": [{k: e.get(k) for k in ("p", "l", "c", "ok", "at")} for e in evs if e.get("ev") == "pstep"],
                           "failing_event": evs[-1]}, open(rp, "w"), indent=1)
                what = f"goroutine schedule (closer={closer}) step {evs[-1].get('i')} {evs[-1].get('p')}:{evs[-1].get('l')}: specification and implementation differ in {mine}"
                if "procStall" in mine:
                    what += f" - the specification enables this step but the goroutine was found at {evs[-1].get('at')!r} / did not reach its next gate"
                res.violations.append({"replay": rp, "what": what})
        res.coverage = {
            "states": states, "transitions": trans, "exhaustive": False,
            "traces_validated_against_impl": nseg, "evaluations": events, "distinct_nontrivial": nontriv,
            "rule": ("one case = one schedule of the application / sender / receiver goroutines and stream events generated by TLC from GribiClientProc_MC "
                     "(Cap = 5 as in the code, 7 Q calls, AwaitConverged, then Close / Reset / nothing) and replayed step by step through the scheduler gates "
                     "of the real client; non-trivial = the schedule contains a stream fault (failed Send, receive error, end of stream) and every "
                     "step the specification enables was taken by the implementation up to the end of the schedule"),
            "samples": samples or [["no sample"]], "driver": dict(tot), "model_checking": mcs,
        }
        res.assumptions = ["the stream is a stub: Send fails when the schedule says so, Recv returns what the schedule's environment steps delivered",
                           "which ready case a Go select takes cannot be forced: the outcome is logged and a schedule that assumed the other case is cut there",
                           "liveness (every call returns) is proved on the specification under weak fairness for the small instances listed; on the implementation it is observed per step (a step the specification enables must be taken within 10 s)"]
        return res

    def replay(self, ctx, path):
        raise Infra("goroutine schedules are replayed by re-running the check with the recorded seed")


for _p in ("C13", "C14"):
    REGISTRY[_p] = CompositeFamily(_p, [REGISTRY[_p], ProcFamily(_p)])


# ---------------------------------------------------------------------------
# RIB lock-grain family (C01 / C08 under concurrency): GribiRIBConc / _MC / Trace - a Flush of several network
# instances interleaved with installs; linearizability of the recorded histories

class LinFamily:
    FAMILY = "riblin"

    def __init__(self, prop):
        self.prop = prop

    def run(self, ctx):
        res = Result()
        quick = ctx.tier == "quick"
        ctx.build_vh()
        mcs, states, trans = [], 0, 0
        for progs in (("MC_Progs1",) if quick else ("MC_Progs1", "MC_Progs2")):
            cfg = (f"SPECIFICATION MCSpec\nCONSTANTS\n  FlushNIs <- MC_FlushNIs\n  Progs <- {progs}\n  HoldToEnd = TRUE\n"
                   "INVARIANTS Linearizable TypeOK\nCHECK_DEADLOCK FALSE\n")
            run = require_ok(ctx.tlc("GribiRIBConc_MC", None, name="mc-lin", workers=vlib.NCPU, cfg_text=cfg, timeout=3000, heap="16g"),
                             "model checking GribiRIBConc_MC")
            states += run.distinct
            trans += run.generated
            mcs.append({"module": "GribiRIBConc_MC", "constants": {"Progs": progs, "HoldToEnd": True}, "distinct_states": run.distinct,
                        "generated": run.generated, "secs": round(run.secs, 1)})
        trace = os.path.join(ctx.work, "lintrace.ndjson")
        p = ctx.run_vh(["lin-run", "-out", trace, "-seed", str(ctx.seed), "-random", str(60 if quick else 1500)])
        if p.returncode != 0:
            raise Infra("vh lin-run failed: " + p.stdout[-2000:] + p.stderr[-4000:])
        info = json.loads(p.stdout.strip().splitlines()[-1])
        cfg = 'SPECIFICATION LTSpec\nCONSTANTS\n  TraceFile = "trace.ndjson"\nPOSTCONDITION TraceAccepted\nCHECK_DEADLOCK FALSE\n'
        run = ctx.tlc("GribiRIBConcTrace", None, name="validate-lin", workers=1, cfg_text=cfg, extra_files={trace: "trace.ndjson"}, timeout=3000, heap="12g")
        matched, total, mism = parse_trace_report(run)
        if matched != total:
            raise Infra(f"trace validation stopped at line {matched + 1} of {total}\n" + run.tail())
        lines = [json.loads(x) for x in open(trace)]
        # open known findings (components KF:<id>): a KNOWN-FINDING line for the property that owns them, nothing for the others
        known = {k.get("id"): k for k in vlib.load_known() if k.get("status") == "open"}
        rest = []
        for m in mism:
            kf = [c[3:] for c in m[2] if c.startswith("KF:")]
            if kf and all(c.startswith("KF:") for c in m[2]) and all(i in known for i in kf):
                for i in kf:
                    if known[i].get("property") == self.prop:
                        res.known.append(f"{known[i]['line']} (1 occurrence(s) in this run)")
                continue
            rest.append(m)
        mism = rest
        if self.prop == "C07":
            mism = [m for m in mism if any(c.startswith("get") or c.startswith("linget") or c.startswith("linsnap") or c.startswith("lintwoget") for c in m[2])]
        elif self.prop == "C03":
            mism = [m for m in mism if any(c.startswith("ref") or c.startswith("linref") for c in m[2])]
        elif self.prop == "C16":
            mism = [m for m in mism if any(c.startswith("mirror") or c.startswith("linhook") for c in m[2])]
        elif self.prop in ("C01", "C08"):
            mism = [m for m in mism if not any(c.startswith("get") or c.startswith("ref") or c.startswith("mirror") for c in m[2])]
        for (ln, ev, comps) in mism[:5]:
            e = lines[ln - 1]
            rp = os.path.join(vlib.ROOT, "replays", f"{self.prop}-lin-{vlib.sha(json.dumps(e, sort_keys=True))}.json")
            json.dump({"property": self.prop, "family": self.FAMILY, "seed": ctx.seed, "components": comps, "history": e}, open(rp, "w"), indent=1)
            if ev == "linget":
                res.violations.append({"replay": rp, "what": f"Get while an installed {e['kind']} entry was being replaced {e['replaces']} times: {e['missing']} of {e['gets']} Gets did not return it, {e['dup']} returned it twice ({comps})"})
                continue
            if ev == "lintwoget":
                res.violations.append({"replay": rp, "what": f"two Gets of one instance in progress at the same time: A returned {e['gotA']} (its scope: {e['wantA']}), B returned {e['gotB']} (its scope: {e['wantB']}) {comps} {e['failed']}"})
                continue
            if ev == "linsnap":
                res.violations.append({"replay": rp, "what": f"a Get(ALL) in progress while {e['w1']} and then {e['w2']} were installed returned {sorted(set(e['got']) - set(e['base']))} on top of the base contents "
                                                             f"(missing: {sorted(set(e['base']) - set(e['got']))}): not the contents of any one moment ({comps}) {e['failed']}"})
                continue
            if ev == "linref":
                res.violations.append({"replay": rp, "what": f"DELETE of a referenced {e['what']} was answered OK while the entry referring to it was being re-sent ({e['deletes']} DELETEs, {e['replaces']} replaces): {comps}"})
                continue
            if "mirrorDiffersAtQuiescence" in comps:
                res.violations.append({"replay": rp, "what": f"after a Flush of {e['flushNIs']} interleaved with concurrent installs the fold of the post-change notifications {e.get('mirror')} differs from the installed entries {e.get('final')}"})
                continue
            what = ("a Flush of %s interleaved with concurrent installs: no order of the acknowledged calls that respects real time folds to the installed entries %s"
                    % (e["flushNIs"], e.get("final"))) if "notLinearizable" in comps else f"concurrent Flush / install scenario did not complete: {comps}"
            res.violations.append({"replay": rp, "what": what})
        res.coverage = {
            "states": states, "transitions": trans, "exhaustive": False, "traces_validated_against_impl": total, "evaluations": total,
            "distinct_nontrivial": info.get("with_overlap", 0),
            "rule": ("one case = one concurrent history of the real rib package: a Flush of 2-3 network instances paused at its first removal in a chosen instance "
                     "while 1-2 adder goroutines install next-hops in chosen instances, every call stamped at invocation and return; non-trivial = "
                     "at least one install was acknowledged while the Flush was paused; plus five Get-vs-replace scenarios (an installed IPv4 / IPv6 / "
                     "MPLS / group / next-hop entry replaced 400 times while Gets run back to back: every Get must return it exactly once) and two "
                     "delete-vs-replace scenarios (a group / prefix re-sent 400 times while the next-hops / group it refers to are DELETEd: every DELETE must be FAILED)"),
            "samples": [lines[0]] if lines else [["none"]], "driver": info, "model_checking": mcs,
        }
        res.assumptions = ["the pause of the Flush is produced by blocking the post-change hook for 15 ms; the verdict is taken from the stamped history, never from timing"]
        return res

    def replay(self, ctx, path):
        raise Infra("concurrent histories are re-recorded by re-running the check")


# C01 at the server: what is acknowledged on the stream = what the RIB installed (cascades across election terms included)
_c01_srv = ServerFamily("C01",
    mc={"quick": [dict(MaxMsgs=6, MaxOpen=2, HiVals=(0,), LoVals=(1, 2), OpShapes="chain", StampModes=("last",), AckModes=("RIB",))],
        "thorough": [dict(MaxMsgs=7, MaxOpen=2, HiVals=(0,), LoVals=(1, 2), OpShapes="chain", StampModes=("last",), AckModes=("RIB", "RIB_FIB"))]},
    sims={"quick": [(_S_SIM_OPS, 150, 400)], "thorough": [(_S_SIM_OPS, 3000, 400)]},
    exh={"quick": [], "thorough": []}, random_cfg=_rnd(["ops"], 60, 600))
REGISTRY["C01"] = CompositeFamily("C01", [REGISTRY["C01"], _c01_srv])

for _p in ("C01", "C08", "C07", "C03", "C16"):
    _old = REGISTRY[_p]
    REGISTRY[_p] = CompositeFamily(_p, (_old.parts if isinstance(_old, CompositeFamily) else [_old]) + [LinFamily(_p)])


# ---------------------------------------------------------------------------
# session-interleaving family (C04, C05, C11): GribiServerSched / _MC / Trace - the handlers of concurrent Modify
# sessions and a Flush caller interleaved at their gates; TLC-generated schedules replayed into the real server

def sched_cfg(Sess=("s1", "s2"), LoVals=(1,), MaxMsgs=3, MaxOpsPerReq=2, WithFlush=False, WithClose=False, Prefix="none", EmitOn=False, view=True):
    lines = ["SPECIFICATION MCSpec", "CONSTANTS", f"  Sess = {tlaset(Sess)}", f"  LoVals = {tlaset(LoVals)}", f"  MaxMsgs = {MaxMsgs}",
             f"  MaxOpsPerReq = {MaxOpsPerReq}", f"  WithFlush = {str(WithFlush).upper()}", f"  WithClose = {str(WithClose).upper()}",
             f"  Prefix = {q(Prefix)}", f"  EmitOn = {str(EmitOn).upper()}"]
    if EmitOn:
        lines.append("INVARIANTS Emit")
        if view:
            lines.append("VIEW View")
    else:
        lines += ["VIEW View", "INVARIANTS SchedQuiescent RepliesAtLeastAnnounced", "PROPERTIES SchedMonotone OnlyPrimarySnapshotWrites"]
    lines.append("CHECK_DEADLOCK FALSE")
    return "\n".join(lines) + "\n"


def sched_attr(comp):
    return {"schedCur": {"C05", "C04", "C11"}, "schedMaster": {"C05", "C04", "C11"}, "schedLast": {"C04", "C11"}, "schedSessions": {"C09", "C10", "C11"},
            "schedRib": {"C04", "C11", "C01"}, "schedReplies": {"C04", "C05", "C06", "C11", "C01"}, "schedFlushVerdict": {"C08", "C11"},
            "schedStreamOrder": {"C04", "C11", "C09"}, "schedViolationNotEnded": {"C09", "C10", "C11"}, "schedViolationStatus": {"C09"}, "schedFootprintLeft": {"C09", "C10"}, "schedStall": {"C11", "C10"}, "schedHang": {"C11", "C10"}, "schedNotEnabled": {"C11"}, "schedSetup": {"C11"}}.get(comp, set())


class SchedFamily:
    FAMILY = "sched"

    def __init__(self, prop):
        self.prop = prop

    def run(self, ctx):
        res = Result()
        quick = ctx.tier == "quick"
        ctx.build_vh()
        mcs, states, trans = [], 0, 0
        for kw in ([dict(LoVals=(1, 2), MaxMsgs=4, WithFlush=True, WithClose=True)] if quick else
                   [dict(LoVals=(1, 2), MaxMsgs=5, WithFlush=True, WithClose=True), dict(Sess=("s1", "s2", "s3"), LoVals=(1, 2), MaxMsgs=4, WithFlush=True),
                    dict(LoVals=(1,), MaxMsgs=4, Prefix="takeover", WithFlush=True)]):
            run = require_ok(ctx.tlc("GribiServerSched_MC", None, name="mc-sched", workers=vlib.NCPU, cfg_text=sched_cfg(**kw), timeout=3000, heap="24g"),
                             "model checking GribiServerSched_MC")
            states += run.distinct
            trans += run.generated
            mcs.append({"module": "GribiServerSched_MC", "constants": kw, "distinct_states": run.distinct, "generated": run.generated, "secs": round(run.secs, 1)})
        # schedules: every history of small instances (history kept in the fingerprint) + simulation of a rich one
        walks = []
        exh = ([dict(LoVals=(1,), MaxMsgs=3), dict(LoVals=(1,), MaxMsgs=2, Prefix="takeover"),
                dict(LoVals=(1, 2), MaxMsgs=3, WithFlush=True, MaxOpsPerReq=1, Sess=("s1",))] if quick else
               [dict(LoVals=(1, 2), MaxMsgs=3), dict(LoVals=(1,), MaxMsgs=4), dict(LoVals=(1,), MaxMsgs=3, Prefix="takeover"),
                dict(LoVals=(1,), MaxMsgs=3, WithFlush=True, MaxOpsPerReq=1)])
        for kw in exh:
            run = require_ok(ctx.tlc("GribiServerSched_MC", None, name="emit-sched", workers=1, cfg_text=sched_cfg(EmitOn=True, view=False, **kw), timeout=3000, heap="16g"),
                             "exhaustive schedule emission")
            walks += run.emitted()
        nexh = len(walks)
        for i, (kw, num) in enumerate([(dict(Sess=("s1", "s2", "s3"), LoVals=(1, 2, 3), MaxMsgs=7, WithFlush=True, WithClose=True), 400 if quick else 8000),
                                       (dict(LoVals=(1, 2), MaxMsgs=6, Prefix="takeover", WithFlush=True), 200 if quick else 4000)]):
            run = require_ok(ctx.tlc("GribiServerSched_MC", None, name="sim-sched", simulate=num, depth=200, seed=ctx.seed * 100 + i,
                                     cfg_text=sched_cfg(EmitOn=True, **kw), timeout=3000), "schedule simulation")
            walks += run.emitted()
        walks = list(dict.fromkeys(walks))
        wf = os.path.join(ctx.work, "swalks.txt")
        with open(wf, "w") as f:
            for w in walks:
                f.write("@@" + w + "\n")
        trace = os.path.join(ctx.work, "strace.ndjson")
        p = ctx.run_vh(["sched-run", "-in", wf, "-out", trace], timeout=3000)
        if p.returncode != 0:
            raise Infra("vh sched-run failed: " + p.stdout[-2000:] + p.stderr[-4000:])
        info = json.loads(p.stdout.strip().splitlines()[-1])
        cfg = 'SPECIFICATION STSpec\nCONSTANTS\n  TraceFile = "trace.ndjson"\nPOSTCONDITION TraceAccepted\nCHECK_DEADLOCK FALSE\n'
        run = ctx.tlc("GribiServerSchedTrace", None, name="validate-sched", workers=1, cfg_text=cfg, extra_files={trace: "trace.ndjson"}, timeout=3000, heap="12g")
        matched, total, mism = parse_trace_report(run)
        if matched != total:
            raise Infra(f"trace validation stopped at line {matched + 1} of {total}\n" + run.tail())
        segs = Segments(trace, '{"ev":"sstart"')
        byseg = collections.OrderedDict()
        other = collections.Counter()
        for (ln, ev, comps) in mism:
            mine = [c for c in comps if self.prop in sched_attr(c)]
            for c in comps:
                if self.prop not in sched_attr(c):
                    other["/".join(sorted(sched_attr(c))) + ":" + c] += 1
            if mine:
                byseg.setdefault(segs.segment_of(ln), []).append((ln, ev, mine))
        for k, n in other.items():
            res.notes.append(f"{n} deviation(s) attributed to {k} (not to {self.prop})")
        for s0, items in list(byseg.items())[:3]:
            ln, ev, mine = items[0]
            evs = segs.lines(s0, ln)
            rp = os.path.join(vlib.ROOT, "replays", f"{self.prop}-sched-{vlib.sha(json.dumps(evs, sort_keys=True))}.json")
            json.dump({"property": self.prop, "family": self.FAMILY, "seed": ctx.seed, "tier": ctx.tier,
                       "first_deviation": {"trace_line": ln, "event": ev, "components": mine},
                       "schedule": [{k: e.get(k) for k in ("a", "s", "id", "ops")} for e in evs if e.get("ev") == "sstep"],
                       "failing_event": evs[-1]}, open(rp, "w"), indent=1)
            if evs[-1].get("ev") == "sblock":
                e = evs[-1]
                res.violations.append({"replay": rp, "what": f"a protocol violation ({e.get('violation')}) sent while the write of an earlier answer was held up (the client had stopped reading): "
                                                             f"RPC ended: {e.get('returned')} with {e.get('code')!r}; a later session asking for another acknowledgement type: {e.get('later')}: {mine} {e.get('err')}"})
                continue
            if evs[-1].get("ev") == "spipe":
                e = evs[-1]
                res.violations.append({"replay": rp, "what": f"one stream, sent without waiting: {e.get('batch')} operations under the announced id, an operation stamped with the next id, then the announcement of that id - "
                                                             f"the early operation was answered {e.get('early')!r} (installed: {e.get('earlyInstalled')}), election reply {e.get('elec')}: {mine} {e.get('err')}"})
                continue
            res.violations.append({"replay": rp, "what": f"session interleaving, step {evs[-1].get('i')} ({evs[-1].get('a')} {evs[-1].get('s')}): specification and implementation differ in {mine}"})
        nontriv = 0
        sample = []
        with open(trace) as fh:
            inflight, hit = set(), False
            for line in fh:
                if line.startswith('{"ev":"sstart"'):
                    inflight, hit = set(), False
                    continue
                e = json.loads(line)
                if e.get("ev") != "sstep":
                    if hit:
                        nontriv += 1
                    continue
                a, sname = e["a"], e.get("s")
                if a in ("annbegin", "modbegin"):
                    if inflight - {sname}:
                        hit = True   # another handler is parked in the middle of its request
                    inflight.add(sname)
                elif a == "annend" or (a == "modop" and not e.get("left")):
                    pass
                if a == "annend":
                    inflight.discard(sname)
                if len(sample) < 14 and nontriv == 0:
                    sample.append({k: e.get(k) for k in ("a", "s", "id", "ops")})
        res.coverage = {
            "states": states, "transitions": trans, "exhaustive": False, "traces_validated_against_impl": len(segs.starts), "evaluations": total,
            "distinct_nontrivial": nontriv, "tlc_exhaustive_schedules": nexh, "tlc_emitted_schedules": len(walks),
            "rule": ("one case = one interleaving of the handlers of 2-3 Modify sessions (and a Flush caller) generated by TLC from GribiServerSched_MC and replayed "
                     "into one real server, one gate-to-gate segment per step; non-trivial = some request started while another session's handler was parked "
                     "in the middle of its own request"),
            "samples": [sample] if sample else [["none"]], "driver": info, "model_checking": mcs,
        }
        res.assumptions = ["sessions are negotiated (SINGLE_PRIMARY, PRESERVE, RIB ack) before the schedule starts; operations are next-hop ADDs in the default instance",
                           "gates are outside every lock: a parked handler holds no lock, so segments of different handlers cannot overlap in the replay"]
        return res

    def replay(self, ctx, path):
        raise Infra("session interleavings are replayed by re-running the check with the recorded seed")


class ElectionProofFamily:
    """C05 on the specification, unbounded in the number of announcements and in the ids: Apalache discharges the base case and the
    induction step of the inductive invariant of GribiElectionInd (a verdict about the design only; the binding is the other parts')."""
    FAMILY = "electionproof"

    def __init__(self, prop):
        self.prop = prop

    def run(self, ctx):
        res = Result()
        n = 3 if ctx.tier == "quick" else 6
        txt = open(os.path.join(vlib.SPEC, "GribiElectionInd.tla")).read().replace("Gen(6)", f"Gen({n})")
        recs = []
        for label, args in (("base", ["--cinit=CInit", "--init=Init", "--inv=IndInv", "--length=0"]),
                            ("step", ["--cinit=CInit", "--init=IndInit", "--inv=IndInv", "--length=1"])):
            ok, secs, tail = vlib.apalache(ctx, txt, "GribiElectionInd", args, "apalache-" + label)
            if not ok:
                raise Infra(f"GribiElectionInd: the {label} case of the inductive invariant does not hold (a defect of the specification, not a verdict about the code):\n" + tail)
            recs.append({"module": "GribiElectionInd", "tool": "apalache-mc 0.58", "case": label, "args": " ".join(args), "gen_bound": n, "secs": secs})
        res.coverage = {"states": 0, "transitions": 0, "traces_validated_against_impl": 0, "evaluations": 0, "distinct_nontrivial": 0,
                        "rule": "no case of the implementation: inductive invariant (ElecIsMax, PrimaryAnnouncedIt) of the election core discharged by Apalache "
                                f"for unbounded ids and any number of announcements, the induction step from an arbitrary state with at most {n} announced ids",
                        "samples": [], "proof_obligations": recs}
        res.assumptions = ["Apalache's Gen bound limits the number of distinct announced ids in the arbitrary pre-state of the induction step"]
        return res

    def replay(self, ctx, path):
        raise Infra("nothing to replay")


for _p in ("C04", "C05"):
    REGISTRY[_p] = CompositeFamily(_p, [REGISTRY[_p], SchedFamily(_p)] + ([ElectionProofFamily(_p)] if _p == "C05" else []))
# C08: the election gate of a Flush is decided once, whatever is announced while the Flush runs
REGISTRY["C08"] = CompositeFamily("C08", REGISTRY["C08"].parts + [SchedFamily("C08")])


# ---------------------------------------------------------------------------
# concurrency family (C11): GribiServerCS / GribiServerCS_MC / GribiServerCSTrace + race detector

class ConcFamily:
    FAMILY = "conc"

    def __init__(self, prop):
        self.prop = prop

    def run(self, ctx):
        res = Result()
        quick = ctx.tier == "quick"
        mc_cfg = ("SPECIFICATION MCSpec\nCONSTANTS\n  Sess = {\"s1\",\"s2\",\"s3\"}\n  HiVals = {0,1}\n  LoVals = {1,2}\n"
                  f"  MaxAnn = {1 if quick else 2}\nINVARIANTS QuiescentConsistent\nPROPERTIES Monotone\nCHECK_DEADLOCK FALSE\n")
        mc = require_ok(ctx.tlc("GribiServerCS_MC", None, name="mc", workers=vlib.NCPU, cfg_text=mc_cfg, timeout=3000, heap="24g"),
                        "model checking GribiServerCS_MC")
        trace = os.path.join(ctx.work, "trace.ndjson")
        runs = 60 if quick else 1200
        p = ctx.run_vh(["conc-run", "-runs", str(runs), "-seed", str(ctx.seed), "-out", trace], race=True, timeout=3000)
        races = p.stderr.count("WARNING: DATA RACE")
        if p.returncode not in (0, 66):
            crash = vlib.gribigo_panic(p.stderr)
            if crash:
                # the process running the server died with a panic raised inside gribigo: "never ... panics"
                rp = os.path.join(vlib.ROOT, "replays", f"C11-crash-{vlib.sha(crash[:3000])}.txt")
                open(rp, "w").write(crash)
                res.violations.append({"replay": rp, "what": "the process running concurrent sessions against one server died with a panic raised inside openconfig/gribigo: " + crash.splitlines()[0][:200]})
                res.coverage = {"states": mc.distinct, "transitions": mc.generated, "traces_validated_against_impl": 0, "evaluations": 0, "distinct_nontrivial": 0,
                                "samples": [["crashed"]], "rule": "crashed"}
                return res
            raise Infra(f"vh conc-run failed rc={p.returncode}: " + p.stdout[-1500:] + p.stderr[-3000:])
        info = {}
        for line in p.stdout.strip().splitlines():
            try:
                info = json.loads(line)
            except Exception:
                pass
        if races:
            rp = os.path.join(vlib.ROOT, "replays", f"C11-race-{vlib.sha(p.stderr[:4000])}.txt")
            open(rp, "w").write(p.stderr[:200000])
            res.violations.append({"replay": rp, "what": f"the race detector reported {races} data race(s) while concurrent sessions, Gets and Flushes ran against one server"})
        cfg = ('SPECIFICATION CSTSpec\nCONSTANTS\n  TraceFile = "trace.ndjson"\nPOSTCONDITION TraceAccepted\nCHECK_DEADLOCK FALSE\n')
        run = ctx.tlc("GribiServerCSTrace", None, name="validate", workers=1, cfg_text=cfg, extra_files={trace: "trace.ndjson"}, timeout=3000, heap="12g")
        matched, total, mism = parse_trace_report(run)
        if matched != total:
            raise Infra(f"trace validation stopped at line {matched + 1} of {total}\n" + run.tail())
        segs = Segments(trace, '{"ev":"concstart"')
        byseg = {}
        for (ln, ev, comps) in mism:
            byseg.setdefault(segs.segment_of(ln), []).append((ln, ev, comps))
        for s0, items in list(byseg.items())[:5]:
            ln, ev, comps = items[0]
            evs = segs.lines(s0, ln)
            rp = os.path.join(vlib.ROOT, "replays", f"C11-{vlib.sha(json.dumps(evs[-1], sort_keys=True, default=str))}.json")
            json.dump({"property": "C11", "family": "conc", "seed": ctx.seed, "first_deviation": {"trace_line": ln, "event": ev, "components": comps},
                       "events": [strip_state(e) for e in evs[-60:]]}, open(rp, "w"), indent=1)
            res.violations.append({"replay": rp, "what": f"{ev} at trace line {ln}: {comps}"})
        nseg = len(segs.starts)
        sample = [strip_state(e) for e in segs.lines(1, 14)]
        nontriv = 0
        with open(trace) as fh:
            cas = 0
            for line in fh:
                if line.startswith('{"ev":"concstart"'):
                    cas = 0
                elif '"ev":"elecCAS"' in line:
                    cas += 1
                    if cas == 3:
                        nontriv += 1
        res.coverage = {
            "states": mc.distinct, "transitions": mc.generated, "traces_validated_against_impl": nseg,
            "evaluations": total, "distinct_nontrivial": nontriv,
            "rule": "one case = one concurrent scenario (2-4 Modify sessions on disjoint key ranges, Get readers, optionally a Flush caller) against one real server built with -race; non-trivial = at least three compare-and-set steps of different announcements interleaved in it; every scenario has its own seed",
            "samples": [sample], "data_races_reported": races, "driver": info, "deviations_reported": len(mism),
            "model_checking": [{"module": "GribiServerCS_MC", "distinct_states": mc.distinct, "generated": mc.generated, "secs": round(mc.secs, 1)}],
        }
        res.assumptions = ["data races are observed through Go's race detector inside the conformance harness (DESIGN 7); schedules are those the Go scheduler produced in this run",
                           "hook events are ordered by a sequence number taken inside the lock that protects the changed state"]
        return res

    def replay(self, ctx, path):
        raise Infra("concurrent scenarios are re-run with ./check C11 --seed <seed>")


REGISTRY["C11"] = CompositeFamily("C11", [ConcFamily("C11"), SchedFamily("C11"), LinFamily("C11")])


# ---------------------------------------------------------------------------
# compliance family (C19): the suite on one long-lived server in permuted orders (verdicts + wire trace
# validated against GribiServer), and a catalogue of single-requirement faulty servers

class CompFamily:
    FAMILY = "compliance"

    def __init__(self, prop):
        self.prop = prop

    def validate(self, ctx, trace, name):
        cfg = ('SPECIFICATION STraceSpec\nCONSTANTS\n  DefaultNI = "DEFAULT"\n  TraceFile = "trace.ndjson"\n'
               'POSTCONDITION TraceAccepted\nCHECK_DEADLOCK FALSE\n')
        run = ctx.tlc("GribiServerTrace", None, name=name, workers=1, cfg_text=cfg, extra_files={trace: "trace.ndjson"}, timeout=3000, heap="12g")
        matched, total, mism = parse_trace_report(run)
        if matched != total:
            raise Infra(f"trace validation stopped at line {matched + 1} of {total}\n" + run.tail())
        return total, mism

    @staticmethod
    def tests_of(trace):
        """[(name, first_line, last_line, event)] per test of a recorded suite run."""
        out, begin, name = [], None, None
        with open(trace) as fh:
            for i, line in enumerate(fh, 1):
                if line.startswith('{"ev":"ctestbegin"'):
                    begin, name = i, json.loads(line)["name"]
                elif line.startswith('{"ev":"ctest"'):
                    out.append((name, begin, i, json.loads(line)))
        return out

    def run(self, ctx):
        res = Result()
        ctx.build_vh()
        quick = ctx.tier == "quick"
        mc = require_ok(ctx.tlc("GribiServer_MC", None, name="mc", workers=vlib.NCPU, timeout=3000, heap="24g",
                                cfg_text=srv_cfg(MaxMsgs=5 if quick else 6, MaxOpen=2, HiVals=(0, 1), LoVals=(1, 2), WithFlushRPC=True, AckModes=("RIB", "RIB_FIB"))),
                        "model checking GribiServer_MC")
        rng = random.Random(ctx.seed)
        names = [("DEFAULT", "NON-DEFAULT-VRF"), ("main", "blue"), ("default", "DEFAULT-2"), ("DEFAULT", "vrf/1")]
        def perm():
            return (rng.randrange(1, 10**6), rng.choice([1, 7, 1000, 2**20, 2**29]), *rng.choice(names))
        def perm_with(nm):
            return (rng.randrange(1, 10**6), rng.choice([1, 7, 1000, 2**20, 2**29]), *nm)
        # quick: one permutation under the usual names and one under a default instance that is not called DEFAULT
        perms = [perm_with(names[0]), perm_with(rng.choice(names[1:3]))] if quick else [(0, 1, *names[0])] + [perm_with(n_) for n_ in names[1:]] + [perm() for _ in range(4)]
        perms = [(s_, b_, d_, v_) for (s_, b_, d_, v_) in perms]
        events = segs = nontrivial = 0
        samples = []
        ignored = 0
        leakers = {}
        readers = set()
        all_tests = {}

        def judge_suite(trace, label, seed, base, dn, vn):
            nonlocal events, segs, nontrivial, ignored
            total, mism = self.validate(ctx, trace, f"validate-{label}")
            events += total
            tests = self.tests_of(trace)
            segs += len(tests)
            order = [t[0] for t in tests]
            overlapped = [(a, b) for (_, a, b, e) in tests if e.get("overlap")]
            gets = set()
            with open(trace) as fh:
                for i, line in enumerate(fh, 1):
                    if '"ev":"get"' in line:
                        gets.add(i)
            for idx, (name, a, b, e) in enumerate(tests):
                all_tests[name] = e.get("nofwd", False)
                if any(a <= g <= b for g in gets):
                    readers.add(name)
                if e.get("pass") and not e.get("skipped"):
                    nontrivial += 1
                    if e.get("left", 0) > 0:
                        leakers.setdefault(name, (e["left"], e.get("nofwd", False)))
                if not e.get("pass") and not e.get("skipped"):
                    rp = os.path.join(vlib.ROOT, "replays", f"C19-{vlib.sha(name + label + str(seed))}.json")
                    json.dump({"property": "C19", "family": "compliance", "test": name, "run": label, "permutation_seed": seed, "election_base": base,
                               "default_ni": dn, "vrf": vn, "ran_before": order[:idx], "msg": e.get("msg")}, open(rp, "w"), indent=1)
                    where = "as the first and only test of a run" if label == "first-of-run" else f"after {order[idx-1] if idx else 'nothing'!r}"
                    res.violations.append({"replay": rp, "what": f"compliance test {name!r} failed against the conformant reference server in run {label} ({where}; election base {base}, instances {dn}/{vn}): {e.get('msg')}"})
            other = collections.Counter()
            for (ln, ev, comps) in mism:
                if any(a <= ln <= b for (a, b) in overlapped):
                    ignored += 1
                    continue
                for c in comps:
                    if c == "compTestFailed" or c.startswith("KF:"):
                        continue
                    owners = srv_attr(c, ev, {})
                    other[("/".join(sorted(owners)) or "unattributed") + ":" + c] += 1
            for kk, n in other.items():
                res.notes.append(f"wire trace of conformant run {label} deviates from GribiServer: {n} x {kk}")
            return order

        def run_comp(args, limit):
            """A suite run that stalls (seen once in some forty runs: a compliance test waiting for ever on a loaded machine) is
            repeated from scratch; the goroutine dump of the stalled run is kept. A run that stalls three times is no verdict."""
            for attempt in range(3):
                try:
                    return ctx.run_vh(args, watchdog=limit if quick else 4 * limit)
                except vlib.VhStuck as e:
                    res.notes.append(f"driver run repeated: {e}")
                    last = e
            raise last

        for k, (seed, base, dn, vn) in enumerate(perms):
            trace = os.path.join(ctx.work, f"suite{k}.ndjson")
            p = run_comp(["comp-run", "-seed", str(seed), "-base", str(base), "-defni", dn, "-vrf", vn, "-out", trace], 420)
            if p.returncode != 0:
                raise Infra("vh comp-run failed: " + p.stdout[-1500:] + p.stderr[-3000:])
            order = judge_suite(trace, f"suite{k}", seed, base, dn, vn)
            if len(samples) < 2:
                samples.append({"permutation_seed": seed, "election_base": base, "default_ni": dn, "vrf": vn, "first_tests": order[:6]})
        # every test as the first and only test of a run with the default starting election id (quick: the tests that
        # deal with election ids and flushes, where the suite's id arithmetic lives)
        trace = os.path.join(ctx.work, "first.ndjson")
        args = ["comp-run", "-each", "-base", "1", "-out", trace] + (["-only", "lection|Flush|master|primary"] if quick else [])
        p = run_comp(args, 900)
        if p.returncode != 0:
            raise Infra("vh comp-run -each failed: " + p.stdout[-1500:] + p.stderr[-3000:])
        first_order = judge_suite(trace, "first-of-run", 0, 1, "DEFAULT", "NON-DEFAULT-VRF")
        # directed orders: a test that leaves entries behind is run right before every other test of its server
        # (tests that read the RIB back first); nothing to do when every test cleans up
        directed = []
        for li, (lname, (left, nofwd)) in enumerate(sorted(leakers.items())):
            targets = [t for t in sorted(all_tests) if t != lname and all_tests[t] == nofwd]
            targets.sort(key=lambda t: (t not in readers, vlib.sha(t + str(ctx.seed))))
            of = os.path.join(ctx.work, f"after{li}.json")
            json.dump([lname] + targets, open(of, "w"))
            trace = os.path.join(ctx.work, f"after{li}.ndjson")
            args = ["comp-run", "-order", of, "-after", lname, "-base", "11", "-out", trace]
            if quick:
                args += ["-budget", "240s"]
            p = run_comp(args, 900)
            if p.returncode != 0:
                raise Infra("vh comp-run -after failed: " + p.stdout[-1500:] + p.stderr[-3000:])
            order = judge_suite(trace, f"after{li}", 0, 11, "DEFAULT", "NON-DEFAULT-VRF")
            directed.append({"leaves_entries": lname, "entries_left": left, "followers_run": len([t for t in order if t != lname])})
        # the fault catalogue
        cmap = json.load(open(os.path.join(vlib.SPEC, "compliance_map.json")))["faults"]
        faults = {}
        for fault, spec in cmap.items():
            names = spec["quick"] if quick else spec["tests"]
            flagged, seen_dev = [], False
            for j, name in enumerate(names):
                # a test that draws part of its input at random is repeated on fresh servers until it gives the required verdict
                for attempt in range(spec.get("repeat", 1)):
                    trace = os.path.join(ctx.work, f"fault-{fault}-{j}.ndjson")
                    p = run_comp(["comp-run", "-fault", fault, "-exact", name, "-base", "5", "-out", trace], 300)
                    if p.returncode != 0:
                        raise Infra(f"vh comp-run -fault {fault} failed: " + p.stderr[-2000:])
                    tests = self.tests_of(trace)
                    if len(tests) != 1:
                        raise Infra(f"fault run {fault}/{name}: expected one test, got {len(tests)}")
                    if spec.get("probe"):
                        # the wrapper's fault cannot show in the wire trace of a test that happens not to exercise it: the
                        # driver probes the wrapped server directly
                        if json.loads(p.stdout.strip().splitlines()[-1]).get("probe_faulty"):
                            seen_dev = True
                    if not tests[0][3]["pass"]:
                        break
                total, mism = self.validate(ctx, trace, f"validate-{fault}-{j}")
                events += total
                segs += 1
                comps = {c for (_, _, cs) in mism for c in cs}
                if comps & set(spec["components"]):
                    seen_dev = True
                e = tests[0][3]
                flagged.append({"test": name, "failed_as_required": not e["pass"], "spec_deviations": sorted(comps)})
                if e["pass"]:
                    rp = os.path.join(vlib.ROOT, "replays", f"C19-{fault}-{vlib.sha(name)}.json")
                    json.dump({"property": "C19", "family": "compliance", "fault": fault, "requirement": spec["requirement"], "test": name,
                               "spec_deviations": sorted(comps), "rerun": f"harness vh comp-run -fault {fault} -exact {name!r}"}, open(rp, "w"), indent=1)
                    res.violations.append({"replay": rp, "what": f"test {name!r} PASSES against the faulty server {fault!r} (requirement: {spec['requirement']})"})
                else:
                    nontrivial += 1
            if not seen_dev:
                raise Infra(f"fault wrapper {fault}: TLC found none of the deviations {spec['components']} in its wire traces - the wrapper is not faulty as intended")
            faults[fault] = flagged
        res.coverage = {
            "states": mc.distinct, "transitions": mc.generated, "traces_validated_against_impl": segs, "evaluations": events,
            "distinct_nontrivial": nontrivial,
            "rule": "one case = one compliance test executed (in a permuted suite on one long-lived conformant server, or alone against one faulty wrapper) with its wire trace validated by TLC against GribiServer; non-trivial = the verdict is the required one (pass on the conformant server / fail against the wrapper) for a test that was not skipped",
            "samples": samples + [{"fault": f, "result": v[:2]} for f, v in list(faults.items())[:2]],
            "permutations": [{"seed": s_, "election_base": b_, "default_ni": d_, "vrf": v_} for (s_, b_, d_, v_) in perms],
            "directed_orders_after_tests_that_leave_entries": directed, "fault_catalogue": faults,
            "mismatches_ignored_in_tests_with_overlapping_clients": ignored,
        }
        res.assumptions = ["a default network instance with another name is obtained by translating names at the wire of the reference server (which hard-wires DEFAULT); a literal DEFAULT then names no instance",
                           "tests that run two clients at the same time are not validated at message grain (counted above)",
                           "permutations are sampled, not enumerated"]
        return res

    def replay(self, ctx, path):
        raise Infra("see the 'rerun' field of the replay file")


REGISTRY["C19"] = CompFamily("C19")


# ---------------------------------------------------------------------------
# RIB critical-section family (C02 / C03 / C06 / C08 / C11 under overlapping RIB calls): GribiRIBCS / _MC / Trace - the
# gate-to-gate segments of concurrent AddEntry / DeleteEntry / Flush / AddNetworkInstance calls, every interleaving

def ribcs_cfg(Scns, Serial=False, EmitOn=False, view=True, inv=True):
    lines = ["SPECIFICATION MCSpec", "CONSTANTS", '  NIs = {"DEFAULT", "vrf1"}', f"  Serial = {str(Serial).upper()}",
             f"  Scns <- {Scns}" if isinstance(Scns, str) else "  Scns = {" + ", ".join(str(s) for s in Scns) + "}", f"  EmitOn = {str(EmitOn).upper()}"]
    if view and not EmitOn:
        lines.append("VIEW View")
    if inv:
        lines.append("INVARIANTS QuiescentConsistent")
    if EmitOn:
        lines.append("INVARIANTS Emit")
    lines.append("CHECK_DEADLOCK FALSE")
    return "\n".join(lines) + "\n"


def ribcs_attr(comp):
    return {"ribcsTables": {"C01", "C02", "C11"}, "ribcsCounters": {"C03", "C11"}, "ribcsPending": {"C02", "C06", "C11"},
            "ribcsResult": {"C06", "C02", "C11"}, "ribcsReturn": {"C06", "C11"}, "ribcsGate": {"C11", "C08"}, "ribcsNotEnabled": {"C11", "C02", "C03", "C06"},
            "ribcsHang": {"C11", "C08", "C10"}, "ribcsFlushError": {"C08", "C11"}}.get(comp, set())


class RibCSFamily:
    FAMILY = "ribcs"
    # scenarios whose interleavings are few enough to be replayed one by one at the quick tier
    SMALL = (1, 2, 4, 5, 6, 8, 9, 12, 13)
    LARGE = (3, 7, 10, 11, 14, 15)

    def __init__(self, prop):
        self.prop = prop

    def run(self, ctx):
        res = Result()
        quick = ctx.tier == "quick"
        ctx.build_vh()
        mcs = []
        # the specification itself: with calls that do not overlap every invariant holds in every scenario ...
        run = require_ok(ctx.tlc("GribiRIBCS_MC", None, name="mc-ribcs-serial", workers=vlib.NCPU, cfg_text=ribcs_cfg("AllScns", Serial=True), timeout=3000, heap="16g"),
                         "model checking GribiRIBCS_MC (Serial)")
        states, trans = run.distinct, run.generated
        mcs.append({"module": "GribiRIBCS_MC", "constants": {"Scns": "AllScns (15 + 144 pairs)", "Serial": True}, "invariant": "QuiescentConsistent holds",
                    "distinct_states": run.distinct, "generated": run.generated, "secs": round(run.secs, 1)})
        # ... and at the code's grain of atomicity TLC finds the interleavings that break them (the open findings)
        run = ctx.tlc("GribiRIBCS_MC", None, name="mc-ribcs-conc", workers=vlib.NCPU, cfg_text=ribcs_cfg(self.SMALL, Serial=False), timeout=3000, heap="16g")
        if run.rc not in (0, 12) or (run.error and "Invariant" not in (run.error or "") and not run.violated):
            raise Infra(f"model checking GribiRIBCS_MC (overlapping calls): rc={run.rc} error={run.error}\n{run.tail()}")
        mcs.append({"module": "GribiRIBCS_MC", "constants": {"Scns": list(self.SMALL), "Serial": False},
                    "invariant": "QuiescentConsistent violated (expected: the code's critical sections are smaller than a call)" if run.violated else "QuiescentConsistent holds",
                    "distinct_states": run.distinct, "generated": run.generated, "secs": round(run.secs, 1)})
        # schedules
        walks = []
        run = require_ok(ctx.tlc("GribiRIBCS_MC", None, name="emit-ribcs", workers=1, cfg_text=ribcs_cfg(self.SMALL, EmitOn=True, inv=False), timeout=3000, heap="16g"),
                         "exhaustive schedule emission (GribiRIBCS_MC)")
        walks += run.emitted()
        nexh = len(walks)
        for i, (scns, num) in enumerate([(self.LARGE, 800 if quick else 15000), ("PairScns", 1500 if quick else 60000)]):
            run = require_ok(ctx.tlc("GribiRIBCS_MC", None, name="sim-ribcs", simulate=num, depth=100, seed=ctx.seed * 100 + i,
                                     cfg_text=ribcs_cfg(scns, EmitOn=True, inv=False), timeout=3000), "schedule simulation (GribiRIBCS_MC)")
            walks += run.emitted()
        walks = list(dict.fromkeys(walks))
        wf = os.path.join(ctx.work, "cswalks.txt")
        with open(wf, "w") as f:
            for w in walks:
                f.write("@@" + w + "\n")
        trace = os.path.join(ctx.work, "cstrace.ndjson")
        p = ctx.run_vh(["ribcs-run", "-in", wf, "-out", trace], timeout=3000)
        if p.returncode != 0:
            raise Infra("vh ribcs-run failed: " + p.stdout[-2000:] + p.stderr[-4000:])
        info = json.loads(p.stdout.strip().splitlines()[-1])
        cfg = ('SPECIFICATION CTSpec\nCONSTANTS\n  NIs = {"DEFAULT", "vrf1"}\n  Serial = FALSE\n  TraceFile = "trace.ndjson"\n'
               'POSTCONDITION TraceAccepted\nCHECK_DEADLOCK FALSE\n')
        run = ctx.tlc("GribiRIBCSTrace", None, name="validate-ribcs", workers=1, cfg_text=cfg, extra_files={trace: "trace.ndjson"}, timeout=3000, heap="12g")
        matched, total, mism = parse_trace_report(run)
        if matched != total:
            raise Infra(f"trace validation stopped at line {matched + 1} of {total}\n" + run.tail())
        segs = Segments(trace, '{"err":"","ev":"cstart"')
        if not segs.starts:
            raise Infra("no walk was replayed")
        known = {k.get("id"): k for k in vlib.load_known() if k.get("status") == "open"}
        kfcount = collections.Counter()
        byseg = collections.OrderedDict()
        other = collections.Counter()
        unreal = 0
        for (ln, ev, comps) in mism:
            if any(c in ("ribcsSlow", "ribcsSetup") for c in comps):
                raise Infra(f"replay inconclusive at trace line {ln}: {comps} (slow machine or set-up failure)")
            if comps == ["ribcsStall"]:
                unreal += 1      # a step that cannot run while the others are parked; a hang shows at the end of the walk
                continue
            kf = [c[3:] for c in comps if c.startswith("KF:")]
            rest = [c for c in comps if not c.startswith("KF:") and c != "ribcsStall"]
            for i in kf:
                if i in known:
                    if known[i].get("property") == self.prop:
                        kfcount[i] += 1
                else:
                    rest.append("unlisted:" + i)
            mine = [c for c in rest if c.startswith("unlisted:") or self.prop in ribcs_attr(c)]
            for c in rest:
                if c not in mine:
                    other["/".join(sorted(ribcs_attr(c))) + ":" + c] += 1
            if mine:
                byseg.setdefault(segs.segment_of(ln), []).append((ln, ev, mine))
        if unreal > max(5, len(segs.starts) // 20):
            raise Infra(f"{unreal} of {len(segs.starts)} schedules cannot be realised on this code although nothing hangs: the lock structure GribiRIBCS describes is not the code's")
        for i, n in kfcount.items():
            res.known.append(f"{known[i]['line']} ({n} occurrence(s) in this run)")
        for k, n in other.items():
            res.notes.append(f"{n} deviation(s) attributed to {k} (not to {self.prop})")
        for s0, items in list(byseg.items())[:3]:
            ln, ev, mine = items[0]
            evs = segs.lines(s0, ln)
            if ev == "csrv":
                e = evs[-1]
                rp = os.path.join(vlib.ROOT, "replays", f"{self.prop}-ribcs-{vlib.sha(json.dumps(e, sort_keys=True))}.json")
                json.dump({"property": self.prop, "family": self.FAMILY, "seed": ctx.seed, "tier": ctx.tier, "components": mine, "event": e}, open(rp, "w"), indent=1)
                res.violations.append({"replay": rp, "what": f"two Modify sessions whose RIB calls overlap (s1's handler parked at add.checked while s2 takes over and deletes the group): {mine}; {e.get('err')} {e.get('blocked')}"})
                continue
            rp = os.path.join(vlib.ROOT, "replays", f"{self.prop}-ribcs-{vlib.sha(json.dumps(evs, sort_keys=True))}.json")
            json.dump({"property": self.prop, "family": self.FAMILY, "seed": ctx.seed, "tier": ctx.tier,
                       "first_deviation": {"trace_line": ln, "event": ev, "components": mine},
                       "scenario": {k: evs[0].get(k) for k in ("scn", "init", "progs", "fprog")},
                       "schedule": [{k: e.get(k) for k in ("c", "a", "site", "gid")} for e in evs if e.get("ev") == "cstep"],
                       "failing_event": evs[-1]}, open(rp, "w"), indent=1)
            last = evs[-1]
            res.violations.append({"replay": rp, "what": f"overlapping RIB calls, scenario {evs[0].get('scn')}, step {last.get('i', 'end')} ({last.get('a', last.get('ev'))} {last.get('c', '')}): "
                                                         f"specification and implementation differ in {mine}" + (f"; left blocked: {last.get('left')}" if last.get("left") else "")})
        anom = collections.Counter()
        nontriv = 0
        sample = []
        via_server = None
        with open(trace) as fh:
            seen_callers, hit = set(), False
            for line in fh:
                e = json.loads(line)
                if e["ev"] == "cstart":
                    inflight, hit = set(), False
                elif e["ev"] == "cstep":
                    if not e["returned"]:
                        if inflight - {e["c"]}:
                            hit = True
                        inflight.add(e["c"])
                    else:
                        inflight.discard(e["c"])
                    if len(sample) < 12 and nontriv == 0:
                        sample.append({k: e.get(k) for k in ("c", "a", "site")})
                elif e["ev"] == "csrv":
                    via_server = {k: e.get(k) for k in ("ok", "acks1", "acks2", "err")}
                elif e["ev"] == "cend":
                    if hit:
                        nontriv += 1
                    for a in e.get("anom") or []:
                        anom[a] += 1
        res.coverage = {
            "states": states, "transitions": trans, "exhaustive": False, "traces_validated_against_impl": len(segs.starts), "evaluations": total,
            "distinct_nontrivial": nontriv, "tlc_exhaustive_schedules": nexh, "tlc_emitted_schedules": len(walks),
            "schedules_ending_in_a_state_the_specification_itself_flags": dict(anom), "schedules_not_realisable": unreal,
            "dangling_entry_scenario_through_two_modify_sessions": via_server,
            "rule": ("one case = one interleaving of the gate-to-gate segments of 2-3 goroutines calling AddEntry / DeleteEntry / Flush / AddNetworkInstance on one real "
                     "rib.RIB, generated by TLC from GribiRIBCS_MC and replayed through the gates of rib/rib.go; after every segment the tables, reference counters, held "
                     "operations, gate reached and call result are compared with the specification; non-trivial = some call ran a segment while another was parked inside its own call"),
            "samples": [sample] if sample else [["none"]], "driver": info, "model_checking": mcs,
        }
        res.assumptions = ["entries are reduced to what resolution and deletion protection read (keys and references); payloads are fixed",
                           "a goroutine parked at a gate holds no lock except the Flush caller (the locks of the instances it has emptied); where a schedule asks a goroutine to take a "
                           "lock the specification says is free and it cannot, the step is recorded as not realisable and only a goroutine still blocked after every gate was opened counts as a hang",
                           "the order in which the code retries held operations (map order) is the code's choice: a walk is cut where it departs from the schedule's assumption"]
        return res

    def replay(self, ctx, path):
        raise Infra("overlapping RIB calls are replayed by re-running the check with the recorded seed")


for _p in ("C02", "C03", "C06", "C11"):
    _old = REGISTRY[_p]
    REGISTRY[_p] = CompositeFamily(_p, (_old.parts if isinstance(_old, CompositeFamily) else [_old]) + [RibCSFamily(_p)])
REGISTRY["C08"] = CompositeFamily("C08", REGISTRY["C08"].parts + [RibCSFamily("C08")])


# ---------------------------------------------------------------------------
# Directed histories added to the TLC-emitted ones (shapes the bounded alphabets do not reach)

def _op(id, ni, typ, kind, key, nhs=(), g="", gni="", pl="a", eid=(0, 1), noeid=False):
    return {"id": id, "ni": ni, "typ": typ, "kind": kind, "key": str(key), "pl": "" if typ == "DELETE" else pl, "nhs": [str(x) for x in nhs], "bk": "",
            "g": str(g), "gni": gni, "bad": "", "eid": list(eid), "noeid": noeid}


def c03_directed(ctx):
    """A group re-sent with a member list that repeats an index: the members it drops lose their reference although the
    list is as long as the old member set (and the other way round), with both kinds of replace; then every next-hop
    and the group are deleted."""
    out = []
    for typ in ("ADD", "REPLACE"):
        for old, new in (((1, 2), (1, 1)), ((1, 2), (2, 2)), ((1, 2, 3), (1, 1, 2)), ((1, 2, 3), (3, 3, 3)), ((1, 1), (1, 2)), ((1, 2), (2, 1)), ((1, 2), (1, 3))):
            for ni in ("DEFAULT", "vrf1"):
                w = [{"a": "reset", "nis": ["DEFAULT", "vrf1"], "fwd": True}]
                oid = 0
                for k in (1, 2, 3):
                    oid += 1
                    w.append({"a": "op", "op": _op(oid, ni, "ADD", "nh", k, noeid=True)})
                w.append({"a": "op", "op": _op(10, ni, "ADD", "nhg", 1, nhs=old, noeid=True)})
                w.append({"a": "op", "op": _op(11, ni, typ, "nhg", 1, nhs=new, pl="b", noeid=True)})
                oid = 20
                for k in (1, 2, 3):
                    oid += 1
                    w.append({"a": "op", "op": _op(oid, ni, "DELETE", "nh", k, noeid=True)})
                w.append({"a": "op", "op": _op(30, ni, "DELETE", "nhg", 1, noeid=True)})
                for k in (1, 2, 3):
                    oid += 1
                    w.append({"a": "op", "op": _op(oid, ni, "DELETE", "nh", k, noeid=True)})
                out.append(json.dumps(w))
    for kind in ("v4", "v6", "mpls"):
        # a DELETE (with a payload naming group 1) of a key that is not installed must not release a reference of group 1,
        # which another installed entry still holds
        w = [{"a": "reset", "nis": ["DEFAULT", "vrf1"], "fwd": True},
             {"a": "op", "op": _op(1, "DEFAULT", "ADD", "nh", 1, noeid=True)}, {"a": "op", "op": _op(2, "DEFAULT", "ADD", "nhg", 1, nhs=(1,), noeid=True)},
             {"a": "op", "op": _op(3, "DEFAULT", "ADD", kind, "k2", g=1, noeid=True)},
             {"a": "op", "op": _op(4, "DEFAULT", "DELETE", kind, "k4", g=1, noeid=True)}, {"a": "op", "op": _op(5, "DEFAULT", "DELETE", kind, "k4", g=1, noeid=True)},
             {"a": "op", "op": _op(6, "DEFAULT", "DELETE", "nhg", 1, noeid=True)}, {"a": "op", "op": _op(7, "DEFAULT", "DELETE", "nh", 1, noeid=True)},
             {"a": "op", "op": _op(8, "DEFAULT", "DELETE", kind, "k2", g=1, noeid=True)}, {"a": "op", "op": _op(9, "DEFAULT", "DELETE", "nhg", 1, noeid=True)}]
        out.append(json.dumps(w))
        # a group that a Flush of its instance removed while an entry of another instance still names it: its DELETE (a key
        # that is not installed) succeeds, and so does the DELETE of its former member
        w = [{"a": "reset", "nis": ["DEFAULT", "vrf1"], "fwd": True},
             {"a": "op", "op": _op(1, "DEFAULT", "ADD", "nh", 1, noeid=True)}, {"a": "op", "op": _op(2, "DEFAULT", "ADD", "nhg", 1, nhs=(1,), noeid=True)},
             {"a": "op", "op": _op(3, "vrf1", "ADD", kind, "k2", g=1, gni="DEFAULT", noeid=True)},
             {"a": "flush", "nis": ["DEFAULT"]},
             {"a": "op", "op": _op(4, "DEFAULT", "DELETE", "nhg", 1, noeid=True)}, {"a": "op", "op": _op(5, "DEFAULT", "DELETE", "nh", 1, noeid=True)},
             {"a": "op", "op": _op(6, "DEFAULT", "ADD", "nh", 1, noeid=True)}, {"a": "op", "op": _op(7, "DEFAULT", "ADD", "nhg", 1, nhs=(1,), noeid=True)},
             {"a": "op", "op": _op(8, "DEFAULT", "DELETE", "nhg", 1, noeid=True)}, {"a": "op", "op": _op(9, "vrf1", "DELETE", kind, "k2", noeid=True)},
             {"a": "op", "op": _op(10, "DEFAULT", "DELETE", "nhg", 1, noeid=True)}]
        out.append(json.dumps(w))
    return out


def c06_directed(ctx):
    """Held operations that FAIL when they are retried, with several other held operations resolved by the same install
    (nested retries): an explicit REPLACE held on a missing group, whose target is deleted while it is held."""
    out = []
    for ack in ("RIB", "RIB_FIB"):
        for ngroups in (3, 6, 6):
            w = [{"a": "sreset", "nis": ["DEFAULT", "vrf1"], "fwd": True}, {"a": "open", "s": "s1"},
                 _msg("s1", {"k": "params", "red": "SINGLE_PRIMARY", "per": "PRESERVE", "ack": ack}), _msg("s1", {"k": "elec", "id": [0, 1]}),
                 _msg("s1", {"k": "ops", "ops": [_op(1, "DEFAULT", "ADD", "nh", 9), _op(2, "DEFAULT", "ADD", "nhg", 9, nhs=(9,)), _op(3, "DEFAULT", "ADD", "v4", "k1", g=9)]}),
                 _msg("s1", {"k": "ops", "ops": [_op(4, "DEFAULT", "REPLACE", "v4", "k1", g=100, pl="b")]}),
                 _msg("s1", {"k": "ops", "ops": [_op(10 + i, "DEFAULT", "ADD", "nhg", 100 + i, nhs=(5,)) for i in range(ngroups)]}),
                 _msg("s1", {"k": "ops", "ops": [_op(30, "DEFAULT", "DELETE", "v4", "k1")]}),
                 _msg("s1", {"k": "ops", "ops": [_op(31, "DEFAULT", "ADD", "nh", 5)]}),
                 {"a": "get", "g": {"ni": "*", "aft": "ALL"}},
                 _msg("s1", {"k": "ops", "ops": [_op(32, "DEFAULT", "ADD", "nh", 6)]})]
            out.append(json.dumps(w))
    # an operation held while its session raises its own election id: the dependency arrives under the new id and the held
    # operation is programmed and acknowledged then (transitively: entry -> group -> next-hop)
    for ack in ("RIB", "RIB_FIB"):
        w = [{"a": "sreset", "nis": ["DEFAULT", "vrf1"], "fwd": True}, {"a": "open", "s": "s1"},
             _msg("s1", {"k": "params", "red": "SINGLE_PRIMARY", "per": "PRESERVE", "ack": ack}), _msg("s1", {"k": "elec", "id": [0, 1]}),
             _msg("s1", {"k": "ops", "ops": [_op(1, "DEFAULT", "ADD", "v4", "k1", g=1, eid=(0, 1))]}),
             _msg("s1", {"k": "ops", "ops": [_op(2, "DEFAULT", "ADD", "nhg", 1, nhs=(1,), eid=(0, 1))]}),
             _msg("s1", {"k": "elec", "id": [0, 2]}),
             _msg("s1", {"k": "ops", "ops": [_op(3, "DEFAULT", "ADD", "nh", 1, eid=(0, 2))]}),
             {"a": "get", "g": {"ni": "*", "aft": "ALL"}},
             _msg("s1", {"k": "ops", "ops": [_op(4, "DEFAULT", "ADD", "nh", 2, eid=(0, 2))]})]
        out.append(json.dumps(w))
    return out


REGISTRY["C03"].parts[0].directed = c03_directed
REGISTRY["C06"].parts[0].directed = c06_directed


def c12_directed(ctx):
    """Well-formed entries under an operation type that is INVALID or a number the enumeration does not define, from the
    elected primary, for every entry kind; afterwards the entries they name must be absent and deletion protection
    unchanged (the group they point at can be deleted)."""
    out = []
    for base in (0, 1):   # even ids: an undefined number, odd ids: INVALID
        w = [{"a": "sreset", "nis": ["DEFAULT", "vrf1"], "fwd": True}, {"a": "open", "s": "s1"},
             _msg("s1", {"k": "params", "red": "SINGLE_PRIMARY", "per": "PRESERVE", "ack": "RIB"}), _msg("s1", {"k": "elec", "id": [0, 1]}),
             _msg("s1", {"k": "ops", "ops": [_op(101, "DEFAULT", "ADD", "nh", 1), _op(103, "DEFAULT", "ADD", "nhg", 1, nhs=(1,))]})]
        oid = 200 + base
        for kind, key, kw in (("nh", 2, {}), ("nhg", 2, {"nhs": (1,)}), ("v4", "k1", {"g": 1}), ("v6", "k1", {"g": 1}), ("mpls", "k1", {"g": 1})):
            o = _op(oid, "DEFAULT", "ADD", kind, key, **kw)
            o["bad"] = "badOpType"
            w.append(_msg("s1", {"k": "ops", "ops": [o]}))
            oid += 2
        w += [{"a": "get", "g": {"ni": "*", "aft": "ALL"}},
              _msg("s1", {"k": "ops", "ops": [_op(301, "DEFAULT", "DELETE", "nhg", 1)]}),
              _msg("s1", {"k": "ops", "ops": [_op(303, "DEFAULT", "DELETE", "nh", 1)]}),
              {"a": "get", "g": {"ni": "*", "aft": "ALL"}}]
        out.append(json.dumps(w))
    return out


REGISTRY["C12"].parts[1].directed = c12_directed


def c01_directed(ctx):
    """Held operations whose fate changes while they are held: an explicit REPLACE held on a missing group whose target
    is then deleted (the retry must FAIL: nothing to replace) or deleted and re-added (the retry succeeds); several ADDs
    of one key held on the same missing group (the last one applied must be the last one acknowledged)."""
    out = []
    for kind in ("v4", "v6", "mpls"):
        for variant in ("deleted", "readded", "flushed"):
            w = [{"a": "reset", "nis": ["DEFAULT", "vrf1"], "fwd": True},
                 {"a": "op", "op": _op(1, "DEFAULT", "ADD", "nh", 1, noeid=True)}, {"a": "op", "op": _op(2, "DEFAULT", "ADD", "nhg", 1, nhs=(1,), noeid=True)},
                 {"a": "op", "op": _op(3, "DEFAULT", "ADD", kind, "k1", g=1, noeid=True)},
                 {"a": "op", "op": _op(4, "DEFAULT", "REPLACE", kind, "k1", g=7, pl="b", noeid=True)}]
            if variant == "flushed":
                w.append({"a": "flush", "nis": ["DEFAULT"]})
                w += [{"a": "op", "op": _op(8, "DEFAULT", "ADD", "nh", 1, noeid=True)}]
            else:
                w.append({"a": "op", "op": _op(5, "DEFAULT", "DELETE", kind, "k1", noeid=True)})
                if variant == "readded":
                    w.append({"a": "op", "op": _op(6, "DEFAULT", "ADD", kind, "k1", g=1, pl="c", noeid=True)})
            w += [{"a": "op", "op": _op(9, "DEFAULT", "ADD", "nhg", 7, nhs=(1,), noeid=True)},
                  {"a": "op", "op": _op(10, "DEFAULT", "DELETE", "nhg", 7, noeid=True)}, {"a": "op", "op": _op(11, "DEFAULT", "DELETE", "nhg", 1, noeid=True)}]
            out.append(json.dumps(w))
        # three ADDs of one key held on the same missing group
        for rep in range(4):
            w = [{"a": "reset", "nis": ["DEFAULT", "vrf1"], "fwd": True}, {"a": "op", "op": _op(1, "DEFAULT", "ADD", "nh", 1, noeid=True)}]
            for i, pl in enumerate(("a", "b", "c")):
                w.append({"a": "op", "op": _op(2 + i, "DEFAULT", "ADD", kind, "k1", g=5, pl=pl, noeid=True)})
            w += [{"a": "op", "op": _op(9, "DEFAULT", "ADD", "nhg", 5, nhs=(1,), noeid=True)}, {"a": "op", "op": _op(10, "DEFAULT", "DELETE", kind, "k1", noeid=True)}]
            out.append(json.dumps(w))
    # 140 entries held on one missing group, then the next-hop and the group: every one of them is installed and acknowledged
    # by the call that installs the group
    w = [{"a": "reset", "nis": ["DEFAULT", "vrf1"], "fwd": True}]
    for i in range(140):
        w.append({"a": "op", "op": _op(100 + i, "DEFAULT", "ADD", "v4", "k%d" % (2 * i + 2), g=1, noeid=True)})
    w += [{"a": "op", "op": _op(1, "DEFAULT", "ADD", "nh", 1, noeid=True)}, {"a": "op", "op": _op(2, "DEFAULT", "ADD", "nhg", 1, nhs=(1,), noeid=True)},
          {"a": "op", "op": _op(3, "DEFAULT", "DELETE", "nhg", 1, noeid=True)}]
    out.append(json.dumps(w))
    return out


def c05_directed(ctx):
    """The learnt election id survives everything but a higher announcement: every session gone, Flushes of every kind
    (override / with the id, one instance / all) with and without a session attached, then a lower announcement - the reply
    carries the old maximum and the newcomer is not primary."""
    out = []
    pre = [{"a": "sreset", "nis": ["DEFAULT", "vrf1"], "fwd": True}, {"a": "open", "s": "s1"},
           _msg("s1", {"k": "params", "red": "SINGLE_PRIMARY", "per": "PRESERVE", "ack": "RIB"}), _msg("s1", {"k": "elec", "id": [1, 2]}),
           _msg("s1", {"k": "ops", "ops": [_op(1, "DEFAULT", "ADD", "nh", 1, eid=(1, 2))]})]
    for keep in (False, True):
        for fl in ({"ni": "*", "el": "override", "id": [0, 0]}, {"ni": "DEFAULT", "el": "override", "id": [0, 0]}, {"ni": "*", "el": "id", "id": [1, 2]}, {"ni": "*", "el": "id", "id": [2, 1]}):
            w = list(pre)
            if not keep:
                w.append({"a": "close", "s": "s1", "mode": "eof"})
            w += [{"a": "flushrpc", "r": fl}, {"a": "open", "s": "s2"},
                  _msg("s2", {"k": "params", "red": "SINGLE_PRIMARY", "per": "PRESERVE", "ack": "RIB"}), _msg("s2", {"k": "elec", "id": [0, 2]}),
                  _msg("s2", {"k": "ops", "ops": [_op(2, "DEFAULT", "ADD", "nh", 2, eid=(0, 2))]}),
                  {"a": "flushrpc", "r": {"ni": "*", "el": "id", "id": [0, 2]}},
                  _msg("s2", {"k": "elec", "id": [1, 2]}), _msg("s2", {"k": "ops", "ops": [_op(3, "DEFAULT", "ADD", "nh", 3, eid=(1, 2))]}),
                  {"a": "get", "g": {"ni": "*", "aft": "ALL"}}]
            out.append(json.dumps(w))
    return out


def c07_held_update(ctx):
    """An installed entry with a held update of the same key (pointing at a missing group) is deleted: Get must not return it."""
    out = []
    for kind in ("v4", "v6", "mpls"):
        for typ in ("ADD", "REPLACE"):
            w = [{"a": "sreset", "nis": ["DEFAULT", "vrf1"], "fwd": True}, {"a": "open", "s": "s1"},
                 _msg("s1", {"k": "params", "red": "SINGLE_PRIMARY", "per": "PRESERVE", "ack": "RIB"}), _msg("s1", {"k": "elec", "id": [0, 1]}),
                 _msg("s1", {"k": "ops", "ops": [_op(1, "DEFAULT", "ADD", "nh", 1), _op(2, "DEFAULT", "ADD", "nhg", 1, nhs=(1,)), _op(3, "DEFAULT", "ADD", kind, "k1", g=1)]}),
                 _msg("s1", {"k": "ops", "ops": [_op(4, "DEFAULT", typ, kind, "k1", g=9, pl="b")]}),
                 {"a": "get", "g": {"ni": "*", "aft": "ALL"}},
                 _msg("s1", {"k": "ops", "ops": [_op(5, "DEFAULT", "DELETE", kind, "k1")]}),
                 {"a": "get", "g": {"ni": "*", "aft": "ALL"}},
                 _msg("s1", {"k": "ops", "ops": [_op(6, "DEFAULT", "ADD", "nhg", 9, nhs=(1,))]}),
                 {"a": "get", "g": {"ni": "*", "aft": "ALL"}}]
            out.append(json.dumps(w))
    return out


REGISTRY["C01"].parts[0].directed = c01_directed
REGISTRY["C05"].parts[0].directed = c05_directed
_c07_old = REGISTRY["C07"].parts[0].directed
REGISTRY["C07"].parts[0].directed = lambda ctx: _c07_old(ctx) + c07_held_update(ctx)



# ---------------------------------------------------------------------------
# Free-running RIB hammer under the race detector (C11, C12): several goroutines call AddEntry / DeleteEntry on one RIB at once,
# well-formed and malformed operations over a small shared key space. The race detector and the runtime observe; the
# specification contributes the quiescent accounting (GribiRIBCS.Accounted, which TLC shows to hold at the code's grain).

class RibHammerFamily:
    FAMILY = "ribhammer"

    def __init__(self, prop):
        self.prop = prop

    def run(self, ctx):
        res = Result()
        quick = ctx.tier == "quick"
        cfg = ribcs_cfg(RibCSFamily.SMALL + (11, 14, 15), Serial=False).replace("INVARIANTS QuiescentConsistent", "INVARIANTS Accounted")
        mc = require_ok(ctx.tlc("GribiRIBCS_MC", None, name="mc-ribcs-accounted", workers=vlib.NCPU, cfg_text=cfg, timeout=3000, heap="16g"),
                        "model checking GribiRIBCS_MC (Accounted at the code's grain)")
        trace = os.path.join(ctx.work, "hammer.ndjson")
        rounds = 10 if quick else 200
        p = ctx.run_vh(["ribhammer-run", "-out", trace, "-rounds", str(rounds), "-seed", str(ctx.seed)], race=True, timeout=3000)
        races = p.stderr.count("WARNING: DATA RACE")
        if p.returncode not in (0, 66):
            crash = vlib.gribigo_panic(p.stderr)
            if crash:
                rp = os.path.join(vlib.ROOT, "replays", f"{self.prop}-ribhammer-crash-{vlib.sha(crash[:3000])}.txt")
                open(rp, "w").write(crash)
                res.violations.append({"replay": rp, "what": "the process in which several goroutines called AddEntry / DeleteEntry on one RIB (malformed operations included) died inside openconfig/gribigo: "
                                                             + crash.splitlines()[0][:200]})
                res.coverage = {"states": mc.distinct, "transitions": mc.generated, "traces_validated_against_impl": 0, "evaluations": 0, "distinct_nontrivial": 0, "samples": [["crashed"]], "rule": "crashed"}
                return res
            raise Infra(f"vh ribhammer-run failed rc={p.returncode}: " + p.stdout[-1500:] + p.stderr[-3000:])
        info = json.loads(p.stdout.strip().splitlines()[-1])
        # C12: a race on a Go map is a crash waiting to happen (the runtime aborts the whole process when it notices one)
        map_races = sum(1 for blk in p.stderr.split("WARNING: DATA RACE")[1:] if "runtime.map" in blk.split("==================")[0])
        if races and (self.prop == "C11" or map_races):
            rp = os.path.join(vlib.ROOT, "replays", f"{self.prop}-ribhammer-race-{vlib.sha(p.stderr[:4000])}.txt")
            open(rp, "w").write(p.stderr[:200000])
            res.violations.append({"replay": rp, "what": f"the race detector reported {races} data race(s) ({map_races} on a Go map, which the runtime turns into a fatal error) while several "
                                                         f"goroutines called AddEntry / DeleteEntry (malformed operations included) on one RIB"})
        cfg = ('SPECIFICATION CTSpec\nCONSTANTS\n  NIs = {"DEFAULT", "vrf1"}\n  Serial = FALSE\n  TraceFile = "trace.ndjson"\n'
               'POSTCONDITION TraceAccepted\nCHECK_DEADLOCK FALSE\n')
        run = ctx.tlc("GribiRIBCSTrace", None, name="validate-hammer", workers=1, cfg_text=cfg, extra_files={trace: "trace.ndjson"}, timeout=3000, heap="12g")
        matched, total, mism = parse_trace_report(run)
        if matched != total:
            raise Infra(f"trace validation stopped at line {matched + 1} of {total}\n" + run.tail())
        lines = [json.loads(x) for x in open(trace)]
        ncalls = sum(len(e.get("calls", [])) for e in lines)
        for (ln, ev, comps) in mism:
            if "ribcsSlow" in comps:
                raise Infra(f"hammer round {ln} inconclusive (slow machine)")
            e = lines[ln - 1]
            rp = os.path.join(vlib.ROOT, "replays", f"{self.prop}-ribhammer-{vlib.sha(json.dumps(e, sort_keys=True)[:5000])}.json")
            json.dump({"property": self.prop, "family": self.FAMILY, "seed": ctx.seed, "components": comps, "round": e}, open(rp, "w"))
            res.violations.append({"replay": rp, "what": f"free-running concurrent RIB calls, round {e.get('n')}: {comps} {e.get('hung')}"})
        res.coverage = {"states": mc.distinct, "transitions": mc.generated, "exhaustive": False, "traces_validated_against_impl": total, "evaluations": ncalls,
                        "distinct_nontrivial": total,
                        "rule": ("one case = one round in which 4 goroutines issue 120 AddEntry / DeleteEntry calls each on one fresh rib.RIB at the same time (shared keys, forward "
                                 "references, one operation in six malformed), in a binary built with the race detector; the verdicts are a race report, a crash inside gribigo, "
                                 "a goroutine left blocked, or an operation that is neither acknowledged, failed nor held at quiescence (GribiRIBCS.Accounted)"),
                        "samples": [[{"round": 1, "calls": len(lines[0].get("calls", [])) if lines else 0}]], "driver": info,
                        "model_checking": [{"module": "GribiRIBCS_MC", "constants": {"Serial": False}, "invariant": "Accounted holds", "distinct_states": mc.distinct, "generated": mc.generated}]}
        res.assumptions = ["the interleavings are whatever the runtime produced in this run; the state reached is not compared with a model (overlapping calls are not atomic: open findings), only the accounting is"]
        return res

    def replay(self, ctx, path):
        raise Infra("re-run the check with the recorded seed")


REGISTRY["C11"] = CompositeFamily("C11", REGISTRY["C11"].parts + [RibHammerFamily("C11")])
REGISTRY["C12"] = CompositeFamily("C12", REGISTRY["C12"].parts + [RibHammerFamily("C12")])


def c12_rib_directed(ctx):
    """Every malformation class aimed at a key that is installed and referenced (next-hop 1 in group 1, group 1 under ipv4 k1),
    as ADD and as REPLACE: FAILED, and afterwards the installed entries, the held set and deletion protection are what they were
    (the next-hop and the group still cannot be deleted, the top-level entry can)."""
    out = []
    classes = {"nh": ["zeroIndex", "nilEntry", "noEntry", "badAddr", "badEnum"], "nhg": ["zeroIndex", "nilEntry", "noEntry", "emptyGroup", "zeroNHInGroup", "nilPayload"],
               "v4": ["nilEntry", "noEntry", "badPrefix", "zeroGroup", "nilPayload"]}
    for kind, cs in classes.items():
        for typ in ("ADD", "REPLACE"):
            w = [{"a": "reset", "nis": ["DEFAULT", "vrf1"], "fwd": True},
                 {"a": "op", "op": _op(1, "DEFAULT", "ADD", "nh", 1, noeid=True)}, {"a": "op", "op": _op(2, "DEFAULT", "ADD", "nh", 2, noeid=True)},
                 {"a": "op", "op": _op(3, "DEFAULT", "ADD", "nhg", 1, nhs=(1, 2), noeid=True)}, {"a": "op", "op": _op(4, "DEFAULT", "ADD", "v4", "k1", g=1, noeid=True)}]
            oid = 10
            for c in cs:
                oid += 1
                kw = {"nhs": (1,)} if kind == "nhg" else ({"g": 1} if kind == "v4" else {})
                o = _op(oid, "DEFAULT", typ, kind, "k1" if kind == "v4" else 1, noeid=True, **kw)
                o["bad"] = c
                w.append({"a": "op", "op": o})
            w += [{"a": "op", "op": _op(30, "DEFAULT", "DELETE", "nh", 1, noeid=True)}, {"a": "op", "op": _op(31, "DEFAULT", "DELETE", "nh", 2, noeid=True)},
                  {"a": "op", "op": _op(32, "DEFAULT", "DELETE", "nhg", 1, noeid=True)}, {"a": "op", "op": _op(33, "DEFAULT", "DELETE", "v4", "k1", noeid=True)},
                  {"a": "op", "op": _op(34, "DEFAULT", "DELETE", "nhg", 1, noeid=True)}, {"a": "op", "op": _op(35, "DEFAULT", "DELETE", "nh", 1, noeid=True)}]
            out.append(json.dumps(w))
    return out


REGISTRY["C12"].parts[0].directed = c12_rib_directed


# C02 at the server: held operations across election updates and sessions (directed histories; the server family's own
# small instances keep the part cheap)
_c02_srv = ServerFamily("C02",
    mc={"quick": [dict(MaxMsgs=5, MaxOpen=1, HiVals=(0,), LoVals=(1, 2), OpShapes="chain", StampModes=("last",), AckModes=("RIB",))],
        "thorough": [dict(MaxMsgs=7, MaxOpen=2, HiVals=(0,), LoVals=(1, 2), OpShapes="chain", StampModes=("last",), AckModes=("RIB",))]},
    sims={"quick": [(_S_SIM_OPS, 60, 300)], "thorough": [(_S_SIM_OPS, 2000, 400)]},
    exh={"quick": [], "thorough": []}, random_cfg=_rnd(["ops"], 30, 400), directed=c06_directed)
REGISTRY["C02"] = CompositeFamily("C02", REGISTRY["C02"].parts + [_c02_srv])
# C01: an operation applied under its request's snapshot is answered as applied, whatever other handlers did meanwhile
REGISTRY["C01"] = CompositeFamily("C01", REGISTRY["C01"].parts + [SchedFamily("C01")])



def c08_directed(ctx):
    """Flush answers OK whenever it removed everything: a Flush of one instance whose group an entry of the other instance
    still names; a Flush of every instance after an instance was created while the server runs (a Get and a Flush of
    everything came before, a Get of everything comes after)."""
    out = []
    pre = [{"a": "sreset", "nis": ["DEFAULT", "vrf1"], "fwd": True}, {"a": "open", "s": "s1"},
           _msg("s1", {"k": "params", "red": "SINGLE_PRIMARY", "per": "PRESERVE", "ack": "RIB"}), _msg("s1", {"k": "elec", "id": [0, 1]})]
    for kind in ("v4", "mpls"):
        for el in ({"el": "override", "id": [0, 0]}, {"el": "id", "id": [0, 1]}):
            w = list(pre) + [_msg("s1", {"k": "ops", "ops": [_op(1, "DEFAULT", "ADD", "nh", 1), _op(2, "DEFAULT", "ADD", "nhg", 1, nhs=(1,)), _op(3, "vrf1", "ADD", kind, "k2", g=1, gni="DEFAULT")]}),
                             {"a": "flushrpc", "r": dict(el, ni="DEFAULT")}, {"a": "get", "g": {"ni": "*", "aft": "ALL"}},
                             _msg("s1", {"k": "ops", "ops": [_op(4, "DEFAULT", "ADD", "nh", 1), _op(5, "DEFAULT", "ADD", "nhg", 1, nhs=(1,))]}),
                             {"a": "flushrpc", "r": dict(el, ni="vrf1")}, {"a": "flushrpc", "r": dict(el, ni="*")}, {"a": "get", "g": {"ni": "*", "aft": "ALL"}}]
            out.append(json.dumps(w))
    w = list(pre) + [_msg("s1", {"k": "ops", "ops": [_op(1, "DEFAULT", "ADD", "nh", 1)]}),
                     {"a": "get", "g": {"ni": "*", "aft": "ALL"}}, {"a": "flushrpc", "r": {"ni": "*", "el": "override", "id": [0, 0]}},
                     {"a": "addni", "ni": "vrf2"},
                     _msg("s1", {"k": "ops", "ops": [_op(2, "vrf2", "ADD", "nh", 1), _op(3, "vrf2", "ADD", "nhg", 1, nhs=(1,)), _op(4, "vrf2", "ADD", "v4", "k2", g=1), _op(5, "DEFAULT", "ADD", "nh", 2)]}),
                     {"a": "get", "g": {"ni": "*", "aft": "ALL"}}, {"a": "flushrpc", "r": {"ni": "*", "el": "override", "id": [0, 0]}},
                     {"a": "get", "g": {"ni": "*", "aft": "ALL"}}, {"a": "get", "g": {"ni": "vrf2", "aft": "ALL"}}]
    out.append(json.dumps(w))
    return out


def c10_many_abandoned(ctx):
    """Twelve Gets abandoned one after the other (after 0-3 responses), then complete Gets, writes and a Flush must still be served."""
    w = [{"a": "sreset", "nis": ["DEFAULT", "vrf1"], "fwd": True}, {"a": "open", "s": "s1"},
         _msg("s1", {"k": "params", "red": "SINGLE_PRIMARY", "per": "PRESERVE", "ack": "RIB"}), _msg("s1", {"k": "elec", "id": [0, 1]}),
         _msg("s1", {"k": "ops", "ops": [_nh(1, "DEFAULT", 1), _nh(2, "DEFAULT", 2), _nh(3, "DEFAULT", 3), _nh(4, "vrf1", 1), _nh(5, "vrf1", 2)]})]
    for k in range(12):
        w.append({"a": "get", "g": {"ni": ["*", "DEFAULT", "vrf1"][k % 3], "aft": "ALL"}, "failafter": k % 4})
    w += [{"a": "get", "g": {"ni": "*", "aft": "ALL"}}, _msg("s1", {"k": "ops", "ops": [_nh(10, "DEFAULT", 4), _nh(11, "vrf1", 3)]}),
          {"a": "get", "g": {"ni": "*", "aft": "nh"}}, {"a": "flushrpc", "r": {"ni": "*", "el": "override", "id": [0, 0]}}, {"a": "get", "g": {"ni": "*", "aft": "ALL"}}]
    return [json.dumps(w)]


_c08_srv.directed = c08_directed
_c10_old = REGISTRY["C10"].directed
REGISTRY["C10"].directed = lambda ctx: _c10_old(ctx) + c10_many_abandoned(ctx)

# C09 under a client that has stopped reading, and the per-stream order of messages: handler-grain scenarios of sched-run
REGISTRY["C09"] = CompositeFamily("C09", [REGISTRY["C09"], SchedFamily("C09")])


def c04_directed(ctx):
    """A stale session stays stale across a Flush: s1 is primary with the higher id, s2 announced a lower one and is refused;
    after a Flush of every kind (override / with the id, one instance / all) s2 announces its id again (and a third session a
    lower id still) - their operations are refused, the primary's are programmed, and the reply carries the old maximum."""
    out = []
    P = {"k": "params", "red": "SINGLE_PRIMARY", "per": "PRESERVE", "ack": "RIB"}
    for fl in ({"ni": "*", "el": "override", "id": [0, 0]}, {"ni": "DEFAULT", "el": "override", "id": [0, 0]}, {"ni": "*", "el": "id", "id": [0, 5]}, {"ni": "vrf1", "el": "id", "id": [0, 5]}):
        for reann in (True, False):
            w = [{"a": "sreset", "nis": ["DEFAULT", "vrf1"], "fwd": True}, {"a": "open", "s": "s1"}, _msg("s1", P), _msg("s1", {"k": "elec", "id": [0, 5]}),
                 _msg("s1", {"k": "ops", "ops": [_op(1, "DEFAULT", "ADD", "nh", 1, eid=(0, 5))]}),
                 {"a": "open", "s": "s2"}, _msg("s2", P), _msg("s2", {"k": "elec", "id": [0, 3]}),
                 _msg("s2", {"k": "ops", "ops": [_op(2, "DEFAULT", "ADD", "nh", 2, eid=(0, 3))]}),
                 {"a": "flushrpc", "r": fl}]
            if reann:
                w.append(_msg("s2", {"k": "elec", "id": [0, 3]}))
            w += [_msg("s2", {"k": "ops", "ops": [_op(3, "DEFAULT", "ADD", "nh", 3, eid=(0, 3))]}),
                  _msg("s1", {"k": "ops", "ops": [_op(4, "DEFAULT", "ADD", "nh", 4, eid=(0, 5))]}),
                  {"a": "open", "s": "s3"}, _msg("s3", P), _msg("s3", {"k": "elec", "id": [0, 4]}),
                  _msg("s3", {"k": "ops", "ops": [_op(5, "DEFAULT", "ADD", "nh", 5, eid=(0, 4))]}),
                  _msg("s1", {"k": "ops", "ops": [_op(6, "DEFAULT", "ADD", "nh", 6, eid=(0, 5))]}),
                  {"a": "get", "g": {"ni": "*", "aft": "ALL"}}]
            out.append(json.dumps(w))
    return out


def c09_directed(ctx):
    """Sessions that come and go in every order: with two (three) sessions open, the oldest / the youngest / the middle one
    ends (half-close, a receive error, or a protocol violation that ends its RPC) and a new session with the same parameters
    is opened while the others are still attached - it must be accepted, negotiate, and be served; so must the survivors."""
    out = []
    P = {"k": "params", "red": "SINGLE_PRIMARY", "per": "PRESERVE", "ack": "RIB"}
    ends = {"eof": lambda s: [{"a": "close", "s": s, "mode": "eof"}], "recverr": lambda s: [{"a": "close", "s": s, "mode": "recverr"}],
            "zeroid": lambda s: [_msg(s, {"k": "elec", "id": [0, 0]})], "reparams": lambda s: [_msg(s, P)]}
    for n in (2, 3):
        for victim in range(1, n + 1):
            for how in ends:
                w = [{"a": "sreset", "nis": ["DEFAULT", "vrf1"], "fwd": True}]
                oid = 0
                for i in range(1, n + 1):
                    oid += 1
                    w += [{"a": "open", "s": f"s{i}"}, _msg(f"s{i}", P), _msg(f"s{i}", {"k": "elec", "id": [0, i]}),
                          _msg(f"s{i}", {"k": "ops", "ops": [_op(oid, "DEFAULT", "ADD", "nh", oid, eid=(0, i))]})]
                w += ends[how](f"s{victim}")
                new = f"s{n + 1}"
                w += [{"a": "open", "s": new}, _msg(new, P), _msg(new, {"k": "elec", "id": [1, 1]}),
                      _msg(new, {"k": "ops", "ops": [_op(10, "DEFAULT", "ADD", "nh", 10, eid=(1, 1))]})]
                for i in range(1, n + 1):
                    if i != victim:
                        w += [_msg(f"s{i}", {"k": "elec", "id": [1, 1 + i]}), _msg(f"s{i}", {"k": "ops", "ops": [_op(10 + i, "DEFAULT", "ADD", "nh", 10 + i, eid=(1, 1 + i))]})]
                w.append({"a": "get", "g": {"ni": "*", "aft": "ALL"}})
                out.append(json.dumps(w))
    return out


REGISTRY["C04"].parts[0].directed = c04_directed
REGISTRY["C09"].parts[0].directed = c09_directed


def c14_directed(ctx):
    """A backlog queued before StartSending that is larger than the modify channel (1..12 requests behind the session
    parameters and the election id), on a stream whose k-th Send fails: StartSending, AwaitConverged, a further Q and
    Close / Reset must all return."""
    out = []
    for k in (1, 3, 5, 6, 7, 9, 12):
        for n in (0, 1, 2, 4):
            for fin in ("close", "reset"):
                for cfg in ({"params": True, "elected": True, "elec": [0, 1]}, {}):
                    w = [dict({"a": "new"}, **cfg), {"a": "connect"}]
                    for i in range(1, k + 1):
                        w.append({"a": "q", "m": {"k": "ops", "ops": [{"id": i, "typ": "ADD", "kind": "nh", "key": i}]}})
                    w += [{"a": "sendfail", "n": n}, {"a": "start"}, {"a": "await"}, {"a": "q", "m": {"k": "ops", "ops": [{"id": k + 1, "typ": "ADD", "kind": "nh", "key": k + 1}]}}, {"a": "await"}, {"a": fin}]
                    if fin == "reset":
                        w += [{"a": "connect"}, {"a": "q", "m": {"k": "ops", "ops": [{"id": 1, "typ": "ADD", "kind": "nh", "key": 1}]}}, {"a": "start"}, {"a": "await"}, {"a": "close"}]
                    out.append(json.dumps(w))
    return out


def c14_idle_fault(ctx):
    """The stream fails while the client is idle - every request answered, nothing queued or pending: AwaitConverged called
    afterwards returns the recorded error (not convergence), a further Q returns, Close / Reset return."""
    out = []
    op = lambda i: {"k": "ops", "ops": [{"id": i, "typ": "ADD", "kind": "nh", "key": i}]}
    for cfg, hello in (({}, []), ({"params": True, "elected": True, "elec": [0, 1]}, [{"a": "deliver", "r": {"k": "params_ok"}}, {"a": "deliver", "r": {"k": "elec", "id": [0, 1]}}])):
        for nops in (0, 1, 3):
            for fault in ([{"a": "recvfail"}], [{"a": "recveof"}], [{"a": "sendfail", "n": 0}, {"a": "q", "m": op(9)}]):
                for fin in ("close", "reset"):
                    w = [dict({"a": "new"}, **cfg), {"a": "connect"}, {"a": "start"}] + hello
                    for i in range(1, nops + 1):
                        w += [{"a": "q", "m": op(i)}, {"a": "deliver", "r": {"k": "res", "results": [{"id": i, "st": "RIB"}]}}]
                    w += [{"a": "await"}] + fault + [{"a": "await"}, {"a": "q", "m": op(8)}, {"a": "await"}, {"a": fin}]
                    out.append(json.dumps(w))
    return out


REGISTRY["C14"].parts[0].directed = lambda ctx: c14_directed(ctx) + c14_idle_fault(ctx)


def c16_slow_consumer(ctx):
    """A consumer that takes 700 ms over one notification: the change that follows on the same key (DELETE, implicit replace,
    Flush), in an instance created before or after the hook was registered, must still be folded after it."""
    out = []
    for ni, late in (("DEFAULT", False), ("vrf1", False), ("vrf2", True)):
        for kind in ("v4", "v6", "mpls", "nh"):
            for follow in ("delete", "replace", "flush"):
                w = [{"a": "reset", "nis": ["DEFAULT", "vrf1"], "fwd": True}]
                if late:
                    w.append({"a": "addni", "ni": ni})
                if kind != "nh":
                    w += [{"a": "op", "op": _op(1, ni, "ADD", "nh", 1, noeid=True)}, {"a": "op", "op": _op(2, ni, "ADD", "nhg", 1, nhs=(1,), noeid=True)}]
                g = {} if kind == "nh" else {"g": 1}
                key = 5 if kind == "nh" else "k1"
                w += [{"a": "hookstall", "ms": 700}, {"a": "op", "op": _op(3, ni, "ADD", kind, key, noeid=True, **g)}]
                if follow == "delete":
                    w += [{"a": "op", "op": _op(4, ni, "DELETE", kind, key, noeid=True)}, {"a": "op", "op": _op(5, ni, "ADD", kind, key, pl="b", noeid=True, **g)}]
                elif follow == "replace":
                    w += [{"a": "op", "op": _op(4, ni, "ADD", kind, key, pl="b", noeid=True, **g)}, {"a": "op", "op": _op(5, ni, "DELETE", kind, key, noeid=True)}]
                else:
                    w += [{"a": "flush", "nis": [ni]}]
                out.append(json.dumps(w))
    return out


def c16_referenced_delete(ctx):
    """Deletes aimed at a next-hop / group that is still referenced, then the legal tear-down, in the default and a late instance.
    Replayed with the reference checks on (refused, no notification) and, by -nochecks, on a RIB built with DisableRIBCheckFn
    (whatever the RIB then does, the notifications must say the same: TUnchecked)."""
    out = []
    for ni, late in (("DEFAULT", False), ("vrf1", False), ("vrf2", True)):
        for kind in ("v4", "v6", "mpls"):
            w = [{"a": "reset", "nis": ["DEFAULT", "vrf1"], "fwd": True}]
            if late:
                w.append({"a": "addni", "ni": ni})
            w += [{"a": "op", "op": _op(1, ni, "ADD", "nh", 1, noeid=True)}, {"a": "op", "op": _op(2, ni, "ADD", "nh", 2, noeid=True)},
                  {"a": "op", "op": _op(3, ni, "ADD", "nhg", 1, nhs=(1, 2), noeid=True)}, {"a": "op", "op": _op(4, ni, "ADD", kind, "k1", g=1, noeid=True)},
                  {"a": "op", "op": _op(5, ni, "DELETE", "nh", 2, noeid=True)}, {"a": "op", "op": _op(6, ni, "DELETE", "nhg", 1, noeid=True)},
                  {"a": "op", "op": _op(7, ni, "DELETE", kind, "k1", noeid=True)}, {"a": "op", "op": _op(8, ni, "DELETE", "nhg", 1, noeid=True)},
                  {"a": "op", "op": _op(9, ni, "DELETE", "nh", 1, noeid=True)}, {"a": "op", "op": _op(10, ni, "DELETE", "nh", 2, noeid=True)}]
            out.append(json.dumps(w))
    return out


REGISTRY["C16"].parts[0].directed = lambda ctx: c16_referenced_delete(ctx) + c16_slow_consumer(ctx)


def c13_dupq(ctx):
    """Concurrent Q calls that carry one operation id (4 / 8 goroutines, 1500 rounds, fresh id per round): exactly one is
    registered as pending, every other one is recorded as an error."""
    out = []
    for cfg in ({}, {"params": True, "elected": True, "elec": [0, 1]}):
        for n in (4, 8):
            out.append(json.dumps([dict({"a": "new"}, **cfg), {"a": "dupq", "n": n}]))
    return out


REGISTRY["C13"].parts[0].directed = c13_dupq
