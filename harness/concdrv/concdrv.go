// Package concdrv drives one real server.Server with several concurrent
// Modify sessions, Get readers and Flush callers (in-process streams), built
// with the race detector. It records, with a global sequence number taken in
// the hook (i.e. under the lock that protects the state just changed), one
// event per lock-protected critical section of the server for validation
// against GribiServerCS.tla, and checks that every request is answered.
package concdrv

import (
	"context"
	"errors"
	"fmt"
	"io"
	"math/rand"
	"sort"
	"sync"
	"time"

	"github.com/openconfig/gribigo/server"

	spb "github.com/openconfig/gribi/v1/proto/service"

	"verif/harness/abs"
	"verif/harness/ribdrv"
	"verif/harness/srvdrv"
)

type Event = ribdrv.Event

// Cfg bounds one concurrent run.
type Cfg struct {
	Sessions int
	Rounds   int // messages per session
	Readers  int
	Flushers int
	Seed     int64
	// Storm: the sessions do nothing but announce election ids, all of them at the same moment in every round
	// (distinct ids, increasing from round to round), so that their compare-and-set sections contend
	Storm bool
	// Burst: every session ends with a burst of operation messages that it does not wait for, drains slowly and
	// half-closes at once: the RPC ends OK, so every operation of the burst must have been answered
	Burst bool
	// CutSession > 0: the transport of that session (1-based) fails in the middle of a batch half-way through the run
	CutSession int
}

// cyclic barrier whose parties may leave
type barrier struct {
	mu      sync.Mutex
	cond    *sync.Cond
	parties int
	waiting int
	phase   int
}

func newBarrier(n int) *barrier {
	b := &barrier{parties: n}
	b.cond = sync.NewCond(&b.mu)
	return b
}

func (b *barrier) wait() {
	b.mu.Lock()
	defer b.mu.Unlock()
	ph := b.phase
	b.waiting++
	if b.waiting >= b.parties {
		b.waiting = 0
		b.phase++
		b.cond.Broadcast()
		return
	}
	for ph == b.phase {
		b.cond.Wait()
	}
}

func (b *barrier) leave() {
	b.mu.Lock()
	b.parties--
	if b.parties > 0 && b.waiting >= b.parties {
		b.waiting = 0
		b.phase++
		b.cond.Broadcast()
	}
	b.mu.Unlock()
}

type rec struct {
	seq int
	ev  Event
}

// Run executes one concurrent scenario and emits its trace.
func Run(sink ribdrv.Sink, c Cfg) (hangs int, err error) {
	var mu sync.Mutex
	var evs []Event
	label := map[string]string{} // cid -> session label
	strm := map[any]string{}
	emit := func(e Event) { // called from hooks: inside the protecting lock
		mu.Lock()
		e["seq"] = len(evs) + 1
		evs = append(evs, e)
		mu.Unlock()
	}
	lab := func(cid string) string {
		mu.Lock()
		defer mu.Unlock()
		if l, ok := label[cid]; ok {
			return l
		}
		return "?" + cid
	}
	srv, err := server.New(server.WithVRFs([]string{"vrf1"}))
	if err != nil {
		return 0, err
	}
	server.VerifSetTracer(func(ev string, args ...any) {
		switch ev {
		case "open":
			mu.Lock()
			if l, ok := strm[args[1]]; ok {
				label[args[0].(string)] = l
			}
			mu.Unlock()
		case "newClient":
			// the stream->label association is made by the "open" event that follows; record by cid
			emit(Event{"ev": "newClient", "cid": args[0].(string)})
		case "deleteClient":
			emit(Event{"ev": "deleteClient", "cid": args[0].(string)})
		case "paramsCheck":
			emit(Event{"ev": "paramsCheck", "cid": args[0].(string), "p": fmt.Sprint(args[1]), "ok": args[2].(bool)})
		case "setClientParams", "updateParams":
			emit(Event{"ev": ev, "cid": args[0].(string), "p": fmt.Sprint(args[1])})
		case "storeElec":
			emit(Event{"ev": "storeElec", "cid": args[0].(string), "id": abs.AbsID(args[1].(*spb.Uint128))})
		case "elecCAS":
			emit(Event{"ev": "elecCAS", "cid": args[0].(string), "id": abs.AbsID(args[1].(*spb.Uint128)), "nm": args[2].(bool),
				"cur": abs.AbsID(args[3].(*spb.Uint128)), "master": args[4].(string)})
		case "modSnapshot":
			emit(Event{"ev": "modSnapshot", "cid": args[0].(string), "master": args[1].(string), "cur": abs.AbsID(args[2].(*spb.Uint128)),
				"last": abs.AbsID(args[3].(*spb.Uint128))})
		}
	})
	defer server.VerifSetTracer(nil)
	// Announcements that arrive within a short window are released from the gate between "store" and
	// "compare-and-set" together, so that the compare-and-set sections of different sessions contend.
	var bmu sync.Mutex
	var window chan struct{}
	server.VerifSetGate(func(site, who string) {
		if site != "elec.stored" {
			return
		}
		bmu.Lock()
		if window == nil {
			w := make(chan struct{})
			window = w
			time.AfterFunc(300*time.Microsecond, func() {
				bmu.Lock()
				window = nil
				bmu.Unlock()
				close(w)
			})
		}
		w := window
		bmu.Unlock()
		<-w
	})
	defer server.VerifSetGate(nil)

	var wg sync.WaitGroup
	var hmu sync.Mutex
	unanswered := make([]string, 0)
	abort := make(chan struct{})
	var abortOnce sync.Once
	note := func(s string) {
		hmu.Lock()
		unanswered = append(unanswered, s+" | blocked: "+fmt.Sprint(ribdrv.BlockedIn("openconfig/gribigo")))
		hmu.Unlock()
		abortOnce.Do(func() { close(abort) })
	}
	acked := make([][]abs.Op, c.Sessions) // per session: operations acknowledged RIB_PROGRAMMED, in order
	// the batch a session sent while its transport was failing: the server may have programmed any prefix of it without
	// being able to say so (an acknowledgement cannot be delivered on a dead stream)
	maybe := make([][]abs.Op, c.Sessions)
	announced := make([][][2]int, c.Sessions)
	start := make(chan struct{})
	bar := newBarrier(c.Sessions)
	turn := make([]chan struct{}, c.Sessions+1)
	for i := range turn {
		turn[i] = make(chan struct{})
	}
	close(turn[0])
	if c.Storm {
		abs.IdentityIDs = true
		defer func() { abs.IdentityIDs = false }()
	}
	for i := 0; i < c.Sessions; i++ {
		wg.Add(1)
		go func(i int) {
			defer wg.Done()
			defer bar.leave()
			rng := rand.New(rand.NewSource(c.Seed*1000 + int64(i)))
			l := fmt.Sprintf("s%d", i+1)
			ms := srvdrv.NewModStream()
			mu.Lock()
			strm[ms] = l
			mu.Unlock()
			done := make(chan error, 1)
			<-start
			if c.Storm {
				<-turn[i] // storm sessions negotiate one after the other (an un-negotiated session constrains the others)
			}
			go func() { done <- srv.Modify(ms) }()
			send := func(m *spb.ModifyRequest, what string) bool {
				select {
				case ms.In() <- m:
				case <-done:
					return false
				case <-abort:
					return false
				case <-time.After(10 * time.Second):
					note(l + ": server did not take " + what)
					return false
				}
				return true
			}
			// wait for a response carrying results / election / params (every message we send is answered)
			await := func(n int, what string) bool {
				dl := time.After(10 * time.Second)
				for ms.NSent() < n {
					select {
					case <-done:
						return false
					case <-abort:
						return false
					case <-dl:
						note(l + ": no answer to " + what)
						return false
					case <-time.After(50 * time.Microsecond):
					}
				}
				return true
			}
			want := 0
			if !send(&spb.ModifyRequest{Params: &spb.SessionParameters{Redundancy: spb.SessionParameters_SINGLE_PRIMARY, Persistence: spb.SessionParameters_PRESERVE}}, "params") {
				return
			}
			want++
			okp := await(want, "params")
			if c.Storm {
				close(turn[i+1])
			}
			if !okp {
				return // rejected (e.g. differs from a session that has not negotiated yet): allowed
			}
			var last [2]int
			var opid uint64 = uint64(i+1) * 100000
			for r := 0; r < c.Rounds; r++ {
				if c.Storm {
					bar.wait()
					last = [2]int{0, 10*r + (i+r)%c.Sessions + 1}
					if !send(&spb.ModifyRequest{ElectionId: &spb.Uint128{High: 0, Low: uint64(last[1])}}, "election") {
						return
					}
					announced[i] = append(announced[i], last)
					want++
					if !await(want, "election") {
						return
					}
					continue
				}
				if r == 0 || rng.Intn(3) == 0 {
					last = [2]int{rng.Intn(3), 1 + rng.Intn(len(abs.IDVals)-1)}
					if !send(&spb.ModifyRequest{ElectionId: abs.ConcID(last)}, "election") {
						return
					}
					announced[i] = append(announced[i], last)
					want++
					if !await(want, "election") {
						return
					}
					continue
				}
				// operations on this session's own key range
				k := 1 + rng.Intn(3)
				req := &spb.ModifyRequest{}
				var ops []abs.Op
				for j := 0; j < k; j++ {
					opid++
					o := abs.Op{ID: opid, NI: []string{"DEFAULT", "vrf1"}[rng.Intn(2)], Typ: []string{"ADD", "ADD", "DELETE"}[rng.Intn(3)],
						Kind: "nh", Key: fmt.Sprint(10*(i+1) + rng.Intn(4)), PL: abs.NHPayloads[rng.Intn(3)], NHs: []string{}, EID: last}
					if o.Typ == "DELETE" {
						o.PL = ""
					}
					p, err := abs.Concretise(o)
					if err != nil {
						continue
					}
					ops = append(ops, o)
					req.Operation = append(req.Operation, p)
				}
				if c.CutSession == i+1 && r >= c.Rounds/2 && len(req.Operation) >= 2 {
					// the transport of this session dies while the server works through this batch: its RPC must end,
					// the others must not notice
					ms.FailSends(errors.New("transport is closing"))
					maybe[i] = ops
					if !send(req, "operations") {
						return
					}
					select {
					case <-done:
					case <-abort:
					case <-time.After(10 * time.Second):
						note(l + ": Modify did not return after its transport failed in the middle of a batch")
					}
					return
				}
				if !send(req, "operations") {
					return
				}
				want += len(req.Operation)
				if !await(want, "operations") {
					return
				}
				// which of them were programmed
				rs := ms.Take(want - len(req.Operation))
				for _, resp := range rs {
					for _, x := range resp.GetResult() {
						if x.GetStatus() == spb.AFTResult_RIB_PROGRAMMED {
							for _, o := range ops {
								if o.ID == x.GetId() {
									acked[i] = append(acked[i], o)
								}
							}
						}
					}
				}
			}
			burst := []abs.Op{}
			if c.Burst && last != [2]int{} {
				ms.SlowSends(150 * time.Microsecond)
				for b := 0; b < 4; b++ {
					req := &spb.ModifyRequest{}
					for j := 0; j < 3; j++ {
						opid++
						o := abs.Op{ID: opid, NI: "DEFAULT", Typ: "ADD", Kind: "nh", Key: fmt.Sprint(10*(i+1) + (b*3+j)%4), PL: abs.NHPayloads[j], NHs: []string{}, EID: last}
						if p, err := abs.Concretise(o); err == nil {
							burst = append(burst, o)
							req.Operation = append(req.Operation, p)
						}
					}
					if !send(req, "burst") {
						return
					}
				}
			}
			ms.Close(io.EOF)
			var rpcErr error
			select {
			case rpcErr = <-done:
			case <-abort:
				return
			case <-time.After(10 * time.Second):
				note(l + ": Modify did not return after half-close")
				return
			}
			if len(burst) > 0 && rpcErr == nil {
				// the RPC ended OK: every result was handed to the writer before Modify returned; its last Send may still
				// be in progress
				want += len(burst)
				dl := time.Now().Add(10 * time.Second)
				for ms.NSent() < want && time.Now().Before(dl) {
					time.Sleep(100 * time.Microsecond)
				}
				got := map[uint64]spb.AFTResult_Status{}
				for _, resp := range ms.Take(want - len(burst)) {
					for _, x := range resp.GetResult() {
						got[x.GetId()] = x.GetStatus()
					}
				}
				for _, o := range burst {
					st, ok := got[o.ID]
					switch {
					case !ok:
						note(fmt.Sprintf("%s: operation %d of the final burst was never answered although the RPC ended OK", l, o.ID))
					case st == spb.AFTResult_RIB_PROGRAMMED:
						acked[i] = append(acked[i], o)
					}
				}
			}
		}(i)
	}
	stopAux := make(chan struct{})
	var aux sync.WaitGroup
	for g := 0; g < c.Readers; g++ {
		aux.Add(1)
		go func(g int) {
			defer aux.Done()
			<-start
			nget := g
			for {
				select {
				case <-stopAux:
					return
				default:
				}
				// every other Get of a reader is abandoned after a few responses (the consumer's Send fails): the producer must
				// let go of whatever it holds, or the sessions' next writes are never answered
				nget++
				fail := -1
				if nget%2 == 0 {
					fail = 1 + nget%3
				}
				gs := srvdrv.NewGetStream(fail)
				ch := make(chan error, 1)
				go func() {
					ch <- srv.Get(&spb.GetRequest{NetworkInstance: &spb.GetRequest_All{All: &spb.Empty{}}, Aft: spb.AFTType_ALL}, gs)
				}()
				select {
				case <-ch:
				case <-abort:
					return
				case <-time.After(10 * time.Second):
					note(fmt.Sprintf("get%d: no answer", g))
					return
				}
			}
		}(g)
	}
	flushed := false
	for g := 0; g < c.Flushers; g++ {
		flushed = true
		aux.Add(1)
		go func(g int) {
			defer aux.Done()
			<-start
			for k := 0; k < 5; k++ {
				select {
				case <-stopAux:
					return
				default:
				}
				ch := make(chan error, 1)
				go func() {
					fr := &spb.FlushRequest{NetworkInstance: &spb.FlushRequest_All{All: &spb.Empty{}}, Election: &spb.FlushRequest_Override{Override: &spb.Empty{}}}
					if k%2 == 1 {
						fr.Election = &spb.FlushRequest_Id{Id: abs.ConcID([2]int{3, 5})}
					}
					_, err := srv.Flush(context.Background(), fr)
					ch <- err
				}()
				select {
				case <-ch:
				case <-abort:
					return
				case <-time.After(10 * time.Second):
					note(fmt.Sprintf("flush%d: no answer", g))
					return
				}
				time.Sleep(200 * time.Microsecond)
			}
		}(g)
	}
	if c.Storm {
		// sessions that come and go while the elections run: newClient / deleteClient against the compare-and-set
		for g := 0; g < 2; g++ {
			aux.Add(1)
			go func() {
				defer aux.Done()
				<-start
				for {
					select {
					case <-stopAux:
						return
					case <-abort:
						return
					default:
					}
					cs := srvdrv.NewModStream()
					cd := make(chan error, 1)
					go func() { cd <- srv.Modify(cs) }()
					time.Sleep(20 * time.Microsecond)
					cs.Close(io.EOF)
					select {
					case <-cd:
					case <-abort:
						return
					case <-time.After(10 * time.Second):
						note("churn: Modify did not return after half-close")
						return
					}
				}
			}()
		}
	}
	close(start)
	wg.Wait()
	close(stopAux)
	aux.Wait()

	// the trace: events in hook order, session ids replaced by labels
	sink.Emit(Event{"ev": "concstart", "sessions": c.Sessions, "flush": flushed})
	mu.Lock()
	all := append([]Event{}, evs...)
	mu.Unlock()
	sort.SliceStable(all, func(a, b int) bool { return all[a]["seq"].(int) < all[b]["seq"].(int) })
	for _, e := range all {
		if cid, ok := e["cid"].(string); ok {
			e["s"] = lab(cid)
			delete(e, "cid")
		}
		if m, ok := e["master"].(string); ok && e["ev"] != "concend" {
			if m == "" {
				e["master"] = ""
			} else {
				e["master"] = lab(m)
			}
		}
		sink.Emit(e)
	}
	// quiescent state
	// reading the election state takes the server's locks: a wedged server must not wedge the harness
	var id *spb.Uint128
	var master string
	edone := make(chan struct{})
	go func() {
		id, master = srv.VerifElection()
		close(edone)
	}()
	select {
	case <-edone:
	case <-time.After(5 * time.Second):
		note("final state: election state unreadable (lock held by a blocked goroutine)")
		edone = nil
	}
	if edone == nil {
		id, master = nil, ""
	}
	var st *ribdrv.St
	var perr error
	pdone := make(chan struct{})
	go func() {
		st, perr = ribdrv.Project(srv.VerifRIB(), nil, func(p *spb.AFTOperation) abs.Op { return abs.AbstractOp(p) })
		close(pdone)
	}()
	select {
	case <-pdone:
	case <-time.After(5 * time.Second):
		st, perr = nil, fmt.Errorf("RIB contents unreadable within 5s (lock held by a blocked goroutine): %v", ribdrv.BlockedIn("openconfig/gribigo"))
		note("final state: RIB contents unreadable")
	}
	end := Event{"ev": "concend", "cur": abs.AbsID(id), "master": lab(master), "unanswered": unanswered, "flush": flushed}
	if master == "" {
		end["master"] = ""
	}
	ann := [][2]int{}
	for _, a := range announced {
		ann = append(ann, a...)
	}
	end["announced"] = ann
	ack := []abs.Op{}
	for _, a := range acked {
		ack = append(ack, a...)
	}
	end["acked"] = ack
	mb := []abs.Op{}
	for _, a := range maybe {
		mb = append(mb, a...)
	}
	end["maybe"] = mb
	if perr != nil {
		end["st"] = map[string]any{"error": perr.Error()}
	} else {
		st.Mirror = abs.RIBState{}
		end["st"] = st
	}
	sink.Emit(end)
	return len(unanswered), nil
}
