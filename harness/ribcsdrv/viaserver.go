package ribcsdrv

import (
	"fmt"
	"io"
	"time"

	"github.com/openconfig/gribigo/rib"
	"github.com/openconfig/gribigo/server"

	spb "github.com/openconfig/gribi/v1/proto/service"

	"verif/harness/abs"
	"verif/harness/ribdrv"
	"verif/harness/srvdrv"
)

// RunViaServer is the scenario of the open finding ribConcurrentCallsDangling driven through the real server, by Modify
// only: the primary s1 sends ADD ipv4 k1 -> group 1; its handler is parked inside the RIB between the resolution check
// and the install (gate add.checked); s2 announces a higher election id, becomes primary and deletes group 1 (not yet
// referenced: acknowledged); s1's handler is released: its operation - which passed the election check on its own
// request's snapshot - installs and is acknowledged. What is recorded: both acknowledgements and the final RIB.
func (rn *Runner) RunViaServer() bool {
	if rn.Timeout == 0 {
		rn.Timeout = 10 * time.Second
	}
	ev := map[string]any{"ev": "csrv", "ok": false, "err": "", "acks1": "", "acks2": "", "blocked": []string{}}
	st0, _ := project(nil, false, nisAll)
	ev["st"] = st0
	fail := func(format string, a ...any) bool {
		ev["err"] = fmt.Sprintf(format, a...)
		rn.Sink.Emit(ev)
		return false
	}
	srv, err := server.New(server.WithVRFs([]string{"vrf1"}))
	if err != nil {
		return fail("server.New: %v", err)
	}
	type sess struct {
		ms   *srvdrv.ModStream
		done chan error
		want int
	}
	open := func() *sess {
		s := &sess{ms: srvdrv.NewModStream(), done: make(chan error, 1)}
		go func() { s.done <- srv.Modify(s.ms) }()
		return s
	}
	send := func(s *sess, m *spb.ModifyRequest, n int) error {
		select {
		case s.ms.In() <- m:
		case err := <-s.done:
			return fmt.Errorf("RPC ended: %v", err)
		case <-time.After(rn.Timeout):
			return fmt.Errorf("server did not take the message")
		}
		s.want += n
		return nil
	}
	await := func(s *sess) error {
		dl := time.Now().Add(rn.Timeout)
		for s.ms.NSent() < s.want {
			select {
			case err := <-s.done:
				return fmt.Errorf("RPC ended: %v", err)
			default:
			}
			if time.Now().After(dl) {
				return fmt.Errorf("no answer")
			}
			time.Sleep(50 * time.Microsecond)
		}
		return nil
	}
	statusOf := func(s *sess, id uint64) string {
		for _, r := range s.ms.Take(0) {
			for _, x := range r.GetResult() {
				if x.GetId() == id {
					return x.GetStatus().String()
				}
			}
		}
		return ""
	}
	params := &spb.ModifyRequest{Params: &spb.SessionParameters{Redundancy: spb.SessionParameters_SINGLE_PRIMARY, Persistence: spb.SessionParameters_PRESERVE}}
	op := func(o abs.Op, eid uint64) (*spb.ModifyRequest, error) {
		o.PL, o.NoEID = "a", true
		if o.Typ == "DELETE" {
			o.PL = ""
		}
		p, err := abs.Concretise(o)
		if err != nil {
			return nil, err
		}
		p.ElectionId = &spb.Uint128{Low: eid}
		return &spb.ModifyRequest{Operation: []*spb.AFTOperation{p}}, nil
	}
	step := func(s *sess, m *spb.ModifyRequest, n int, what string) error {
		if err := send(s, m, n); err != nil {
			return fmt.Errorf("%s: %v", what, err)
		}
		if err := await(s); err != nil {
			return fmt.Errorf("%s: %v", what, err)
		}
		return nil
	}
	s1 := open()
	if err := step(s1, params, 1, "s1 params"); err != nil {
		return fail("%v", err)
	}
	if err := step(s1, &spb.ModifyRequest{ElectionId: &spb.Uint128{Low: 1}}, 1, "s1 election"); err != nil {
		return fail("%v", err)
	}
	for i, o := range []abs.Op{{ID: 1, NI: "DEFAULT", Typ: "ADD", Kind: "nh", Key: "1"}, {ID: 2, NI: "DEFAULT", Typ: "ADD", Kind: "nhg", Key: "1", NHs: []string{"1"}}} {
		m, err := op(o, 1)
		if err != nil {
			return fail("%v", err)
		}
		if err := step(s1, m, 1, fmt.Sprintf("s1 set-up op %d", i+1)); err != nil {
			return fail("%v", err)
		}
	}
	// the gate: the first goroutine to reach add.checked is s1's handler
	sc := &sched{roles: map[uint64]string{}, at: map[string]*parked{}, armSite: "add.checked", armRole: "s1"}
	rib.VerifSetGate(sc.gate)
	defer rib.VerifSetGate(nil)
	defer sc.release()
	m, err := op(abs.Op{ID: 3, NI: "DEFAULT", Typ: "ADD", Kind: "v4", Key: "k1", G: "1", GNI: "DEFAULT"}, 1)
	if err != nil {
		return fail("%v", err)
	}
	if err := send(s1, m, 1); err != nil {
		return fail("s1 ADD ipv4: %v", err)
	}
	dl := time.Now().Add(rn.Timeout)
	for sc.parkedAt("s1") == nil {
		if time.Now().After(dl) {
			return fail("s1's handler never reached the gate add.checked")
		}
		time.Sleep(50 * time.Microsecond)
	}
	// s2 takes over and deletes the group
	s2 := open()
	if err := step(s2, params, 1, "s2 params"); err != nil {
		return fail("%v", err)
	}
	if err := step(s2, &spb.ModifyRequest{ElectionId: &spb.Uint128{Low: 2}}, 1, "s2 election"); err != nil {
		return fail("%v", err)
	}
	m, err = op(abs.Op{ID: 4, NI: "DEFAULT", Typ: "DELETE", Kind: "nhg", Key: "1"}, 2)
	if err != nil {
		return fail("%v", err)
	}
	if err := step(s2, m, 1, "s2 DELETE group"); err != nil {
		ev["blocked"] = blockedInRib()
		return fail("%v", err)
	}
	// s1's handler goes on
	sc.grant("s1")
	sc.release()
	if err := await(s1); err != nil {
		ev["blocked"] = blockedInRib()
		return fail("s1 ADD ipv4 after the release: %v", err)
	}
	ev["acks1"], ev["acks2"] = statusOf(s1, 3), statusOf(s2, 4)
	pch := make(chan *St, 1)
	go func() {
		st, err := project(srv.VerifRIB(), true, nisAll)
		if err != nil {
			st = nil
		}
		pch <- st
	}()
	st, ok, blocked := ribdrv.AwaitOrHang(pch, rn.Timeout, "gribigo/rib.")
	if !ok || st == nil {
		ev["blocked"] = append([]string{}, blocked...)
		return fail("final state unreadable")
	}
	ev["st"] = st
	ev["ok"] = true
	for _, s := range []*sess{s1, s2} {
		s.ms.Close(io.EOF)
	}
	rn.Sink.Emit(ev)
	return true
}
