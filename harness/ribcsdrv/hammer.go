package ribcsdrv

import (
	"fmt"
	"math/rand"
	"sort"
	"sync"
	"time"

	"github.com/openconfig/gribigo/rib"

	aftpb "github.com/openconfig/gribi/v1/proto/gribi_aft"
	spb "github.com/openconfig/gribi/v1/proto/service"

	"verif/harness/abs"
)

// HammerCall is the outcome of one call of the free-running hammer.
type HammerCall struct {
	ID    uint64   `json:"id"`
	Typ   string   `json:"typ"`
	Oks   []uint64 `json:"oks"`
	Fails []uint64 `json:"fails"`
	Err   bool     `json:"err"`
}

// RunHammer lets several goroutines call AddEntry / DeleteEntry on one rib.RIB at the same time, freely (no gates): well-formed
// operations over a small shared key space (forward references included) and malformed ones. The binary is built with the
// race detector; what is recorded for TLC is the quiescent accounting: every call's answer and the held operations.
func (rn *Runner) RunHammer(n int, seed int64, workers, perWorker int) bool {
	if rn.Timeout == 0 {
		rn.Timeout = 10 * time.Second
	}
	r := rib.New("DEFAULT")
	ev := map[string]any{"ev": "chammer", "n": n, "calls": []HammerCall{}, "pend": []uint64{}, "hung": []string{}, "err": ""}
	if err := r.AddNetworkInstance("vrf1"); err != nil {
		ev["err"] = err.Error()
		rn.Sink.Emit(ev)
		return false
	}
	var mu sync.Mutex
	calls := []HammerCall{}
	var wg sync.WaitGroup
	for w := 0; w < workers; w++ {
		wg.Add(1)
		go func(w int) {
			defer wg.Done()
			rng := rand.New(rand.NewSource(seed*100 + int64(w)))
			for i := 0; i < perWorker; i++ {
				id := uint64(w+1)*100000 + uint64(i) + 1
				o := abs.Op{ID: id, NI: []string{"DEFAULT", "DEFAULT", "vrf1"}[rng.Intn(3)], NHs: []string{}, NoEID: true, PL: "a"}
				switch t := rng.Intn(10); {
				case t < 6:
					o.Typ = "ADD"
				case t < 7:
					o.Typ = "REPLACE"
				default:
					o.Typ = "DELETE"
				}
				switch k := rng.Intn(10); {
				case k < 3:
					o.Kind, o.Key = "nh", fmt.Sprint(1+rng.Intn(3))
				case k < 6:
					o.Kind, o.Key = "nhg", fmt.Sprint(1+rng.Intn(3))
					for j := 0; j <= rng.Intn(2); j++ {
						o.NHs = append(o.NHs, fmt.Sprint(1+rng.Intn(3)))
					}
				default:
					o.Kind, o.Key = []string{"v4", "v6", "mpls"}[rng.Intn(3)], fmt.Sprintf("k%d", 1+rng.Intn(3))
					o.G = fmt.Sprint(1 + rng.Intn(3))
					if rng.Intn(4) == 0 {
						o.GNI = "DEFAULT"
					}
				}
				if o.Typ == "DELETE" {
					o.PL, o.NHs, o.G, o.GNI = "", []string{}, "", ""
				}
				p, err := abs.Concretise(o)
				if err != nil {
					continue
				}
				if o.Typ != "DELETE" && rng.Intn(6) == 0 {
					// malformed: rejected by the RIB's own validation
					switch e := p.Entry.(type) {
					case *spb.AFTOperation_NextHopGroup:
						if rng.Intn(2) == 0 {
							e.NextHopGroup.NextHopGroup.NextHop = nil // empty group
						} else {
							e.NextHopGroup.NextHopGroup.NextHop = append(e.NextHopGroup.NextHopGroup.NextHop, &aftpb.Afts_NextHopGroup_NextHopKey{Index: 0, NextHop: &aftpb.Afts_NextHopGroup_NextHop{}})
						}
					case *spb.AFTOperation_Ipv4:
						e.Ipv4.Ipv4Entry.NextHopGroup = nil // zero group
					case *spb.AFTOperation_NextHop:
						e.NextHop.Index = 0
					}
				}
				var oks, fails []*rib.OpResult
				if o.Typ == "DELETE" {
					oks, fails, err = r.DeleteEntry(o.NI, p)
				} else {
					oks, fails, err = r.AddEntry(o.NI, p)
				}
				mu.Lock()
				calls = append(calls, HammerCall{ID: id, Typ: o.Typ, Oks: ids(oks), Fails: ids(fails), Err: err != nil})
				mu.Unlock()
			}
		}(w)
	}
	fin := make(chan struct{})
	go func() { wg.Wait(); close(fin) }()
	clean := true
	for waited := 0; ; waited++ {
		select {
		case <-fin:
		case <-time.After(rn.Timeout):
			if b := blockedInRib(); len(b) > 0 || waited >= 10 {
				ev["hung"] = append([]string{}, b...)
				clean = false
				if len(b) == 0 {
					ev["err"] = "the hammer did not finish (no goroutine blocked inside the package: slow machine)"
				}
			} else {
				continue
			}
		}
		break
	}
	mu.Lock()
	ev["calls"] = append([]HammerCall{}, calls...)
	mu.Unlock()
	if clean {
		pend := []uint64{}
		for id := range r.VerifPending() {
			pend = append(pend, id)
		}
		sort.Slice(pend, func(a, b int) bool { return pend[a] < pend[b] })
		ev["pend"] = pend
	}
	rn.Sink.Emit(ev)
	return clean
}
