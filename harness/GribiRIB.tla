------------------------------ MODULE GribiRIB ------------------------------
(***************************************************************************)
(* The gRIBI RIB of openconfig/gribigo (rib/rib.go) as a state machine.    *)
(*                                                                         *)
(* One action per critical section of the implementation:                  *)
(*   CallBegin / Try / CallEnd   rib.RIB.AddEntry -> addEntryInternal and  *)
(*                               the walk over the snapshot of held        *)
(*                               operations (any order of the snapshot is  *)
(*                               a legal behaviour: Go map iteration)      *)
(*   CallErr                     AddEntry/DeleteEntry returning an error   *)
(*   Delete                      rib.RIB.DeleteEntry                       *)
(*   Flush                       rib.RIB.Flush (holds the NI locks for its *)
(*                               whole duration: atomic)                   *)
(*   AddNI                       rib.RIB.AddNetworkInstance                *)
(*                                                                         *)
(* Values.  Absent entries are absent from the DOMAIN of a table (partial  *)
(* functions), never a null value.  All keys are strings (they come from   *)
(* and go to JSON).  An operation is a record                              *)
(*   [id, ni, typ, kind, key, pl, nhs, bk, g, gni, bad, eid, noeid]        *)
(*   typ  \in {"ADD","REPLACE","DELETE"}, kind \in {"nh","nhg","v4","v6",  *)
(*   "mpls"}; pl is an opaque payload identity; nhs (kind nhg) the list of *)
(*   next-hop indices as given (duplicates possible); bk the backup group  *)
(*   ("" none; never checked); g/gni (top-level kinds) the group and the   *)
(*   network instance it is looked up in ("" = own); bad # "" names a      *)
(*   malformation class (C12) - such an operation must fail cleanly; eid   *)
(*   and noeid (election id stamped on the operation) matter only to       *)
(*   GribiServer.                                                          *)
(***************************************************************************)
EXTENDS Integers, Sequences, FiniteSets, TLC

CONSTANT DefaultNI        \* name of the default network instance

VARIABLES
  fwd,      \* TRUE: forward references allowed (unresolved operations are held)
  nis,      \* set of existing network instances
  rib,      \* [nis -> [nh, nhg, top : partial functions key -> entry]]
  pend,     \* held operations: partial function id -> operation
  refNH,    \* [nis -> partial function nh index  -> number of referrers (> 0)]
  refNHG,   \* [nis -> partial function nhg index -> number of referrers (> 0)]
  call,     \* the in-flight AddEntry (call.active) or the idle record
  ref,      \* reference RIB: fold of acknowledged operations, gRIBI semantics
  mirror,   \* what a consumer folding post-change notifications holds
  pflush,   \* history: a flush of a strict subset of the instances happened
  out       \* result of the last completed call (output only)

vars == <<fwd, nis, rib, pend, refNH, refNHG, call, ref, mirror, pflush, out>>

-----------------------------------------------------------------------------
(* Partial functions *)
EmptyFn      == [x \in {} |-> TRUE]
Put(f, k, v) == [x \in (DOMAIN f) \cup {k} |-> IF x = k THEN v ELSE f[x]]
Del(f, k)    == [x \in (DOMAIN f) \ {k} |-> f[x]]
Cnt(f, k)    == IF k \in DOMAIN f THEN f[k] ELSE 0
Inc(f, k)    == Put(f, k, Cnt(f, k) + 1)
DecBy(f, k, n) == IF Cnt(f, k) <= n THEN Del(f, k) ELSE Put(f, k, f[k] - n)
Dec(f, k)    == DecBy(f, k, 1)
Range(s)     == {s[i] : i \in DOMAIN s}

EmptyNI  == [nh |-> EmptyFn, nhg |-> EmptyFn, top |-> EmptyFn]
TopKinds == {"v4", "v6", "mpls"}
Kinds    == {"nh", "nhg"} \cup TopKinds

Tab(op)  == IF op.kind \in TopKinds THEN "top" ELSE op.kind
Key(op)  == IF op.kind \in TopKinds THEN op.kind \o ":" \o op.key ELSE op.key

Entry(op) == CASE op.kind = "nh"  -> [pl |-> op.pl]
               [] op.kind = "nhg" -> [pl |-> op.pl, nhs |-> Range(op.nhs), bk |-> op.bk]
               [] OTHER           -> [pl |-> op.pl, g |-> op.g, gni |-> op.gni, kd |-> op.kind]

SetE(R, ni, tab, k, e) == [R EXCEPT ![ni] = [@ EXCEPT ![tab] = Put(@, k, e)]]
DelE(R, ni, tab, k)    == [R EXCEPT ![ni] = [@ EXCEPT ![tab] = Del(@, k)]]
HasE(R, ni, tab, k)    == k \in DOMAIN R[ni][tab]

\* the network instance in which a top-level entry's group is looked up
TargetOf(e, ni) == IF e.gni = "" THEN ni ELSE e.gni

IdleCall == [active |-> FALSE, stack |-> <<>>, done |-> {}, oks |-> <<>>, fails |-> <<>>,
             pre |-> <<>>]
NoOut    == [kind |-> "none"]

-----------------------------------------------------------------------------
(* Ground truth about references, computed from the installed entries only *)
TopReferrers(R, N, tni, g) ==
  {<<n, k>> \in UNION {{<<n2, k2>> : k2 \in DOMAIN R[n2].top} : n2 \in N} :
      TargetOf(R[n].top[k], n) = tni /\ R[n].top[k].g = g}
NHGReferrers(R, ni, i) == {k \in DOMAIN R[ni].nhg : i \in R[ni].nhg[k].nhs}

-----------------------------------------------------------------------------
(* What addEntryInternal decides for operation e (ADD or REPLACE) *)
Resolvable(e) ==
  CASE e.kind = "nh"  -> TRUE
    [] e.kind = "nhg" -> \A i \in Range(e.nhs) : i \in DOMAIN rib[e.ni].nh
    [] OTHER          -> e.g \in DOMAIN rib[TargetOf(e, e.ni)].nhg

Outcome(e) ==
  IF e.bad # "" THEN "failed"
  ELSE IF e.typ = "REPLACE" /\ ~HasE(rib, e.ni, Tab(e), Key(e)) THEN "failed"
  ELSE IF e.kind \in TopKinds /\ e.gni # "" /\ e.gni \notin nis THEN "failed"
  ELSE IF Resolvable(e) THEN "installed"
  ELSE IF fwd THEN "held" ELSE "failed"

\* an operation the RIB cannot even attempt (error return, no result record)
Unroutable(op) == op.ni = "" \/ op.ni \notin nis

RECURSIVE Norm(_, _)
Norm(st, dn) ==
  IF st = <<>> THEN st
  ELSE LET top == {x \in st[Len(st)] : x.id \notin dn} IN
       IF top = {} THEN Norm(SubSeq(st, 1, Len(st) - 1), dn)
       ELSE [st EXCEPT ![Len(st)] = top]

\* reference-counter maintenance when e is installed over the previous entry
InstallRefNHG(e) ==
  LET tni == TargetOf(e, e.ni)
      had == HasE(rib, e.ni, "top", Key(e))
      o   == rib[e.ni].top[Key(e)]
      oni == TargetOf(o, e.ni)
      r1  == IF had /\ oni \in nis
             THEN [refNHG EXCEPT ![oni] = Dec(@, o.g)] ELSE refNHG
  IN [r1 EXCEPT ![tni] = Inc(@, e.g)]

RECURSIVE IncAll(_, _), DecAll(_, _)
IncAll(f, S) == IF S = {} THEN f ELSE LET x == CHOOSE y \in S : TRUE IN IncAll(Inc(f, x), S \ {x})
DecAll(f, S) == IF S = {} THEN f ELSE LET x == CHOOSE y \in S : TRUE IN DecAll(Dec(f, x), S \ {x})

InstallRefNH(e) ==
  LET had == HasE(rib, e.ni, "nhg", Key(e))
      old == IF had THEN rib[e.ni].nhg[Key(e)].nhs ELSE {}
  IN [refNH EXCEPT ![e.ni] = DecAll(IncAll(@, Range(e.nhs)), old)]

\* gRIBI semantics of an acknowledged operation on the reference RIB
RefApply(R, op) ==
  IF op.typ = "DELETE" THEN DelE(R, op.ni, Tab(op), Key(op))
  ELSE SetE(R, op.ni, Tab(op), Key(op), Entry(op))

-----------------------------------------------------------------------------
Init(N, f) ==
  /\ fwd = f
  /\ nis = N
  /\ rib = [n \in N |-> EmptyNI]
  /\ pend = EmptyFn
  /\ refNH = [n \in N |-> EmptyFn]
  /\ refNHG = [n \in N |-> EmptyFn]
  /\ call = IdleCall
  /\ ref = [n \in N |-> EmptyNI]
  /\ mirror = [n \in N |-> EmptyNI]
  /\ pflush = FALSE
  /\ out = NoOut

(* a new RIB replaces the old one (used to concatenate traces) *)
Reset(N, f) ==
  /\ fwd' = f
  /\ nis' = N
  /\ rib' = [n \in N |-> EmptyNI]
  /\ pend' = EmptyFn
  /\ refNH' = [n \in N |-> EmptyFn]
  /\ refNHG' = [n \in N |-> EmptyFn]
  /\ call' = IdleCall
  /\ ref' = [n \in N |-> EmptyNI]
  /\ mirror' = [n \in N |-> EmptyNI]
  /\ pflush' = FALSE
  /\ out' = NoOut

(* AddEntry(ni, op) begins: ADD or REPLACE into an existing instance *)
CallBegin(op) ==
  /\ ~call.active
  /\ op.typ \in {"ADD", "REPLACE"}
  /\ ~Unroutable(op)
  /\ call' = [active |-> TRUE, stack |-> << {op} >>, done |-> {}, oks |-> <<>>, fails |-> <<>>,
              pre |-> <<rib, refNH, refNHG, mirror>>]
  /\ UNCHANGED <<fwd, nis, rib, pend, refNH, refNHG, ref, mirror, pflush, out>>

(* one execution of addEntryInternal for element e of the innermost walk *)
Try(e) ==
  /\ call.active
  /\ call.stack # <<>>
  /\ e \in call.stack[Len(call.stack)]
  /\ e.id \notin call.done
  /\ LET oc   == Outcome(e)
         rest == [call.stack EXCEPT ![Len(call.stack)] = @ \ {e}]
     IN
     CASE oc = "installed" ->
            LET p2 == Del(pend, e.id) IN
            /\ rib' = SetE(rib, e.ni, Tab(e), Key(e), Entry(e))
            /\ mirror' = SetE(mirror, e.ni, Tab(e), Key(e), Entry(e))
            /\ ref' = RefApply(ref, e)
            /\ refNHG' = IF e.kind \in TopKinds THEN InstallRefNHG(e) ELSE refNHG
            /\ refNH' = IF e.kind = "nhg" THEN InstallRefNH(e) ELSE refNH
            /\ pend' = p2
            /\ call' = [call EXCEPT !.done = @ \cup {e.id},
                                    !.oks = Append(@, e.id),
                                    !.stack = Norm(Append(rest, {p2[i] : i \in DOMAIN p2}),
                                                   call.done \cup {e.id})]
       [] oc = "held" ->
            /\ pend' = Put(pend, e.id, e)
            /\ call' = [call EXCEPT !.stack = Norm(rest, call.done)]
            /\ UNCHANGED <<rib, mirror, ref, refNH, refNHG>>
       [] oc = "failed" ->
            \* a terminal answer: the operation is no longer held and is not retried
            /\ pend' = Del(pend, e.id)
            /\ call' = [call EXCEPT !.done = @ \cup {e.id},
                                    !.fails = Append(@, e.id),
                                    !.stack = Norm(rest, call.done \cup {e.id})]
            /\ UNCHANGED <<rib, mirror, ref, refNH, refNHG>>
  /\ UNCHANGED <<fwd, nis, pflush, out>>

CallEnd ==
  /\ call.active
  /\ call.stack = <<>>
  /\ out' = [kind |-> "add", oks |-> call.oks, fails |-> call.fails]
  /\ call' = IdleCall
  /\ UNCHANGED <<fwd, nis, rib, pend, refNH, refNHG, ref, mirror, pflush>>

(* an operation addressed to no / an unknown instance: error, nothing changes *)
CallErr(op) ==
  /\ ~call.active
  /\ Unroutable(op) \/ op.bad # ""
  /\ out' = [kind |-> "err"]
  /\ UNCHANGED <<fwd, nis, rib, pend, refNH, refNHG, call, ref, mirror, pflush>>

(* DeleteEntry(ni, op).  The verdict is defined from the installed entries  *)
(* (ground truth), not from the counters; CountersExact ties the two.       *)
DeleteVerdict(op) ==
  IF op.bad # "" THEN "failed"
  ELSE IF ~HasE(rib, op.ni, Tab(op), Key(op)) THEN "ok"
  ELSE IF op.kind = "nhg" /\ TopReferrers(rib, nis, op.ni, op.key) # {} THEN "failed"
  ELSE IF op.kind = "nh" /\ NHGReferrers(rib, op.ni, op.key) # {} THEN "failed"
  ELSE "ok"

\* the values of the variables a DeleteEntry changes, as a record
DeleteNext(op) ==
  LET v   == DeleteVerdict(op)
      had == op.bad = "" /\ HasE(rib, op.ni, Tab(op), Key(op))
      o   == rib[op.ni][Tab(op)][Key(op)]
  IN
  IF v = "failed"
  THEN [out |-> [kind |-> "del", oks |-> <<>>, fails |-> <<op.id>>],
        rib |-> rib, mirror |-> mirror, ref |-> ref, refNH |-> refNH, refNHG |-> refNHG]
  ELSE [out |-> [kind |-> "del", oks |-> <<op.id>>, fails |-> <<>>],
        rib |-> DelE(rib, op.ni, Tab(op), Key(op)),
        mirror |-> DelE(mirror, op.ni, Tab(op), Key(op)),
        ref |-> RefApply(ref, op),
        refNHG |-> IF had /\ op.kind \in TopKinds /\ TargetOf(o, op.ni) \in nis
                   THEN [refNHG EXCEPT ![TargetOf(o, op.ni)] = Dec(@, o.g)]
                   ELSE refNHG,
        refNH |-> IF had /\ op.kind = "nhg"
                  THEN [refNH EXCEPT ![op.ni] = DecAll(@, o.nhs)]
                  ELSE refNH]

DeleteOK(op) == ~call.active /\ op.typ = "DELETE" /\ ~Unroutable(op)

Delete(op) ==
  /\ DeleteOK(op)
  /\ LET n == DeleteNext(op) IN
       /\ out' = n.out /\ rib' = n.rib /\ mirror' = n.mirror /\ ref' = n.ref
       /\ refNH' = n.refNH /\ refNHG' = n.refNHG
  /\ UNCHANGED <<fwd, nis, pend, call, pflush>>

(* Flush(S): every entry of the instances in S goes; held operations stay *)
AllTops(S) == UNION {{<<n2, k2>> : k2 \in DOMAIN rib[n2].top} : n2 \in S}

FlushNext(S) ==
  [rib |-> [n \in nis |-> IF n \in S THEN EmptyNI ELSE rib[n]],
   mirror |-> [n \in nis |-> IF n \in S THEN EmptyNI ELSE mirror[n]],
   ref |-> [n \in nis |-> IF n \in S THEN EmptyNI ELSE ref[n]],
   refNH |-> [n \in nis |-> IF n \in S THEN EmptyFn ELSE refNH[n]],
   refNHG |-> [n \in nis |->
        LET cntOf(g) == Cardinality({nk \in AllTops(S) :
                TargetOf(rib[nk[1]].top[nk[2]], nk[1]) = n /\ rib[nk[1]].top[nk[2]].g = g})
        IN [g \in {h \in DOMAIN refNHG[n] : refNHG[n][h] > cntOf(h)} |-> refNHG[n][g] - cntOf(g)]],
   pflush |-> (pflush \/ S # nis),
   out |-> [kind |-> "flush", ok |-> TRUE]]

FlushOK(S) == ~call.active /\ S \subseteq nis

Flush(S) ==
  /\ FlushOK(S)
  /\ LET n == FlushNext(S) IN
       /\ rib' = n.rib /\ mirror' = n.mirror /\ ref' = n.ref /\ refNH' = n.refNH
       /\ refNHG' = n.refNHG /\ pflush' = n.pflush /\ out' = n.out
  /\ UNCHANGED <<fwd, nis, pend, call>>

AddNIOK(n) == ~call.active /\ n \notin nis /\ n # ""

AddNI(n) ==
  /\ AddNIOK(n)
  /\ nis' = nis \cup {n}
  /\ rib' = Put(rib, n, EmptyNI)
  /\ mirror' = Put(mirror, n, EmptyNI)
  /\ ref' = Put(ref, n, EmptyNI)
  /\ refNH' = Put(refNH, n, EmptyFn)
  /\ refNHG' = Put(refNHG, n, EmptyFn)
  /\ out' = [kind |-> "addni"]
  /\ UNCHANGED <<fwd, pend, call, pflush>>

-----------------------------------------------------------------------------
(* Properties.  "Quiescent" = no AddEntry in flight.                       *)
Quiescent == ~call.active

\* C01: installed state = fold of the acknowledged operations
InstalledIsFold == Quiescent => rib = ref

\* C02: nothing installed dangles as long as only Modify and full flushes ran
NoDanglingOf(R, N) ==
    \A n \in N :
      /\ \A k \in DOMAIN R[n].nhg : R[n].nhg[k].nhs \subseteq DOMAIN R[n].nh
      /\ \A k \in DOMAIN R[n].top :
            LET t == TargetOf(R[n].top[k], n) IN
            t \in N /\ R[n].top[k].g \in DOMAIN R[t].nhg
NoDangling == ~pflush => NoDanglingOf(rib, nis)

\* C02: a held operation is never left unanswered while it is resolvable
NothingResolvableHeld ==
  Quiescent => \A id \in DOMAIN pend : Outcome(pend[id]) # "installed"

\* C02: without forward references nothing is ever held
NoFwdMeansNoHeld == ~fwd => pend = EmptyFn

\* C03: the counters the deletion protection relies on are exact
CountersExactOf(R, N, cNH, cNHG) ==
  \A n \in N :
    /\ \A g \in DOMAIN cNHG[n] \cup DOMAIN R[n].nhg :
         Cnt(cNHG[n], g) = Cardinality(TopReferrers(R, N, n, g))
    /\ \A i \in DOMAIN cNH[n] \cup DOMAIN R[n].nh :
         Cnt(cNH[n], i) = Cardinality(NHGReferrers(R, n, i))
CountersExact == CountersExactOf(rib, nis, refNH, refNHG)

\* C16: folding the notifications reconstructs the RIB
MirrorIsRib == mirror = rib

\* C06 (RIB level): within one call an id is answered at most once
AnswerOnce ==
  LET s == call.oks \o call.fails IN
  \A i, j \in DOMAIN s : i # j => s[i] # s[j]

\* held operations are well-formed ADD/REPLACE operations keyed by their id
PendShape ==
  \A id \in DOMAIN pend : pend[id].id = id /\ pend[id].typ \in {"ADD", "REPLACE"}
                          /\ pend[id].bad = "" /\ pend[id].ni \in nis

\* C01/C12: a call that acknowledged nothing changed no entry, counter or notification
FailedLeavesNoTrace ==
  (call.active /\ call.oks = <<>>) => call.pre = <<rib, refNH, refNHG, mirror>>
=============================================================================
