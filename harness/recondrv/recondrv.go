// Package recondrv drives the real reconciler: it builds a real target RIB
// (traced, so that the specification follows its state) and a real intended
// RIB, runs reconciler.Reconcile, records the operation sets it produced, and
// applies them to the target in the documented order.
package recondrv

import (
	"context"
	"errors"
	"fmt"
	"io"
	"math/rand"
	"sort"
	"strings"
	"sync/atomic"

	"github.com/openconfig/gribigo/server"
	"google.golang.org/grpc"
	"google.golang.org/protobuf/proto"

	"github.com/openconfig/gribigo/rib"
	"github.com/openconfig/gribigo/rib/reconciler"

	spb "github.com/openconfig/gribi/v1/proto/service"

	"verif/harness/abs"
	"verif/harness/ribdrv"
	"verif/harness/srvdrv"
)

// Input is one step of a reconcile case.
type Input struct {
	Ph      string   `json:"ph"` // init | T | freeze | I
	NIs     []string `json:"nis,omitempty"`
	TOnly   []string `json:"tonly,omitempty"`
	Op      *abs.Op  `json:"op,omitempty"`
	Scratch bool     `json:"scratch,omitempty"`
}

func item(p *spb.AFTOperation) (map[string]any, error) {
	e := abs.OpEntry(p)
	if e == nil {
		return nil, fmt.Errorf("operation %d without entry", p.GetId())
	}
	parts, err := abs.EntryParts(e)
	if err != nil {
		return nil, err
	}
	typ := map[spb.AFTOperation_Operation]string{spb.AFTOperation_ADD: "ADD", spb.AFTOperation_REPLACE: "REPLACE", spb.AFTOperation_DELETE: "DELETE"}[p.GetOp()]
	it := map[string]any{"ni": p.GetNetworkInstance(), "typ": typ, "id": p.GetId()}
	pl := abs.PLName(parts.Hash)
	switch parts.Kind {
	case "nh":
		it["tab"], it["key"], it["e"] = "nh", parts.Key, abs.NHE{PL: pl}
	case "nhg":
		nhs := parts.NHs
		if nhs == nil {
			nhs = []string{}
		}
		it["tab"], it["key"], it["e"] = "nhg", parts.Key, abs.NHGE{PL: pl, NHs: nhs, BK: parts.BK}
	default:
		it["tab"], it["key"], it["e"] = "top", parts.Kind+":"+parts.Key, abs.TopE{PL: pl, G: parts.G, GNI: parts.GNI, KD: parts.Kind}
	}
	return it, nil
}

func items(ops []*spb.AFTOperation, ids *[]uint64) ([]map[string]any, error) {
	out := []map[string]any{}
	for _, p := range ops {
		it, err := item(p)
		if err != nil {
			return nil, err
		}
		*ids = append(*ids, p.GetId())
		out = append(out, it)
	}
	return out, nil
}

func opsEvent(o *reconciler.Ops, ids *[]uint64) (map[string]any, error) {
	nh, err := items(o.NH, ids)
	if err != nil {
		return nil, err
	}
	nhg, err := items(o.NHG, ids)
	if err != nil {
		return nil, err
	}
	top, err := items(o.TopLevel, ids)
	if err != nil {
		return nil, err
	}
	return map[string]any{"nh": nh, "nhg": nhg, "top": top}, nil
}

// Run executes one reconcile case.
func Run(rn *ribdrv.Runner, ins []Input, base uint64) error {
	if len(ins) == 0 || ins[0].Ph != "init" {
		return fmt.Errorf("case must start with init")
	}
	tonly := map[string]bool{}
	for _, n := range ins[0].TOnly {
		tonly[n] = true
	}
	if err := rn.Step(ribdrv.Input{A: "reset", NIs: ins[0].NIs, Fwd: false}); err != nil {
		return err
	}
	newIntended := func() (*rib.RIB, error) {
		r := rib.New(ribdrv.DefaultNI, rib.DisableForwardReferences())
		for _, n := range ins[0].NIs {
			if n != ribdrv.DefaultNI && !tonly[n] {
				if err := r.AddNetworkInstance(n); err != nil {
					return nil, err
				}
			}
		}
		return r, nil
	}
	apply := func(r *rib.RIB, o abs.Op) error {
		p, err := abs.Concretise(o.Norm())
		if err != nil {
			return err
		}
		if o.Typ == "DELETE" {
			_, _, err = r.DeleteEntry(o.NI, p)
		} else {
			_, _, err = r.AddEntry(o.NI, p)
		}
		return err
	}
	var tops []abs.Op
	var intended *rib.RIB
	for _, in := range ins[1:] {
		switch in.Ph {
		case "T":
			tops = append(tops, *in.Op)
			if err := rn.Step(ribdrv.Input{A: "op", Op: in.Op}); err != nil {
				return err
			}
		case "flushT":
			// the target is flushed after it was populated (and read): the reconciler must see it empty
			if err := rn.Step(ribdrv.Input{A: "flush", NIs: in.NIs}); err != nil {
				return err
			}
			kept := tops[:0]
			for _, o := range tops {
				flushed := false
				for _, n := range in.NIs {
					flushed = flushed || n == o.NI
				}
				if !flushed {
					kept = append(kept, o)
				}
			}
			tops = kept
		case "freeze":
			r, err := newIntended()
			if err != nil {
				return err
			}
			intended = r
			if !in.Scratch {
				for _, o := range tops {
					if tonly[o.NI] {
						continue
					}
					if err := apply(intended, o); err != nil {
						return err
					}
				}
			}
		case "I":
			if intended == nil {
				return fmt.Errorf("I before freeze")
			}
			if err := apply(intended, *in.Op); err != nil {
				return err
			}
		}
	}
	if intended == nil {
		r, err := newIntended()
		if err != nil {
			return err
		}
		intended = r
	}
	ic, err := intended.RIBContents()
	if err != nil {
		return err
	}
	ist, err := abs.ProjectRIBs(ic)
	if err != nil {
		return err
	}
	id := &atomic.Uint64{}
	id.Store(base)
	rec := reconciler.New(reconciler.NewLocalRIB(intended), reconciler.NewLocalRIB(rn.RIB()))
	ops, err := rec.Reconcile(context.Background(), id)
	ev := ribdrv.Event{"ev": "recon", "intended": ist, "base": base}
	if err != nil {
		ev["error"] = err.Error()
		ev["ops"] = map[string]any{"add": emptyOps(), "rep": emptyOps(), "del": emptyOps()}
		ev["ids"] = []uint64{}
		rn.Sink.Emit(ev)
		rn.Sink.Emit(ribdrv.Event{"ev": "reconend"})
		return nil
	}
	ids := []uint64{}
	byID := map[uint64]bool{}
	collect := func(o *reconciler.Ops) (map[string]any, error) { return opsEvent(o, &ids) }
	add, err := collect(ops.Add)
	if err != nil {
		return err
	}
	rep, err := collect(ops.Replace)
	if err != nil {
		return err
	}
	del, err := collect(ops.Delete)
	if err != nil {
		return err
	}
	// ids in the order in which they were allocated
	sorted := append([]uint64{}, ids...)
	for i := range sorted {
		for j := i + 1; j < len(sorted); j++ {
			if sorted[j] < sorted[i] {
				sorted[i], sorted[j] = sorted[j], sorted[i]
			}
		}
	}
	_ = byID
	ev["ops"] = map[string]any{"add": add, "rep": rep, "del": del}
	ev["ids"] = sorted
	ev["remote"] = remotePlan(rn.RIB(), intended, ops)
	rn.Sink.Emit(ev)
	// documented order
	for _, set := range [][]*spb.AFTOperation{
		ops.Add.NH, ops.Add.NHG, ops.Add.TopLevel,
		ops.Replace.NH, ops.Replace.NHG, ops.Replace.TopLevel,
		ops.Delete.TopLevel, ops.Delete.NHG, ops.Delete.NH,
	} {
		for _, p := range set {
			rn.ApplyProto(p)
		}
	}
	rn.Sink.Emit(ribdrv.Event{"ev": "reconend"})
	// the same reconciler asked again, with a counter that starts lower than the ids it has already handed out: the RIBs are now
	// equal, so it produces nothing and leaves the counter where the caller put it
	id2 := &atomic.Uint64{}
	base2 := base / 2
	id2.Store(base2)
	ops2, err := rec.Reconcile(context.Background(), id2)
	ev2 := ribdrv.Event{"ev": "recon2", "base2": base2, "after": id2.Load(), "nops": 0, "error": ""}
	if err != nil {
		ev2["error"] = err.Error()
	} else {
		n := 0
		for _, o := range []*reconciler.Ops{ops2.Add, ops2.Replace, ops2.Delete} {
			n += len(o.NH) + len(o.NHG) + len(o.TopLevel)
		}
		ev2["nops"] = n
	}
	rn.Sink.Emit(ev2)
	return nil
}

func emptyOps() map[string]any {
	return map[string]any{"nh": []any{}, "nhg": []any{}, "top": []any{}}
}

// Structured generates a case in which both RIBs hold the chain NH 1 <- NHG 1 in two instances and a
// top-level entry whose group reference differs between target and intended (other group id, same id in the
// other instance), the intended RIB optionally lacking the group the target's entry used.
func Structured(rng *rand.Rand) []Input {
	nis := []string{ribdrv.DefaultNI, "vrf1", "vrf2"}
	ins := []Input{{Ph: "init", NIs: nis, TOnly: []string{}}}
	var id uint64
	add := func(ph string, o abs.Op) {
		id++
		o.ID, o.Typ, o.NoEID = id, "ADD", true
		if o.NHs == nil {
			o.NHs = []string{}
		}
		ins = append(ins, Input{Ph: ph, Op: &o})
	}
	if rng.Intn(3) == 0 {
		// groups that name each other as backup, withdrawn together (the order of the deletes is that of a Go map)
		ni := nis[rng.Intn(2)]
		add("T", abs.Op{NI: ni, Kind: "nh", Key: "1", PL: "a"})
		add("T", abs.Op{NI: ni, Kind: "nhg", Key: "2", PL: abs.NHGPayloads[0], NHs: []string{"1"}})
		add("T", abs.Op{NI: ni, Kind: "nhg", Key: "1", PL: abs.NHGPayloads[0], NHs: []string{"1"}, BK: "2"})
		if rng.Intn(2) == 0 {
			add("T", abs.Op{NI: ni, Kind: "nhg", Key: "3", PL: abs.NHGPayloads[0], NHs: []string{"1"}, BK: "1"})
		}
		ins = append(ins, Input{Ph: "freeze", Scratch: true})
		if rng.Intn(2) == 0 {
			add("I", abs.Op{NI: ni, Kind: "nh", Key: "1", PL: "a"})
		}
		return ins
	}
	kind := []string{"v4", "v6", "mpls"}[rng.Intn(3)]
	topNI := nis[rng.Intn(2)]
	gnis := []string{"", nis[0], nis[1]}
	tg, ig := gnis[rng.Intn(3)], gnis[rng.Intn(3)]
	tG, iG := fmt.Sprint(1+rng.Intn(2)), fmt.Sprint(1+rng.Intn(2))
	dropOld := rng.Intn(2) == 0
	oldNI := tg
	if oldNI == "" {
		oldNI = topNI
	}
	build := func(ph string, g, gni string) {
		for _, ni := range nis[:2] {
			add(ph, abs.Op{NI: ni, Kind: "nh", Key: "1", PL: "a"})
			for _, gid := range []string{"1", "2"} {
				if ph == "I" && dropOld && ni == oldNI && gid == tG && !(ni == func() string {
					if gni == "" {
						return topNI
					}
					return gni
				}() && gid == g) {
					continue // the intended RIB no longer has the group the target's entry pointed at
				}
				add(ph, abs.Op{NI: ni, Kind: "nhg", Key: gid, PL: abs.NHGPayloads[0], NHs: []string{"1"}})
			}
		}
		add(ph, abs.Op{NI: topNI, Kind: kind, Key: "k1", PL: abs.TopPayloads[0], G: g, GNI: gni})
	}
	if rng.Intn(3) == 0 {
		// the entry is the same on both sides but for its decapsulation header (payload "d" = payload "a" + decapsulation)
		tpl, ipl := "a", "d"
		if rng.Intn(2) == 0 {
			tpl, ipl = "d", "a"
		}
		for _, ph := range []string{"T", "I"} {
			if ph == "I" {
				ins = append(ins, Input{Ph: "freeze", Scratch: true})
			}
			add(ph, abs.Op{NI: topNI, Kind: "nh", Key: "1", PL: "a"})
			add(ph, abs.Op{NI: topNI, Kind: "nhg", Key: "1", PL: abs.NHGPayloads[0], NHs: []string{"1"}})
			add(ph, abs.Op{NI: topNI, Kind: kind, Key: "k1", PL: map[string]string{"T": tpl, "I": ipl}[ph], G: "1"})
		}
		return ins
	}
	build("T", tG, tg)
	if rng.Intn(3) == 0 {
		// the target was populated, read, and then flushed (all of it, or the instance of the top-level entry)
		fl := nis[:2]
		if rng.Intn(2) == 0 {
			fl = []string{topNI}
		}
		ins = append(ins, Input{Ph: "flushT", NIs: fl})
	}
	ins = append(ins, Input{Ph: "freeze", Scratch: true})
	build("I", iG, ig)
	return ins
}

// Random generates a reconcile case over a larger universe.
func Random(rng *rand.Rand) []Input {
	if rng.Intn(4) == 0 {
		return Structured(rng)
	}
	nis := []string{ribdrv.DefaultNI, "vrf1", "vrf2"}
	tonly := []string{}
	if rng.Intn(2) == 0 {
		tonly = []string{"vrf2"}
	}
	ins := []Input{{Ph: "init", NIs: nis, TOnly: tonly}}
	isT := map[string]bool{}
	for _, n := range tonly {
		isT[n] = true
	}
	// next-hop payloads without boolean leaves (see KNOWN_FINDINGS getBoolLeafDropped)
	nhpl := []string{"a", "b", "c", "d", "e", "g", "h", "i"}
	var id uint64
	var tkeep []abs.Op
	gen := func(ph string, n int) {
		have := map[string]bool{}
		for i := 0; i < n; i++ {
			// the intended RIB often re-programs a key of the target with another
			// payload / member set (supersets, subsets, disjoint)
			if ph == "I" && len(tkeep) > 0 && rng.Intn(2) == 0 {
				id++
				o := tkeep[rng.Intn(len(tkeep))]
				o.ID = id
				switch o.Kind {
				case "nh":
					o.PL = nhpl[rng.Intn(len(nhpl))]
				case "nhg":
					o.PL = abs.NHGPayloads[rng.Intn(2)]
					switch rng.Intn(3) {
					case 0:
						if len(o.NHs) > 1 {
							o.NHs = o.NHs[:1]
						}
					case 1:
						o.NHs = append(append([]string{}, o.NHs...), fmt.Sprint(1+rng.Intn(3)))
					}
					if rng.Intn(3) == 0 {
						o.BK = ""
					}
				default:
					o.PL = abs.TopPayloads[rng.Intn(len(abs.TopPayloads))]
					// ... or points at another group, or at the same group id in another instance
					switch rng.Intn(4) {
					case 0:
						o.G = fmt.Sprint(1 + rng.Intn(2))
					case 1:
						o.GNI = []string{"", nis[0], nis[1]}[rng.Intn(3)]
					}
				}
				if !isT[o.NI] {
					oo := o
					ins = append(ins, Input{Ph: ph, Op: &oo})
					continue
				}
			}
			id++
			ni := nis[rng.Intn(len(nis))]
			if ph == "I" && isT[ni] {
				ni = nis[0]
			}
			o := abs.Op{ID: id, NI: ni, Typ: "ADD", NHs: []string{}, NoEID: true}
			if rng.Intn(6) == 0 {
				o.Typ = "DELETE"
			}
			switch k := rng.Intn(10); {
			case k < 4:
				o.Kind, o.Key, o.PL = "nh", fmt.Sprint(1+rng.Intn(3)), nhpl[rng.Intn(len(nhpl))]
				have["nh"+ni+o.Key] = true
			case k < 7:
				o.Kind, o.Key, o.PL = "nhg", fmt.Sprint(1+rng.Intn(2)), abs.NHGPayloads[rng.Intn(len(abs.NHGPayloads))]
				for j := 0; j <= rng.Intn(2); j++ {
					o.NHs = append(o.NHs, fmt.Sprint(1+rng.Intn(3)))
				}
				if rng.Intn(5) == 0 {
					o.BK = fmt.Sprint(1 + rng.Intn(2))
				}
			default:
				o.Kind = []string{"v4", "v6", "mpls"}[rng.Intn(3)]
				o.Key, o.PL, o.G = fmt.Sprintf("k%d", 1+rng.Intn(2)), abs.TopPayloads[rng.Intn(len(abs.TopPayloads))], fmt.Sprint(1+rng.Intn(2))
				if rng.Intn(3) == 0 {
					g := nis[rng.Intn(2)] // never into a target-only instance
					o.GNI = g
				}
			}
			if o.Typ == "DELETE" {
				o.PL, o.NHs, o.BK, o.G, o.GNI = "", []string{}, "", "", ""
			}
			oo := o
			ins = append(ins, Input{Ph: ph, Op: &oo})
			if ph == "T" && o.Typ == "ADD" {
				tkeep = append(tkeep, o)
			}
		}
	}
	gen("T", 4+rng.Intn(14))
	ins = append(ins, Input{Ph: "freeze", Scratch: rng.Intn(3) == 0})
	gen("I", rng.Intn(12))
	return ins
}

// ---------------------------------------------------------------------------
// The same reconciliation with the target reached through reconciler.RemoteRIB (client.Get over a stub that
// calls a real server holding the target RIB, rib.FromGetResponses): its plan must be the local one.

type getIter struct {
	n int
	grpc.ClientStream
	rs []*spb.GetResponse
}

func (g *getIter) Recv() (*spb.GetResponse, error) {
	if len(g.rs) == 0 {
		return nil, io.EOF
	}
	r := g.rs[0]
	g.rs = g.rs[1:]
	// a device may fill in the optional programming status of an entry; whatever it says, the entry is in its RIB
	g.n++
	for i, e := range r.GetEntry() {
		switch (g.n + i) % 3 {
		case 1:
			e.RibStatus, e.FibStatus = spb.AFTEntry_PROGRAMMED, spb.AFTEntry_NOT_PROGRAMMED
		case 2:
			e.RibStatus, e.FibStatus = spb.AFTEntry_PROGRAMMED, spb.AFTEntry_PROGRAMMED
		}
	}
	return r, nil
}

type srvStub struct{ srv *server.FakeServer }

func (s *srvStub) Modify(context.Context, ...grpc.CallOption) (spb.GRIBI_ModifyClient, error) {
	return nil, errors.New("unused")
}
func (s *srvStub) Flush(context.Context, *spb.FlushRequest, ...grpc.CallOption) (*spb.FlushResponse, error) {
	return nil, errors.New("unused")
}
func (s *srvStub) Get(_ context.Context, req *spb.GetRequest, _ ...grpc.CallOption) (spb.GRIBI_GetClient, error) {
	gs := srvdrv.NewGetStream(-1)
	if err := s.srv.Get(req, gs); err != nil {
		return nil, err
	}
	return &getIter{rs: gs.Got()}, nil
}

func planKey(o *reconciler.ReconcileOps) ([]string, error) {
	out := []string{}
	for cat, set := range map[string]*reconciler.Ops{"add": o.Add, "rep": o.Replace, "del": o.Delete} {
		for tab, ps := range map[string][]*spb.AFTOperation{"nh": set.NH, "nhg": set.NHG, "top": set.TopLevel} {
			for _, p := range ps {
				q := proto.Clone(p).(*spb.AFTOperation)
				q.Id = 0
				if g := q.GetNextHopGroup().GetNextHopGroup(); g != nil {
					// the order of a group's next-hop list is the order of a Go map: not part of the plan
					sort.Slice(g.NextHop, func(i, j int) bool { return g.NextHop[i].GetIndex() < g.NextHop[j].GetIndex() })
				}
				b, err := proto.MarshalOptions{Deterministic: true}.Marshal(q)
				if err != nil {
					return nil, err
				}
				out = append(out, cat+"/"+tab+"/"+string(b))
			}
		}
	}
	sort.Strings(out)
	return out, nil
}

func remotePlan(target, intended *rib.RIB, local *reconciler.ReconcileOps) string {
	fs, err := server.NewFake()
	if err != nil {
		return "error: " + err.Error()
	}
	fs.InjectRIB(target)
	rr, err := reconciler.NewRemoteRIBWithStub(ribdrv.DefaultNI, &srvStub{srv: fs})
	if err != nil {
		return "error: " + err.Error()
	}
	id := &atomic.Uint64{}
	ops, err := reconciler.New(reconciler.NewLocalRIB(intended), rr).Reconcile(context.Background(), id)
	if err != nil {
		return "error: " + err.Error()
	}
	a, err := planKey(local)
	if err != nil {
		return "error: " + err.Error()
	}
	b, err := planKey(ops)
	if err != nil {
		return "error: " + err.Error()
	}
	if len(a) != len(b) {
		return fmt.Sprintf("differs: %d operations through the remote target, %d through the local one", len(b), len(a))
	}
	for i := range a {
		if a[i] != b[i] {
			return "differs: " + strings.SplitN(b[i], "/", 3)[0] + "/" + strings.SplitN(b[i], "/", 3)[1]
		}
	}
	return "same"
}
