------------------------- MODULE GribiReconcile_MC -------------------------
(* Bounded exploration of C15: a target RIB is built by a few operations    *)
(* (forward references off, so nothing is held), an intended RIB by a few   *)
(* more from there or from scratch; then the plan Plan(intended, target) is *)
(* applied to the target through the RIB actions in the documented order.   *)
EXTENDS GribiReconcile, Json

CONSTANTS NIs, TOnly, NHK, NHGK, NHLists, TopK, GNIs, PLs, MaxBuild, EmitOn   \* TOnly: instances only the target has

VARIABLES phase,   \* "T" building the target, "I" building the intended, "apply", "done"
          tgt,     \* snapshot of the target: <<rib, refNH, refNHG>>
          intended,
          todo,    \* remaining sets of the plan (sequence of sets)
          nb, nid, failed, hist
rvars == <<vars, phase, tgt, intended, todo, nb, nid, failed, hist>>

L_1    == {<<"1">>}
L_1_12 == {<<"1">>, <<"1", "2">>, <<"2">>}
T_v4   == {<<"v4", "k1">>}
T_2    == {<<"v4", "k1">>, <<"mpls", "k1">>}

Base(id, n, t, kd, k) ==
  [id |-> id, ni |-> n, typ |-> t, kind |-> kd, key |-> k, pl |-> "", nhs |-> <<>>,
   bk |-> "", g |-> "", gni |-> "", bad |-> "", eid |-> <<0, 0>>, noeid |-> TRUE]

BuildOps(id) ==
       {[Base(id, n, "ADD", "nh", k) EXCEPT !.pl = p] : n \in NIs, k \in NHK, p \in PLs}
  \cup {Base(id, n, "DELETE", "nh", k) : n \in NIs, k \in NHK}
  \cup {[Base(id, n, "ADD", "nhg", k) EXCEPT !.pl = p, !.nhs = l] : n \in NIs, k \in NHGK, p \in PLs, l \in NHLists}
  \cup {Base(id, n, "DELETE", "nhg", k) : n \in NIs, k \in NHGK}
  \cup {[Base(id, n, "ADD", kk[1], kk[2]) EXCEPT !.pl = p, !.g = g, !.gni = gn] :
            n \in NIs, kk \in TopK, p \in PLs, g \in NHGK, gn \in GNIs}
  \cup {Base(id, n, "DELETE", kk[1], kk[2]) : n \in NIs, kk \in TopK}

\* the operation that a plan item denotes
ItemOp(it, id) ==
  LET e == it.e IN
  IF it.tab = "nh" THEN [Base(id, it.ni, it.typ, "nh", it.key) EXCEPT !.pl = IF it.typ = "DELETE" THEN "" ELSE e.pl]
  ELSE IF it.tab = "nhg" THEN
       [Base(id, it.ni, it.typ, "nhg", it.key) EXCEPT !.pl = IF it.typ = "DELETE" THEN "" ELSE e.pl,
           !.nhs = IF it.typ = "DELETE" THEN <<>> ELSE SetToSeq(e.nhs), !.bk = IF it.typ = "DELETE" THEN "" ELSE e.bk]
  ELSE [Base(id, it.ni, it.typ, e.kd, BareKey(it.key, e.kd)) EXCEPT !.pl = IF it.typ = "DELETE" THEN "" ELSE e.pl,
           !.g = IF it.typ = "DELETE" THEN "" ELSE e.g, !.gni = IF it.typ = "DELETE" THEN "" ELSE e.gni]

MCInit ==
  /\ Init(NIs, FALSE)
  /\ phase = "T" /\ tgt = <<>> /\ intended = <<>> /\ todo = <<>> /\ nb = 0 /\ nid = 1 /\ failed = FALSE
  /\ hist = << [ph |-> "init", nis |-> NIs, tonly |-> TOnly] >>

Effective(op) == IF op.typ = "DELETE" THEN HasE(rib, op.ni, Tab(op), Key(op)) /\ DeleteVerdict(op) = "ok"
                 ELSE Outcome(op) = "installed"

Build ==
  /\ phase \in {"T", "I"} /\ ~call.active /\ nb < MaxBuild
  /\ \E op \in BuildOps(nid) :
       /\ (phase = "T" \/ op.ni \notin TOnly)
       /\ Effective(op)
       /\ (CallBegin(op) \/ Delete(op))
       /\ hist' = Append(hist, [ph |-> phase, op |-> op])
  /\ nb' = nb + 1 /\ nid' = nid + 1
  /\ UNCHANGED <<phase, tgt, intended, todo, failed>>

Internal ==
  /\ call.active
  /\ ((\E e \in UNION Range(call.stack) : Try(e)) \/ CallEnd)
  /\ UNCHANGED <<phase, tgt, intended, todo, nb, nid, hist>>
  /\ failed' = (failed \/ (phase = "apply" /\ call'.fails # <<>>))

\* the target is complete: remember it; the intended RIB is built from here or from scratch
FreezeT ==
  /\ phase = "T" /\ ~call.active
  /\ tgt' = <<rib, refNH, refNHG>>
  /\ phase' = "I" /\ nb' = 0
  /\ \/ UNCHANGED <<rib, refNH, refNHG, mirror, ref>> /\ hist' = Append(hist, [ph |-> "freeze", scratch |-> FALSE])
     \/ /\ rib' = [n \in nis |-> EmptyNI] /\ mirror' = [n \in nis |-> EmptyNI] /\ ref' = [n \in nis |-> EmptyNI]
        /\ refNH' = [n \in nis |-> EmptyFn] /\ refNHG' = [n \in nis |-> EmptyFn]
        /\ hist' = Append(hist, [ph |-> "freeze", scratch |-> TRUE])
  /\ UNCHANGED <<fwd, nis, pend, call, pflush, out, intended, todo, nid, failed>>

\* the intended RIB is complete: swap the target back in and compute the plan
FreezeI ==
  /\ phase = "I" /\ ~call.active
  /\ intended' = [n \in nis \ TOnly |-> rib[n]]
  /\ rib' = tgt[1] /\ refNH' = tgt[2] /\ refNHG' = tgt[3] /\ mirror' = tgt[1] /\ ref' = tgt[1]
  /\ todo' = PlanOrder(Plan([n \in nis \ TOnly |-> rib[n]], tgt[1]))
  /\ phase' = "apply"
  /\ UNCHANGED <<fwd, nis, pend, call, pflush, out, tgt, nb, nid, failed, hist>>

\* send one operation of the first non-empty set (any order within a set)
Apply ==
  /\ phase = "apply" /\ ~call.active /\ todo # <<>>
  /\ IF Head(todo) = {} THEN todo' = Tail(todo) /\ UNCHANGED <<vars, nid, failed>>
     ELSE \E it \in Head(todo) :
            LET op == ItemOp(it, nid) IN
            /\ todo' = <<Head(todo) \ {it}>> \o Tail(todo)
            /\ nid' = nid + 1
            /\ IF op.typ = "DELETE"
               THEN Delete(op) /\ failed' = (failed \/ DeleteVerdict(op) # "ok")
               ELSE CallBegin(op) /\ failed' = (failed \/ Outcome(op) # "installed")
  /\ UNCHANGED <<phase, tgt, intended, nb, hist>>

Finish ==
  /\ phase = "apply" /\ ~call.active /\ todo = <<>>
  /\ phase' = "done"
  /\ UNCHANGED <<vars, tgt, intended, todo, nb, nid, failed, hist>>

MCNext == Build \/ Internal \/ FreezeT \/ FreezeI \/ Apply \/ Finish
MCSpec == MCInit /\ [][MCNext]_rvars

\* C15
EachOpSucceeds == ~failed
Converges == phase = "done" => (pend = EmptyFn /\ \A n \in nis : rib[n] = NIof(intended, n))
EqualGivesNothing == (phase = "apply" /\ \A n \in nis : NIof(intended, n) = tgt[1][n]) => \A i \in DOMAIN todo : todo[i] = {}
CountersStayExact == CountersExact

View == <<nis, rib, pend, refNH, refNHG, call, phase, tgt, intended, todo, nb, failed>>
Emit == (EmitOn /\ phase = "done") => PrintT("@@" \o ToJson(hist))
=============================================================================
