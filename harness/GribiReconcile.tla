--------------------------- MODULE GribiReconcile ---------------------------
(***************************************************************************)
(* The reconciler (rib/reconciler): the operations that turn a target RIB  *)
(* into an intended RIB, written from the package documentation:           *)
(*   for every network instance of either RIB and every table, a key that  *)
(*   only the intended RIB has is ADDed, a key both have with different    *)
(*   content is re-programmed (the "replace" set), a key only the target   *)
(*   has is DELETEd.  The sets are sent in the documented order: added     *)
(*   next-hops, groups, top-level entries; replaces (same order); deletes  *)
(*   of top-level entries, groups, next-hops.                              *)
(* Applying them through the RIB (GribiRIB actions) must acknowledge every *)
(* operation at once and end with target = intended (C15).                 *)
(***************************************************************************)
EXTENDS GribiRIB

RECURSIVE SetToSeq(_)
SetToSeq(S) == IF S = {} THEN <<>> ELSE LET x == CHOOSE y \in S : TRUE IN <<x>> \o SetToSeq(S \ {x})

\* the bare key of a top-level table key "kind:key" (the three kinds have fixed prefixes)
BareKey(k, kd) == CHOOSE b \in {"k1", "k2", "k3", "k4", "k5", "k6"} : kd \o ":" \o b = k

NIof(R, n) == IF n \in DOMAIN R THEN R[n] ELSE EmptyNI

DiffSet(I, T, typ, tab) ==
  LET N == DOMAIN I \cup DOMAIN T IN
  UNION {
    LET it == NIof(I, n)[tab]
        tt == NIof(T, n)[tab]
        ks == CASE typ = "ADD" -> DOMAIN it \ DOMAIN tt
                [] typ = "REP" -> {k \in DOMAIN it \cap DOMAIN tt : it[k] # tt[k]}
                [] OTHER       -> DOMAIN tt \ DOMAIN it
    IN {[ni |-> n, tab |-> tab, key |-> k,
         e |-> IF typ = "DEL" THEN tt[k] ELSE it[k],
         typ |-> IF typ = "DEL" THEN "DELETE" ELSE "ADD"] : k \in ks}
    : n \in N}

\* the nine operation sets (content only: ids are assigned by the implementation)
Plan(I, T) ==
  [add |-> [nh |-> DiffSet(I, T, "ADD", "nh"), nhg |-> DiffSet(I, T, "ADD", "nhg"), top |-> DiffSet(I, T, "ADD", "top")],
   rep |-> [nh |-> DiffSet(I, T, "REP", "nh"), nhg |-> DiffSet(I, T, "REP", "nhg"), top |-> DiffSet(I, T, "REP", "top")],
   del |-> [nh |-> DiffSet(I, T, "DEL", "nh"), nhg |-> DiffSet(I, T, "DEL", "nhg"), top |-> DiffSet(I, T, "DEL", "top")]]

\* documented order of the sets
PlanOrder(P) == <<P.add.nh, P.add.nhg, P.add.top, P.rep.nh, P.rep.nhg, P.rep.top, P.del.top, P.del.nhg, P.del.nh>>

\* a reference-closed RIB (every group's next-hops and every entry's group are installed)
Closed(R) == NoDanglingOf(R, DOMAIN R)
=============================================================================
