------------------------------ MODULE GribiChk ------------------------------
(***************************************************************************)
(* The assertion helpers of package chk as a direct specification: each    *)
(* helper reports a fatal test failure if and only if the expected item is *)
(* absent from what it is given, under exactly the documented options.     *)
(*                                                                         *)
(* A result is [id, st, err, cerr, elec, sp, det] with det = [nil, typ,     *)
(* kind, key] (nil = TRUE: no details).  A Get entry / wanted entry is     *)
(* [ni, kind, key].  A status is [code, msg, det].                         *)
(***************************************************************************)
EXTENDS Integers, Sequences, FiniteSets, TLC

Range(s) == {s[i] : i \in DOMAIN s}

(* ---- HasResult ---- *)
\* o = [ignoreID, includeErr]
ResEq(r, w, o) ==
  /\ ~r.isnil
  /\ (o.ignoreID \/ r.id = w.id)
  /\ r.st = w.st
  /\ (~o.includeErr \/ r.err = w.err)
  /\ r.cerr = w.cerr /\ r.elec = w.elec /\ r.sp = w.sp
  /\ (w.det.nil \/ r.det = w.det)

HasResultFatal(res, w, o) == ~\E i \in DOMAIN res : ResEq(res[i], w, o)

(* ---- HasResultsCache ---- *)
\* the key under which the cached checker files a result
CKey(r, o) == IF ~o.ignoreID THEN <<"id", r.id>>
              ELSE IF r.det.nil THEN <<"none", 0>> ELSE <<r.det.kind, r.det.key>>
KeysUnique(res, o) ==
  \A i, j \in DOMAIN res : (i # j /\ ~res[i].isnil /\ ~res[j].isnil) => CKey(res[i], o) # CKey(res[j], o)
PlainFatal(res, wants, o) == \E k \in DOMAIN wants : HasResultFatal(res, wants[k], o)
\* a wanted result without details cannot be looked up when operation ids are ignored: a test error
CacheTestError(wants, o) == o.ignoreID /\ \E k \in DOMAIN wants : wants[k].det.nil
\* the verdicts the property allows for the cached checker
CacheVerdictOK(res, wants, o, fatal) ==
  /\ (PlainFatal(res, wants, o) => fatal)
  /\ (CacheTestError(wants, o) => fatal)
  /\ ((KeysUnique(res, o) /\ ~CacheTestError(wants, o) /\ \A i \in DOMAIN res : ~res[i].isnil) => (fatal = PlainFatal(res, wants, o)))

(* ---- GetResponseHasEntries ---- *)
\* want = [ni, kind, key, valid] (valid = FALSE: the wanted entry has no network instance / no entry)
GetFatal(entries, wants) ==
  \E k \in DOMAIN wants :
     \/ ~wants[k].valid
     \/ ~\E i \in DOMAIN entries : entries[i].ni = wants[k].ni /\ entries[i].kind = wants[k].kind /\ entries[i].key = wants[k].key

(* ---- HasNSendErrors / HasNRecvErrors ---- *)
\* e = [isnil, isclient, n] : the error value handed in and the number of send (recv) errors it holds
NErrorsFatal(e, count) ==
  IF e.isnil THEN count # 0
  ELSE IF ~e.isclient THEN TRUE
  ELSE e.n # count

(* ---- HasRecvClientErrorWithStatus ---- *)
\* o = [allowUnimpl, ignoreDets]
StatusMatch(e, w, o) ==
  \/ /\ e.code = w.code
     /\ (w.msg = "" \/ e.msg = w.msg)
     /\ (o.ignoreDets \/ e.det = w.det)
  \/ (o.allowUnimpl /\ e.code = "Unimplemented")
RecvStatusFatal(e, w, o) ==
  IF e.isnil \/ ~e.isclient THEN TRUE
  ELSE ~\E i \in DOMAIN e.recv : e.recv[i].isstatus /\ StatusMatch(e.recv[i], w, o)
=============================================================================
