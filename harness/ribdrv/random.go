package ribdrv

import (
	"fmt"
	"math/rand"

	"verif/harness/abs"
)

// RandomCfg bounds the random input generator.
type RandomCfg struct {
	NIs      []string // first is the default
	LateNIs  []string
	NH, NHG  int // key ranges 1..n
	Tops     int // keys k1..kn per kind
	Len      int
	BadPct   int // percentage of malformed operations
	FlushPct int
	ReusePct int // percentage of operations re-using an earlier id
	AwarePct int // percentage of references chosen among keys already requested
}

// SmallRandomCfg is a small alphabet with state-aware reference selection, so
// that installed chains, retargeting replaces and cross-instance references
// are frequent.
func SmallRandomCfg() RandomCfg {
	return RandomCfg{NIs: []string{DefaultNI, "vrf1"}, LateNIs: []string{"late1"}, NH: 2, NHG: 2, Tops: 2, Len: 40, BadPct: 3, FlushPct: 6, AwarePct: 75}
}

func DefaultRandomCfg() RandomCfg {
	return RandomCfg{NIs: []string{DefaultNI, "vrf1", "vrf2"}, LateNIs: []string{"late1"}, NH: 4, NHG: 3, Tops: 3, Len: 60, BadPct: 4, FlushPct: 3}
}

// Random generates one input sequence (starting with a reset).
func Random(rng *rand.Rand, c RandomCfg) []Input {
	fwd := rng.Intn(4) != 0
	ins := []Input{{A: "reset", NIs: append([]string{}, c.NIs...), Fwd: fwd}}
	nis := append([]string{}, c.NIs...)
	late := append([]string{}, c.LateNIs...)
	kinds := []string{"nh", "nh", "nhg", "nhg", "v4", "v4", "v6", "mpls"}
	var id uint64
	pick := func(n int) string { return fmt.Sprint(1 + rng.Intn(n)) }
	haveNH, haveNHG := map[string][]string{}, map[string][]string{}
	aware := func(have []string, n int) string {
		if len(have) > 0 && rng.Intn(100) < c.AwarePct {
			return have[rng.Intn(len(have))]
		}
		return pick(n)
	}
	for len(ins) < c.Len+1 {
		r := rng.Intn(100)
		switch {
		case r < c.FlushPct:
			var s []string
			if rng.Intn(2) == 0 {
				s = append(s, nis...)
			} else {
				for _, n := range nis {
					if rng.Intn(2) == 0 {
						s = append(s, n)
					}
				}
				if len(s) == 0 {
					s = []string{nis[rng.Intn(len(nis))]}
				}
			}
			ins = append(ins, Input{A: "flush", NIs: s})
			continue
		case r < c.FlushPct+2 && len(late) > 0:
			ins = append(ins, Input{A: "addni", NI: late[0]})
			nis = append(nis, late[0])
			late = late[1:]
			continue
		}
		id++
		o := abs.Op{ID: id, NI: nis[rng.Intn(len(nis))], Kind: kinds[rng.Intn(len(kinds))], NHs: []string{}, NoEID: true}
		if c.ReusePct > 0 && id > 3 && rng.Intn(100) < c.ReusePct {
			o.ID = 1 + uint64(rng.Intn(int(id)-1))
		}
		switch t := rng.Intn(10); {
		case t < 5:
			o.Typ = "ADD"
		case t < 7:
			o.Typ = "REPLACE"
		default:
			o.Typ = "DELETE"
		}
		switch rng.Intn(40) {
		case 0:
			o.NI = "nosuchni"
		case 1:
			o.NI = ""
		}
		switch o.Kind {
		case "nh":
			o.Key = pick(c.NH)
			o.PL = abs.NHPayloads[rng.Intn(len(abs.NHPayloads))]
		case "nhg":
			o.Key = pick(c.NHG)
			o.PL = abs.NHGPayloads[rng.Intn(len(abs.NHGPayloads))]
			n := 1 + rng.Intn(3)
			for i := 0; i < n; i++ {
				o.NHs = append(o.NHs, aware(haveNH[o.NI], c.NH))
			}
			if rng.Intn(4) == 0 {
				o.BK = pick(c.NHG + 1)
			}
		default:
			o.Key = "k" + pick(c.Tops)
			o.PL = abs.TopPayloads[rng.Intn(len(abs.TopPayloads))]
			switch g := rng.Intn(8); {
			case g < 3:
				o.GNI = nis[rng.Intn(len(nis))]
			case g == 3 && rng.Intn(5) == 0:
				o.GNI = "nosuchni"
			}
			tni := o.GNI
			if tni == "" {
				tni = o.NI
			}
			o.G = aware(haveNHG[tni], c.NHG)
		}
		if o.Typ == "DELETE" {
			o.PL, o.NHs, o.BK, o.G, o.GNI = "", []string{}, "", "", ""
		} else if o.Kind == "nh" {
			haveNH[o.NI] = append(haveNH[o.NI], o.Key)
		} else if o.Kind == "nhg" {
			haveNHG[o.NI] = append(haveNHG[o.NI], o.Key)
		}
		if rng.Intn(100) < c.BadPct {
			// malformed operations preferably name a key that is likely installed
			if o.Kind == "nh" && len(haveNH[o.NI]) > 0 && rng.Intn(2) == 0 {
				o.Key = haveNH[o.NI][rng.Intn(len(haveNH[o.NI]))]
			}
			if o.Kind == "nhg" && len(haveNHG[o.NI]) > 0 && rng.Intn(2) == 0 {
				o.Key = haveNHG[o.NI][rng.Intn(len(haveNHG[o.NI]))]
			}
			cs := abs.BadClasses(o.Kind, o.Typ)
			o.Bad = cs[rng.Intn(len(cs))]
		}
		ins = append(ins, Input{A: "op", Op: &o})
	}
	return ins
}
