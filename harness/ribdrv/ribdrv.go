// Package ribdrv drives the real rib package with abstract input sequences and
// records, for every call, one trace event per action of GribiRIB.tla.
package ribdrv

import (
	"encoding/json"
	"fmt"
	"io"
	"reflect"
	"runtime"
	"sort"
	"strconv"
	"strings"
	"sync"
	"sync/atomic"
	"time"

	"github.com/openconfig/gribigo/aft"
	"github.com/openconfig/gribigo/constants"
	"github.com/openconfig/gribigo/rib"
	"github.com/openconfig/ygot/ygot"

	spb "github.com/openconfig/gribi/v1/proto/service"

	"verif/harness/abs"
)

const DefaultNI = "DEFAULT"

// Input is one step of an input sequence (emitted by TLC or by a random driver).
type Input struct {
	A   string   `json:"a"` // reset | op | flush | addni | hookstall
	Ms  int      `json:"ms,omitempty"`
	Op  *abs.Op  `json:"op,omitempty"`
	NIs []string `json:"nis,omitempty"`
	NI  string   `json:"ni,omitempty"`
	Fwd bool     `json:"fwd,omitempty"`
}

// St is the abstract state logged after every call.
type St struct {
	Rib    abs.RIBState                 `json:"rib"`
	Pend   []abs.Op                     `json:"pend"`
	RefNH  map[string]map[string]uint64 `json:"refNH"`
	RefNHG map[string]map[string]uint64 `json:"refNHG"`
	Mirror abs.RIBState                 `json:"mirror"`
}

// Event is one trace line.
type Event map[string]any

// Sink receives trace events.
type Sink interface{ Emit(Event) }

// WriterSink writes NDJSON.
type WriterSink struct {
	mu sync.Mutex
	W  io.Writer
	N  int
}

func (w *WriterSink) Emit(e Event) {
	b, err := json.Marshal(e)
	if err != nil {
		panic(err)
	}
	w.mu.Lock()
	defer w.mu.Unlock()
	w.W.Write(append(b, '\n'))
	w.N++
}

// Mirror folds post-change notifications.
type Mirror struct {
	mu  sync.Mutex
	st  abs.RIBState
	err error
	n   int
	// a slow consumer: the next notification is folded only after this long (set by the hookstall input)
	stall atomic.Int64
}

func NewMirror() *Mirror { return &Mirror{st: abs.RIBState{}} }

// Hook is a rib.RIBHookFn.
func (m *Mirror) Hook(op constants.OpType, _ int64, ni string, s ygot.ValidatedGoStruct) {
	if d := m.stall.Swap(0); d > 0 {
		time.Sleep(time.Duration(d))
	}
	m.mu.Lock()
	defer m.mu.Unlock()
	m.n++
	if _, ok := m.st[ni]; !ok {
		m.st[ni] = abs.NewNIState()
	}
	if s == nil || (reflect.ValueOf(s).Kind() == reflect.Ptr && reflect.ValueOf(s).IsNil()) {
		// a DELETE of a key that was not installed carries no entry
		if op != constants.Delete && m.err == nil {
			m.err = fmt.Errorf("nil entry in %v notification", op)
		}
		return
	}
	p, err := abs.StructParts(s)
	if err != nil {
		if m.err == nil {
			m.err = err
		}
		return
	}
	// the consumer of the property folds ADD (carries the new entry) and DELETE (the removed one); a
	// notification of any other type is not part of that contract and is left out of the fold
	switch op {
	case constants.Add:
		m.st[ni].PutParts(p)
	case constants.Delete:
		m.st[ni].DelParts(p)
	}
}

// Snapshot returns a copy of the mirror restricted/extended to the given instances.
func (m *Mirror) Snapshot(nis []string) (abs.RIBState, error) {
	m.mu.Lock()
	defer m.mu.Unlock()
	out := abs.RIBState{}
	for _, n := range nis {
		if s, ok := m.st[n]; ok {
			out[n] = s.Copy()
		} else {
			out[n] = abs.NewNIState()
		}
	}
	for n, s := range m.st {
		if _, ok := out[n]; !ok && s.Size() > 0 {
			out[n] = s.Copy() // notifications for an instance the RIB does not list
		}
	}
	return out, m.err
}

// Project builds the abstract state of a real RIB.
func Project(r *rib.RIB, m *Mirror, opOf func(*spb.AFTOperation) abs.Op) (*St, error) {
	c, err := r.RIBContents()
	if err != nil {
		return nil, err
	}
	rs, err := abs.ProjectRIBs(c)
	if err != nil {
		return nil, err
	}
	st := &St{Rib: rs, Pend: []abs.Op{}, RefNH: map[string]map[string]uint64{}, RefNHG: map[string]map[string]uint64{}}
	pend := r.VerifPending()
	ids := make([]uint64, 0, len(pend))
	for id := range pend {
		ids = append(ids, id)
	}
	sort.Slice(ids, func(a, b int) bool { return ids[a] < ids[b] })
	for _, id := range ids {
		o := opOf(pend[id].Op)
		if pend[id].NI != o.NI {
			o.NI = "mismatch:" + pend[id].NI + "/" + o.NI
		}
		if o.ID != id {
			o.Bad = fmt.Sprintf("heldUnderId%d", id)
		}
		st.Pend = append(st.Pend, o)
	}
	for ni, c := range r.VerifRefCounts() {
		st.RefNH[ni] = map[string]uint64{}
		st.RefNHG[ni] = map[string]uint64{}
		for k, v := range c.NextHop {
			if v != 0 {
				st.RefNH[ni][strconv.FormatUint(k, 10)] = v
			}
		}
		for k, v := range c.NextHopGroup {
			if v != 0 {
				st.RefNHG[ni][strconv.FormatUint(k, 10)] = v
			}
		}
	}
	if m != nil {
		st.Mirror, err = m.Snapshot(abs.SortedKeys(rs))
		if err != nil {
			return nil, fmt.Errorf("mirror: %v", err)
		}
	}
	return st, nil
}

type snapRec struct {
	ribs map[string]*aft.RIB
	proj abs.RIBState
}

// Runner executes input sequences against a real rib.RIB.
type Runner struct {
	Sink Sink
	// HookBeforeNIs registers the post-change hook before the non-default
	// instances are created (as server.New does) when true.
	HookBeforeNIs bool
	// NoChecks builds the RIB with DisableRIBCheckFn: the reference checks are
	// off, which the specification does not model; see UncheckedSink.
	NoChecks bool

	r       *rib.RIB
	mirror  *Mirror
	ops     map[*spb.AFTOperation]abs.Op
	mu      sync.Mutex
	tries   []Event
	lastDel Event
	snaps   []snapRec
	arrived int
	dead    bool
	gen     int
	Calls   int
	Panics  int
	Hangs   int
}

func (rn *Runner) opOf(p *spb.AFTOperation) abs.Op {
	if o, ok := rn.ops[p]; ok {
		return o
	}
	return abs.AbstractOp(p)
}

func (rn *Runner) tracer(ev string, args ...any) {
	rn.mu.Lock()
	defer rn.mu.Unlock()
	switch ev {
	case "try":
		rn.tries = append(rn.tries, Event{"ev": "try", "id": args[0].(uint64), "out": args[1].(string)})
	case "resolved.spawn":
		ribs := args[0].(map[string]*aft.RIB)
		proj, err := abs.ProjectRIBs(ribs)
		var snap any = proj
		if err != nil {
			snap = "error: " + err.Error()
		}
		rn.snaps = append(rn.snaps, snapRec{ribs: ribs, proj: proj})
		// the key the announcement names, abstracted like every other key (a spelling that is not the one programmed stays as it is)
		kd := aftKind(args[3].(constants.AFT))
		var key string
		switch k := args[4].(type) {
		case string:
			key = abs.AbsTopKey(kd, k)
		case uint64:
			key = abs.AbsTopKey(kd, k)
		default:
			// a label arrives as uint64 (ADD) or as the union type of the removed entry (DELETE)
			key = fmt.Sprint(k)
			if n, err := strconv.ParseUint(key, 10, 64); err == nil && kd == "mpls" {
				key = abs.AbsTopKey(kd, n)
			}
		}
		rec := Event{"typ": fmt.Sprint(args[1]), "ni": args[2], "kind": kd, "key": key, "snap": snap}
		if rn.lastDel != nil {
			rn.lastDel["rsnap"] = rec
		} else if n := len(rn.tries); n > 0 {
			rn.tries[n-1]["rsnap"] = rec
		}
	}
}

func aftKind(a constants.AFT) string {
	switch a {
	case constants.IPv4:
		return "v4"
	case constants.IPv6:
		return "v6"
	case constants.MPLS:
		return "mpls"
	}
	return fmt.Sprint(a)
}

func (rn *Runner) resolvedHook(ribs map[string]*aft.RIB, _ constants.OpType, _ string, _ constants.AFT, _ any, _ ...rib.ResolvedDetails) {
	rn.mu.Lock()
	rn.arrived++
	rn.mu.Unlock()
}

func ids(rs []*rib.OpResult) []uint64 {
	out := []uint64{}
	for _, r := range rs {
		out = append(out, r.ID)
	}
	return out
}

// finish closes the current trace segment: resolved-entry snapshots must all
// have been delivered and must be unchanged.
func (rn *Runner) finish() {
	if rn.r == nil {
		return
	}
	deadline := time.Now().Add(10 * time.Second)
	for {
		rn.mu.Lock()
		ok := rn.arrived >= len(rn.snaps)
		rn.mu.Unlock()
		if ok || time.Now().After(deadline) {
			break
		}
		time.Sleep(time.Millisecond)
	}
	rn.mu.Lock()
	defer rn.mu.Unlock()
	same := true
	for _, s := range rn.snaps {
		p, err := abs.ProjectRIBs(s.ribs)
		if err != nil || !reflect.DeepEqual(p, s.proj) {
			same = false
		}
	}
	rn.Sink.Emit(Event{"ev": "snapcheck", "n": len(rn.snaps), "delivered": rn.arrived, "same": same})
	rib.VerifSetTracer(nil)
	rn.r = nil
}

func (rn *Runner) state() any {
	st, err := Project(rn.r, rn.mirror, rn.opOf)
	if err != nil {
		return map[string]any{"error": err.Error()}
	}
	return st
}

// HangLimit bounds one call into the code under test.
var HangLimit = 8 * time.Second

// MaxHangs ends a run early: after this many hangs nothing more is executed.
var MaxHangs = 2

// BlockedIn returns the frames of goroutines of this process that are blocked
// inside the given package path fragment (evidence for a "hang" event: time
// alone is never the oracle).
func BlockedIn(pkg string) []string {
	buf := make([]byte, 1<<22)
	buf = buf[:runtime.Stack(buf, true)]
	out := []string{}
	for _, g := range strings.Split(string(buf), "\n\n") {
		if !strings.Contains(g, pkg) {
			continue
		}
		lines := strings.Split(g, "\n")
		hdr := lines[0]
		if !(strings.Contains(hdr, "semacquire") || strings.Contains(hdr, "chan send") || strings.Contains(hdr, "chan receive") || strings.Contains(hdr, "select") || strings.Contains(hdr, "sync.")) {
			continue
		}
		fr := ""
		for _, l := range lines[1:] {
			if strings.Contains(l, pkg) && !strings.HasPrefix(l, "\t") {
				fr = l
				break
			}
		}
		out = append(out, hdr+" @ "+fr)
		if len(out) >= 6 {
			break
		}
	}
	return out
}

// AwaitOrHang waits for a value on ch. When limit passes it looks for goroutines parked inside pkg: if there are
// some the call is hung (their frames are returned); if there are none the call is merely slow (a loaded machine)
// and the wait goes on, in steps of limit, for up to ten more limits. ok = false: hung (or, with no frames, the
// extended wait was exhausted - the caller reports the empty list, which no trace specification takes for a verdict).
func AwaitOrHang[T any](ch <-chan T, limit time.Duration, pkg string) (v T, ok bool, blocked []string) {
	for i := 0; i <= 10; i++ {
		select {
		case v = <-ch:
			return v, true, nil
		case <-time.After(limit):
			if blocked = BlockedIn(pkg); len(blocked) > 0 {
				return v, false, blocked
			}
		}
	}
	return v, false, []string{}
}

// Step executes one input. A panic inside the code under test is recorded as
// a "panic" event and a call that does not return within HangLimit as a "hang"
// event (the specification has no action for either); both end the segment:
// the following inputs up to the next reset are skipped.
func (rn *Runner) Step(in Input) (err error) {
	if (rn.dead && in.A != "reset") || rn.Hangs >= MaxHangs {
		return nil
	}
	gen := rn.gen
	done := make(chan error, 1)
	go func() {
		defer func() {
			if p := recover(); p != nil {
				if rn.gen != gen {
					return
				}
				rn.mu.Lock()
				rn.lastDel, rn.tries = nil, nil
				rn.mu.Unlock()
				rn.Sink.Emit(Event{"ev": "panic", "input": in, "msg": fmt.Sprint(p)})
				rn.Panics++
				rn.dead = true
				rn.r = nil
				rib.VerifSetTracer(nil)
				done <- nil
			}
		}()
		done <- rn.step(in)
	}()
	e, ok, blocked := AwaitOrHang(done, HangLimit, "gribigo/rib")
	switch {
	case ok:
		return e
	default:
		rn.gen++ // events of the stuck call, should it ever resume, are dropped
		rn.Sink.Emit(Event{"ev": "hang", "input": in, "blocked": blocked})
		rn.Hangs++
		rn.dead = true
		rn.r = nil
		rib.VerifSetTracer(nil)
		return nil
	}
}

func (rn *Runner) step(in Input) error {
	switch in.A {
	case "reset":
		rn.finish()
		rn.dead = false
		opts := []rib.RIBOpt{}
		if !in.Fwd {
			opts = append(opts, rib.DisableForwardReferences())
		}
		if rn.NoChecks {
			opts = append(opts, rib.DisableRIBCheckFn())
		}
		rn.r = rib.New(DefaultNI, opts...)
		rn.mirror = NewMirror()
		rn.ops = map[*spb.AFTOperation]abs.Op{}
		rn.tries, rn.snaps, rn.arrived, rn.lastDel = nil, nil, 0, nil
		if rn.HookBeforeNIs {
			rn.r.SetPostChangeHook(rn.mirror.Hook)
		}
		nis := append([]string{}, in.NIs...)
		sort.Strings(nis)
		for _, n := range nis {
			if n == DefaultNI {
				continue
			}
			if err := rn.r.AddNetworkInstance(n); err != nil {
				return err
			}
		}
		if !rn.HookBeforeNIs {
			rn.r.SetPostChangeHook(rn.mirror.Hook)
		}
		rn.r.SetResolvedEntryHook(rn.resolvedHook)
		rib.VerifSetTracer(rn.tracer)
		rn.Sink.Emit(Event{"ev": "reset", "nis": nis, "fwd": in.Fwd})
	case "op":
		o := in.Op.Norm()
		p, err := abs.Concretise(o)
		if err != nil {
			return fmt.Errorf("concretise %+v: %v", o, err)
		}
		rn.applyOp(o, p)
	case "flush":
		rn.Calls++
		nis := append([]string{}, in.NIs...)
		sort.Strings(nis)
		err := rn.r.Flush(nis)
		ev := Event{"ev": "flush", "nis": nis, "ok": err == nil, "st": rn.state()}
		if err != nil {
			ev["msg"] = err.Error()
		}
		rn.Sink.Emit(ev)
	case "hookstall":
		// the consumer of the post-change hook takes this long over the next notification
		rn.mirror.stall.Store(int64(time.Duration(in.Ms) * time.Millisecond))
		rn.Sink.Emit(Event{"ev": "hookstall", "ms": in.Ms})
	case "addni":
		rn.Calls++
		err := rn.r.AddNetworkInstance(in.NI)
		rn.Sink.Emit(Event{"ev": "addni", "ni": in.NI, "ok": err == nil, "st": rn.state()})
	default:
		return fmt.Errorf("unknown input %q", in.A)
	}
	return nil
}

// ApplyProto applies a concrete operation (e.g. one produced by the
// reconciler) to the RIB under test and records it like any other operation.
func (rn *Runner) ApplyProto(p *spb.AFTOperation) {
	rn.applyOp(abs.AbstractOp(p), p)
}

// RIB returns the RIB under test.
func (rn *Runner) RIB() *rib.RIB { return rn.r }

// State projects the RIB under test.
func (rn *Runner) State() any { return rn.state() }

func (rn *Runner) applyOp(o abs.Op, p *spb.AFTOperation) {
	rn.ops[p] = o
	rn.Calls++
	if o.Typ == "DELETE" {
		ev := Event{"ev": "delete", "op": o}
		rn.mu.Lock()
		rn.lastDel = ev
		rn.mu.Unlock()
		oks, fails, err := rn.r.DeleteEntry(o.NI, p)
		rn.mu.Lock()
		rn.lastDel = nil
		rn.mu.Unlock()
		if err != nil {
			rn.Sink.Emit(Event{"ev": "callerr", "op": o, "msg": err.Error(), "st": rn.state()})
			return
		}
		ev["oks"], ev["fails"], ev["st"] = ids(oks), ids(fails), rn.state()
		rn.Sink.Emit(ev)
		return
	}
	rn.mu.Lock()
	rn.tries = nil
	rn.mu.Unlock()
	oks, fails, err := rn.r.AddEntry(o.NI, p)
	rn.mu.Lock()
	tries := rn.tries
	rn.tries = nil
	rn.mu.Unlock()
	if err != nil {
		rn.Sink.Emit(Event{"ev": "callerr", "op": o, "msg": err.Error(), "ntries": len(tries), "st": rn.state()})
		return
	}
	rn.Sink.Emit(Event{"ev": "addbegin", "op": o})
	for _, t := range tries {
		rn.Sink.Emit(t)
	}
	rn.Sink.Emit(Event{"ev": "addend", "oks": ids(oks), "fails": ids(fails), "st": rn.state()})
}

// Run executes a whole input sequence.
func (rn *Runner) Run(ins []Input) error {
	for i, in := range ins {
		if err := rn.Step(in); err != nil {
			return fmt.Errorf("step %d: %v", i, err)
		}
	}
	return nil
}

// Close finishes the last segment.
func (rn *Runner) Close() { rn.finish() }

// UncheckedSink rewrites the trace of a run with the reference checks off: the
// specification does not say what such a RIB holds, only that the fold of the
// post-change notifications equals it (MirrorIsRib), so every call becomes an
// "unchecked" event that carries the logged state and nothing else.
type UncheckedSink struct{ To Sink }

func (u UncheckedSink) Emit(e Event) {
	switch e["ev"] {
	case "reset", "panic", "hang", "hookstall":
		u.To.Emit(e)
	default:
		if st, ok := e["st"]; ok {
			u.To.Emit(Event{"ev": "unchecked", "of": e["ev"], "st": st})
		}
	}
}
