package fluentdrv

import (
	"encoding/hex"
	"fmt"
	"reflect"
	"testing"

	"github.com/openconfig/gribigo/fluent"
	"google.golang.org/protobuf/proto"

	spb "github.com/openconfig/gribi/v1/proto/service"
)

type testingTB = testing.TB

func normArgs(a []any) []any {
	out := []any{}
	for _, x := range a {
		switch v := x.(type) {
		case float64:
			out = append(out, int(v))
		default:
			out = append(out, v)
		}
	}
	return out
}

// callReflect invokes method m on the (unexported-typed) builder b with the
// abstract arguments a converted to the method's parameter types.
func callReflect(b fluent.GRIBIEntry, m string, a []any) (err error) {
	defer func() {
		if p := recover(); p != nil {
			err = fmt.Errorf("panic: %v", p)
		}
	}()
	v := reflect.ValueOf(b)
	switch m {
	case "AddEncapHeaderMPLS":
		ls := []uint64{}
		for _, x := range a {
			ls = append(ls, u64(x))
		}
		h := fluent.MPLSEncapHeader().WithLabels(ls...)
		v.MethodByName("AddEncapHeader").Call([]reflect.Value{reflect.ValueOf(h)})
		return nil
	case "AddEncapHeaderUDPV6":
		h := fluent.UDPV6EncapHeader().WithDSCP(u64(a[0])).WithDstIP(str(a[1])).WithDstUDPPort(u64(a[2])).WithIPTTL(u64(a[3])).WithSrcIP(str(a[4])).WithSrcUDPPort(u64(a[5]))
		v.MethodByName("AddEncapHeader").Call([]reflect.Value{reflect.ValueOf(h)})
		return nil
	}
	mv := v.MethodByName(m)
	if !mv.IsValid() {
		return fmt.Errorf("no method %s on %T", m, b)
	}
	mt := mv.Type()
	in := []reflect.Value{}
	if mt.IsVariadic() && mt.NumIn() == 1 {
		et := mt.In(0).Elem()
		for _, x := range a {
			in = append(in, conv(x, et))
		}
		mv.Call(in)
		return nil
	}
	if mt.NumIn() != len(a) {
		return fmt.Errorf("%s: %d arguments, want %d", m, len(a), mt.NumIn())
	}
	for i, x := range a {
		in = append(in, conv(x, mt.In(i)))
	}
	mv.Call(in)
	return nil
}

func conv(x any, t reflect.Type) reflect.Value {
	switch t.Kind() {
	case reflect.String:
		return reflect.ValueOf(str(x)).Convert(t)
	case reflect.Uint64, reflect.Uint32, reflect.Uint:
		return reflect.ValueOf(u64(x)).Convert(t)
	case reflect.Int64, reflect.Int:
		if s, ok := x.(string); ok {
			if h, ok := hdr[s]; ok {
				return reflect.ValueOf(h).Convert(t)
			}
		}
		return reflect.ValueOf(int64(u64(x))).Convert(t)
	case reflect.Slice:
		if t.Elem().Kind() == reflect.Uint8 {
			b, _ := hex.DecodeString(str(x))
			if b == nil {
				b = []byte{}
			}
			return reflect.ValueOf(b)
		}
	}
	return reflect.ValueOf(x)
}

func entryMsg(e *spb.AFTEntry) proto.Message {
	switch t := e.GetEntry().(type) {
	case *spb.AFTEntry_Ipv4:
		if t.Ipv4 != nil {
			return t.Ipv4
		}
	case *spb.AFTEntry_Ipv6:
		if t.Ipv6 != nil {
			return t.Ipv6
		}
	case *spb.AFTEntry_Mpls:
		if t.Mpls != nil {
			return t.Mpls
		}
	case *spb.AFTEntry_NextHopGroup:
		if t.NextHopGroup != nil {
			return t.NextHopGroup
		}
	case *spb.AFTEntry_NextHop:
		if t.NextHop != nil {
			return t.NextHop
		}
	}
	return nil
}
