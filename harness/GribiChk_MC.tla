---------------------------- MODULE GribiChk_MC ----------------------------
(* Enumerates the bounded input space of the chk helpers: every initial      *)
(* state is one case; TLC prints each case once for the Go harness, which    *)
(* calls the real helper on it.                                              *)
EXTENDS GribiChk, Json

CONSTANTS Helper,   \* which helper's cases to enumerate
          Ids, Sts, Errs, Dets, MaxRes, MaxWants, NIs, Kinds, Keys, EmitOn

VARIABLE c
D_small == {<<"nh", 1>>, <<"v6", 1>>}
D_kinds == {<<"nh", 1>>, <<"nhg", 1>>, <<"v4", 1>>, <<"v6", 1>>, <<"mpls", 1>>}
D_all   == {<<"nh", 1>>, <<"nh", 2>>, <<"nhg", 1>>, <<"v4", 1>>, <<"v6", 1>>, <<"v6", 2>>, <<"mpls", 1>>}
Det(nl, kd, k) == [nil |-> nl, typ |-> "ADD", kind |-> kd, key |-> k]
DetSet == {Det(TRUE, "", 0)} \cup {Det(FALSE, d[1], d[2]) : d \in Dets}
ResSet == {[isnil |-> FALSE, id |-> i, st |-> s, err |-> e, cerr |-> "", elec |-> 0, sp |-> "", det |-> d] :
              i \in Ids, s \in Sts, e \in Errs, d \in DetSet}
SeqsUpTo(S, n) == UNION {[1..k -> S] : k \in 0..n}
Opts2(a, b) == {[x \in {a, b} |-> IF x = a THEN p[1] ELSE p[2]] : p \in BOOLEAN \X BOOLEAN}

EntrySet == {[ni |-> n, kind |-> kd, key |-> k] : n \in NIs, kd \in Kinds, k \in Keys}
WantSet == {[ni |-> n, kind |-> kd, key |-> k, valid |-> TRUE] : n \in NIs, kd \in Kinds, k \in Keys}
           \cup {[ni |-> "", kind |-> "v4", key |-> 1, valid |-> FALSE]}

StatusSet == {[isstatus |-> TRUE, code |-> cd, msg |-> m, det |-> d] :
                 cd \in {"FailedPrecondition", "Unimplemented"}, m \in {"", "m1"}, d \in {"", "MODIFY_NOT_ALLOWED"}}

Cases ==
  CASE Helper = "HasResult" ->
         {[h |-> "HasResult", res |-> r, want |-> w, o |-> o] :
             r \in SeqsUpTo(ResSet, MaxRes), w \in ResSet, o \in {[ignoreID |-> a, includeErr |-> b] : a \in BOOLEAN, b \in BOOLEAN}}
    [] Helper = "HasResultsCache" ->
         {[h |-> "HasResultsCache", res |-> r, wants |-> w, o |-> o] :
             r \in SeqsUpTo(ResSet, MaxRes), w \in SeqsUpTo(ResSet, MaxWants) \ {<<>>},
             o \in {[ignoreID |-> a, includeErr |-> b] : a \in BOOLEAN, b \in BOOLEAN}}
    [] Helper = "GetResponseHasEntries" ->
         {[h |-> "GetResponseHasEntries", entries |-> e, wants |-> w] :
             e \in SeqsUpTo(EntrySet, MaxRes), w \in SeqsUpTo(WantSet, MaxWants) \ {<<>>}}
    [] Helper = "HasNErrors" ->
         {[h |-> "HasNErrors", side |-> sd, e |-> e, count |-> n] :
             sd \in {"send", "recv"}, n \in 0..2,
             e \in {[isnil |-> TRUE, isclient |-> FALSE, n |-> 0], [isnil |-> FALSE, isclient |-> FALSE, n |-> 0]}
                   \cup {[isnil |-> FALSE, isclient |-> TRUE, n |-> k] : k \in 0..2}}
    [] OTHER ->
         {[h |-> "HasRecvClientErrorWithStatus", e |-> e, want |-> w, o |-> o] :
             e \in {[isnil |-> TRUE, isclient |-> FALSE, recv |-> <<>>], [isnil |-> FALSE, isclient |-> FALSE, recv |-> <<>>]}
                   \cup {[isnil |-> FALSE, isclient |-> TRUE, recv |-> r] : r \in SeqsUpTo(StatusSet, 2)},
             w \in StatusSet, o \in {[allowUnimpl |-> a, ignoreDets |-> b] : a \in BOOLEAN, b \in BOOLEAN}}

MCInit == c \in Cases
MCNext == UNCHANGED c
MCSpec == MCInit /\ [][MCNext]_c

\* sanity of the specification itself on every case
Expected ==
  CASE c.h = "HasResult" -> HasResultFatal(c.res, c.want, c.o)
    [] c.h = "HasResultsCache" -> PlainFatal(c.res, c.wants, c.o)
    [] c.h = "GetResponseHasEntries" -> GetFatal(c.entries, c.wants)
    [] c.h = "HasNErrors" -> NErrorsFatal(c.e, c.count)
    [] OTHER -> RecvStatusFatal(c.e, c.want, c.o)
TypeOK == Expected \in BOOLEAN
\* the cached checker's allowed verdicts are never contradictory
CacheConsistent == c.h = "HasResultsCache" => \E f \in BOOLEAN : CacheVerdictOK(c.res, c.wants, c.o, f)
Emit == EmitOn => PrintT("@@" \o ToJson(c))
=============================================================================
