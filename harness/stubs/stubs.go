// Package stubs provides in-process fakes of the gRIBI client-side gRPC interfaces.
package stubs

import (
	"context"
	"errors"
	"io"
	"sync"

	"google.golang.org/grpc"
	"google.golang.org/grpc/metadata"

	spb "github.com/openconfig/gribi/v1/proto/service"
)

// ModifyStream is a scripted spb.GRIBI_ModifyClient: every Send is recorded (and may be
// gated or failed), every Recv is fed by the test.
type ModifyStream struct {
	ctx context.Context

	mu      sync.Mutex
	Sent    []*spb.ModifyRequest
	SendErr error // returned by Send when set (after SendOK more sends)
	SendOK  int   // number of sends that still succeed before SendErr applies (-1: unlimited)
	closed  bool
	nCalls  int
	failed  bool

	// SendGate, when non-nil, is received from before every Send returns (scheduler control).
	SendGate chan struct{}
	// OnSend is called (outside the lock) after a message was recorded.
	OnSend func(*spb.ModifyRequest)

	in     chan recvItem
	NRecv  int // Recv calls entered
	CloseN int // CloseSend calls
	// CloseEOF makes CloseSend end the receive side too (as a server does when the client half-closes).
	CloseEOF bool
	// EOFBreaksSend makes Send fail with io.EOF once the receive side was ended (as gRPC does).
	EOFBreaksSend bool
	// BreakOnSendErr makes a failed Send surface on the receive side as well (as gRPC does).
	BreakOnSendErr bool
}

// RecvEntered returns how many times Recv was entered.
func (m *ModifyStream) RecvEntered() int {
	m.mu.Lock()
	defer m.mu.Unlock()
	return m.NRecv
}

type recvItem struct {
	r   *spb.ModifyResponse
	err error
}

func NewModifyStream(ctx context.Context) *ModifyStream {
	return &ModifyStream{ctx: ctx, in: make(chan recvItem, 1024), SendOK: -1}
}

// SendCalls returns the number of Send calls that completed (successfully or not).
func (m *ModifyStream) SendCalls() int {
	m.mu.Lock()
	defer m.mu.Unlock()
	return m.nCalls
}

// SendFailed reports whether some Send returned an error.
func (m *ModifyStream) SendFailed() bool {
	m.mu.Lock()
	defer m.mu.Unlock()
	return m.failed
}

// SetGate installs (or removes) the channel every Send waits on before it proceeds.
func (m *ModifyStream) SetGate(g chan struct{}) {
	m.mu.Lock()
	defer m.mu.Unlock()
	m.SendGate = g
}

func (m *ModifyStream) Send(r *spb.ModifyRequest) error {
	m.mu.Lock()
	g := m.SendGate
	m.mu.Unlock()
	if g != nil {
		<-g
	}
	m.mu.Lock()
	m.nCalls++
	if m.closed && m.EOFBreaksSend {
		// the server has ended the RPC: gRPC's SendMsg returns io.EOF
		m.failed = true
		m.mu.Unlock()
		return io.EOF
	}
	if m.SendErr != nil && m.SendOK == 0 {
		err := m.SendErr
		first := !m.failed
		m.failed = true
		closed := m.closed
		m.mu.Unlock()
		if first && !closed && m.BreakOnSendErr {
			// a stream whose Send failed is broken: Recv reports the error too
			m.put(recvItem{err: err})
		}
		return err
	}
	if m.SendOK > 0 {
		m.SendOK--
	}
	m.Sent = append(m.Sent, r)
	cb := m.OnSend
	m.mu.Unlock()
	if cb != nil {
		cb(r)
	}
	return nil
}

// NSent returns the number of recorded messages.
func (m *ModifyStream) NSent() int {
	m.mu.Lock()
	defer m.mu.Unlock()
	return len(m.Sent)
}

// FailSendsAfter makes the (n+1)-th Send from now fail with err.
func (m *ModifyStream) FailSendsAfter(n int, err error) {
	m.mu.Lock()
	defer m.mu.Unlock()
	m.SendOK, m.SendErr = n, err
}

func (m *ModifyStream) Recv() (*spb.ModifyResponse, error) {
	m.mu.Lock()
	m.NRecv++
	m.mu.Unlock()
	it, ok := <-m.in
	if !ok {
		return nil, io.EOF
	}
	return it.r, it.err
}

// Deliver makes the next Recv return r (false: the receive side was already ended).
func (m *ModifyStream) Deliver(r *spb.ModifyResponse) bool { return m.put(recvItem{r: r}) }

// Fail makes the next Recv return err.
func (m *ModifyStream) Fail(err error) bool { return m.put(recvItem{err: err}) }

func (m *ModifyStream) put(it recvItem) bool {
	m.mu.Lock()
	defer m.mu.Unlock()
	if m.closed {
		return false
	}
	m.in <- it
	return true
}

// EOF ends the receive side cleanly.
func (m *ModifyStream) EOF() {
	m.mu.Lock()
	defer m.mu.Unlock()
	if !m.closed {
		m.closed = true
		close(m.in)
	}
}

func (m *ModifyStream) CloseSend() error {
	m.mu.Lock()
	m.CloseN++
	eof := m.CloseEOF
	m.mu.Unlock()
	if eof {
		m.EOF()
	}
	return nil
}
func (m *ModifyStream) Header() (metadata.MD, error) { return nil, nil }
func (m *ModifyStream) Trailer() metadata.MD         { return nil }
func (m *ModifyStream) Context() context.Context     { return m.ctx }
func (m *ModifyStream) SendMsg(any) error            { return errors.New("unused") }
func (m *ModifyStream) RecvMsg(any) error            { return errors.New("unused") }

// Client is a spb.GRIBIClient whose Modify returns scripted streams.
type Client struct {
	mu      sync.Mutex
	Streams []*ModifyStream
	// Next, when set, is returned by the next Modify call instead of a fresh stream.
	Next      *ModifyStream
	ModifyErr error
}

func (c *Client) Modify(ctx context.Context, _ ...grpc.CallOption) (spb.GRIBI_ModifyClient, error) {
	c.mu.Lock()
	defer c.mu.Unlock()
	if c.ModifyErr != nil {
		return nil, c.ModifyErr
	}
	s := c.Next
	c.Next = nil
	if s == nil {
		s = NewModifyStream(ctx)
	}
	c.Streams = append(c.Streams, s)
	return s, nil
}

// Last returns the most recent stream.
func (c *Client) Last() *ModifyStream {
	c.mu.Lock()
	defer c.mu.Unlock()
	if len(c.Streams) == 0 {
		return nil
	}
	return c.Streams[len(c.Streams)-1]
}

func (c *Client) Get(context.Context, *spb.GetRequest, ...grpc.CallOption) (spb.GRIBI_GetClient, error) {
	return nil, errors.New("unused")
}
func (c *Client) Flush(context.Context, *spb.FlushRequest, ...grpc.CallOption) (*spb.FlushResponse, error) {
	return nil, errors.New("unused")
}
