package compdrv

import (
	"strings"

	"google.golang.org/protobuf/proto"
	"google.golang.org/protobuf/reflect/protoreflect"
)

// renameNI returns a copy of m in which every network-instance reference equal
// to from reads to. It is how a conformant server whose default network
// instance has another name is obtained from the reference server (which
// hard-wires "DEFAULT"): names are translated at the wire, in both directions.
func renameNI[M proto.Message](m M, from, to string) M {
	if from == to {
		return m
	}
	c := proto.Clone(m).(M)
	renameMsg(c.ProtoReflect(), from, to, false)
	return c
}

func isNIField(fd protoreflect.FieldDescriptor) bool {
	n := string(fd.Name())
	return strings.Contains(n, "network_instance") || (n == "name" && strings.HasSuffix(string(fd.ContainingMessage().Name()), "Request"))
}

func renameMsg(m protoreflect.Message, from, to string, inNI bool) {
	m.Range(func(fd protoreflect.FieldDescriptor, v protoreflect.Value) bool {
		ni := isNIField(fd) || (inNI && fd.Name() == "value")
		switch {
		case fd.IsMap():
			v.Map().Range(func(_ protoreflect.MapKey, mv protoreflect.Value) bool {
				if fd.MapValue().Kind() == protoreflect.MessageKind {
					renameMsg(mv.Message(), from, to, false)
				}
				return true
			})
		case fd.IsList():
			if fd.Kind() == protoreflect.MessageKind {
				l := v.List()
				for i := 0; i < l.Len(); i++ {
					renameMsg(l.Get(i).Message(), from, to, false)
				}
			}
		case fd.Kind() == protoreflect.MessageKind:
			renameMsg(v.Message(), from, to, ni)
		case fd.Kind() == protoreflect.StringKind:
			if ni && v.String() == from {
				m.Set(fd, protoreflect.ValueOfString(to))
			}
		}
		return true
	})
}

// inbound translates a request to the reference server's names. A literal
// "DEFAULT" on the wire of a server whose default instance is called otherwise
// names an instance that does not exist.
func inbound[M proto.Message](m M, n Names) M {
	if n.DefaultNI == srvDefault {
		return m
	}
	return renameNI(renameNI(m, srvDefault, "no-such-instance:"+srvDefault), n.DefaultNI, srvDefault)
}
