// Package compdrv runs the repository's compliance suite, unmodified, against
// one long-lived in-process server (bufconn) in a given order, with a capturing
// testing.TB, and records (a) the verdict of every test and (b) the wire trace
// between the clients and the server in the event format of GribiServerTrace,
// so that TLC can decide whether what the server did on the wire is a
// behaviour of the specification. The server can be wrapped by a fault that
// breaks one protocol requirement.
package compdrv

import (
	"context"
	"fmt"
	"google.golang.org/grpc/status"
	"math/rand"
	"net"
	"strings"
	"sync"
	"testing"
	"time"

	"github.com/openconfig/gribigo/aft"
	"github.com/openconfig/gribigo/compliance"
	"github.com/openconfig/gribigo/constants"
	"github.com/openconfig/gribigo/fluent"
	"github.com/openconfig/gribigo/rib"
	"github.com/openconfig/gribigo/server"
	"google.golang.org/grpc"
	"google.golang.org/grpc/credentials/insecure"
	"google.golang.org/grpc/test/bufconn"

	spb "github.com/openconfig/gribi/v1/proto/service"
	"google.golang.org/protobuf/proto"

	"verif/harness/abs"
	"verif/harness/chkdrv"
	"verif/harness/ribdrv"
	"verif/harness/srvdrv"
)

type Event = ribdrv.Event

// Names configures the network-instance names of a run: VRF is created on the
// server under that name; DefaultNI (if not "DEFAULT") is what the suite and
// the wire call the default instance.
type Names struct{ DefaultNI, VRF string }

const srvDefault = server.DefaultNetworkInstanceName

// node is one server (with or without forward references) behind bufconn.
type node struct {
	srv    *server.Server
	mirror *ribdrv.Mirror
	gs     *grpc.Server
	lis    *bufconn.Listener
	conn   *grpc.ClientConn
	rec    *recorder
}

// recorder turns what crosses the wire into GribiServerTrace events.
type recorder struct {
	mu      sync.Mutex
	sink    ribdrv.Sink
	srv     *server.Server
	mirror  *ribdrv.Mirror
	fault   string
	nsess   int
	byCID   map[string]string
	byStrm  map[any]*wsess
	resps   map[string]int
	rpcerrs map[string]int
	ops     map[*spb.AFTOperation]abs.Op
	ribEv   []Event
	curAdd  []Event
	lastDel Event
	names   Names
	active  int  // sessions currently processing a message
	overlap bool // two sessions processed messages at the same time: the segment cannot be validated at message grain
	opened  bool
	present map[string]bool // failIdempotentDelete: entries added and not yet deleted
}

type wsess struct {
	label       string
	cid         string
	inner       grpc.ServerStream
	rec         *recorder
	sent        []*spb.ModifyResponse
	taken       int
	cur         *spb.ModifyRequest // message being processed
	first       bool
	dropParams  bool
	nparams     int
	lastReqElec *spb.Uint128
	opByID      map[uint64]abs.Op
	failedDel   map[uint64]bool
	firstParams *spb.SessionParameters
	nelec       int          // election responses written on this stream
	prevElec    *spb.Uint128 // the id the previous election response carried (before any misreporting)
	closed      bool
}

func (r *recorder) label(cid string) string {
	if cid == "" {
		return ""
	}
	if l, ok := r.byCID[cid]; ok {
		return l
	}
	return "?" + cid
}

func (r *recorder) opOf(p *spb.AFTOperation) abs.Op {
	if o, ok := r.ops[p]; ok {
		return o
	}
	return abs.AbstractOp(p)
}

func (r *recorder) ribState() any {
	st, err := ribdrv.Project(r.srv.VerifRIB(), r.mirror, r.opOf)
	if err != nil {
		return map[string]any{"error": err.Error()}
	}
	return st
}

func (r *recorder) srvState() map[string]any {
	id, master := r.srv.VerifElection()
	ss := map[string]any{}
	for cid, v := range r.srv.VerifSessions() {
		ss[r.label(cid)] = map[string]any{
			"params": map[string]bool{"elec": v.ExpectElecID, "persist": v.Persist, "fib": v.FIBAck},
			"set":    v.SetParams,
			"last":   abs.AbsID(v.LastElecID),
		}
	}
	return map[string]any{"cur": abs.AbsID(id), "master": r.label(master), "sess": ss}
}

// leftovers counts the entries in the server's RIB (what a test left behind for the next one).
func (r *recorder) leftovers() int {
	n := 0
	cs, err := r.srv.VerifRIB().RIBContents()
	if err != nil {
		return -1
	}
	for _, a := range cs {
		if a.Afts == nil {
			continue
		}
		n += len(a.Afts.NextHop) + len(a.Afts.NextHopGroup) + len(a.Afts.Ipv4Entry) + len(a.Afts.Ipv6Entry) + len(a.Afts.LabelEntry)
	}
	return n
}

func ids(rs []*rib.OpResult) []uint64 {
	out := []uint64{}
	for _, x := range rs {
		out = append(out, x.ID)
	}
	return out
}

func aftKind(a constants.AFT) string {
	switch a {
	case constants.IPv4:
		return "v4"
	case constants.IPv6:
		return "v6"
	case constants.MPLS:
		return "mpls"
	}
	return fmt.Sprint(a)
}

// ribTracer/srvTracer are installed globally while a suite runs.
func (r *recorder) ribTracer(ev string, args ...any) {
	r.mu.Lock()
	defer r.mu.Unlock()
	switch ev {
	case "addentry.begin":
		r.curAdd = []Event{{"ev": "addbegin", "op": r.opOf(args[1].(*spb.AFTOperation))}}
	case "try":
		r.curAdd = append(r.curAdd, Event{"ev": "try", "id": args[0].(uint64), "out": args[1].(string)})
	case "addentry.end":
		r.curAdd = append(r.curAdd, Event{"ev": "addend", "oks": ids(args[2].([]*rib.OpResult)), "fails": ids(args[3].([]*rib.OpResult)), "st": r.ribStateLocked()})
		r.ribEv = append(r.ribEv, r.curAdd...)
		r.curAdd = nil
	case "addentry.err":
		r.ribEv = append(r.ribEv, Event{"ev": "callerr", "op": r.opOf(args[1].(*spb.AFTOperation)), "msg": fmt.Sprint(args[2]), "st": r.ribStateLocked()})
		r.curAdd = nil
	case "delentry.begin":
		r.lastDel = Event{"ev": "delete", "op": r.opOf(args[1].(*spb.AFTOperation))}
	case "delentry.end":
		if r.lastDel != nil {
			r.lastDel["oks"], r.lastDel["fails"], r.lastDel["st"] = ids(args[2].([]*rib.OpResult)), ids(args[3].([]*rib.OpResult)), r.ribStateLocked()
			r.ribEv = append(r.ribEv, r.lastDel)
			r.lastDel = nil
		}
	case "resolved.spawn":
		ribs := args[0].(map[string]*aft.RIB)
		proj, err := abs.ProjectRIBs(ribs)
		var snap any = proj
		if err != nil {
			snap = "error: " + err.Error()
		}
		rec := Event{"typ": fmt.Sprint(args[1]), "ni": args[2], "kind": aftKind(args[3].(constants.AFT)), "snap": snap}
		if r.lastDel != nil {
			r.lastDel["rsnap"] = rec
		} else if n := len(r.curAdd); n > 0 {
			r.curAdd[n-1]["rsnap"] = rec
		}
	}
}

func (r *recorder) ribStateLocked() any {
	// Project takes the RIB's own locks only; r.mu is held to keep event order
	return r.ribState()
}

func (r *recorder) srvTracer(ev string, args ...any) {
	r.mu.Lock()
	defer r.mu.Unlock()
	switch ev {
	case "open":
		if s := r.byStrm[args[1]]; s != nil {
			s.cid = args[0].(string)
			r.byCID[s.cid] = s.label
		}
	case "resp":
		r.resps[args[0].(string)]++
	case "rpcerr":
		r.rpcerrs[args[0].(string)]++
	}
}

// ---- the Modify stream seen by the real server ----

type wstream struct {
	spb.GRIBI_ModifyServer
	s      *wsess
	sendMu sync.Mutex // a leaking server writes to a stream from another session's handler
}

func (w *wstream) Recv() (*spb.ModifyRequest, error) {
	s := w.s
	s.finishMessage(nil, false)
	for {
		m, err := w.GRIBI_ModifyServer.Recv()
		if err != nil {
			return m, err
		}
		m = inbound(m, s.rec.names)
		if s.rec.fault == "acceptRepeatedParams" && m.GetParams() != nil {
			s.nparams++
			if s.nparams == 1 {
				s.firstParams = proto.Clone(m.GetParams()).(*spb.SessionParameters)
			}
			// (the likely real form of the fault: a verbatim repeat of what was negotiated is waved through, a repeat
			// that tries to change something is still refused by the server)
			if s.nparams > 1 && proto.Equal(m.GetParams(), s.firstParams) {
				// the faulty server accepts repeated session parameters
				w.GRIBI_ModifyServer.Send(&spb.ModifyResponse{SessionParamsResult: &spb.SessionParametersResult{Status: spb.SessionParametersResult_OK}})
				// what crossed the wire: the message, answered OK, the session still open
				r := s.rec
				r.mu.Lock()
				r.sink.Emit(Event{"ev": "msgbegin", "s": s.label, "m": absMsg(r, s, m), "sendfail": false})
				r.sink.Emit(Event{"ev": "msgend", "s": s.label, "resp": []map[string]any{{"k": "params_ok"}}, "end": map[string]any{"code": "", "reason": ""},
					"sendfail": false, "sst": r.srvState(), "st": r.ribState()})
				r.mu.Unlock()
				continue
			}
		}
		s.beginMessage(m)
		if s.rec.fault == "programNonPrimary" && len(m.GetOperation()) > 0 {
			// the faulty server does not look at who sent an operation: it is processed as if the primary had sent it
			id, _ := s.rec.srv.VerifElection()
			c := proto.Clone(m).(*spb.ModifyRequest)
			s.rec.mu.Lock()
			for i, o := range c.Operation {
				if o.ElectionId != nil && id != nil {
					o.ElectionId = id
				}
				s.rec.ops[o] = s.rec.ops[m.Operation[i]]
			}
			s.cur = c
			s.rec.mu.Unlock()
			return c, nil
		}
		return m, nil
	}
}

func (w *wstream) Send(r *spb.ModifyResponse) error {
	s := w.s
	out := r
	switch s.rec.fault {
	case "dropFIB":
		if len(r.GetResult()) > 0 {
			c := &spb.ModifyResponse{}
			for _, x := range r.GetResult() {
				if x.GetStatus() != spb.AFTResult_FIB_PROGRAMMED {
					c.Result = append(c.Result, x)
				}
			}
			out = c
		}
	case "failIdempotentDelete":
		if len(r.GetResult()) > 0 {
			c := &spb.ModifyResponse{}
			s.rec.mu.Lock()
			for _, x := range r.GetResult() {
				op, ok := s.opByID[x.GetId()]
				k := op.NI + "/" + op.Kind + "/" + op.Key
				switch {
				case !ok:
				case s.failedDel[x.GetId()]:
					continue // already answered FAILED
				case op.Typ == "DELETE" && !s.rec.present[k] && x.GetStatus() != spb.AFTResult_FAILED:
					// the faulty server fails the delete of an entry that is not there
					s.failedDel[x.GetId()] = true
					x = &spb.AFTResult{Id: x.GetId(), Status: spb.AFTResult_FAILED}
				case op.Typ == "DELETE" && x.GetStatus() != spb.AFTResult_FAILED:
					if x.GetStatus() == spb.AFTResult_RIB_PROGRAMMED {
						defer func() { s.rec.mu.Lock(); delete(s.rec.present, k); s.rec.mu.Unlock() }()
					}
				case x.GetStatus() == spb.AFTResult_RIB_PROGRAMMED:
					s.rec.present[k] = true
				}
				c.Result = append(c.Result, x)
			}
			s.rec.mu.Unlock()
			out = c
		}
	case "misreportElection":
		if r.GetElectionId() != nil && s.lastReqElec != nil {
			out = &spb.ModifyResponse{ElectionId: s.lastReqElec}
		}
	case "inflateElection":
		// the faulty server reports an election id that is higher than the highest id it learnt
		if e := r.GetElectionId(); e != nil {
			c := proto.Clone(r).(*spb.ModifyResponse)
			c.ElectionId = &spb.Uint128{High: e.GetHigh(), Low: e.GetLow() + 7}
			out = c
		}
	case "staleElectionUpdate":
		// the faulty server runs the election correctly but answers an update of the election id within a session with the
		// id it reported before
		if r.GetElectionId() != nil {
			s.nelec++
			if s.nelec >= 2 && s.prevElec != nil {
				out = &spb.ModifyResponse{ElectionId: s.prevElec}
			}
			s.prevElec = r.GetElectionId()
		}
	case "leakResults":
		// the faulty server copies every response that carries results to the other Modify sessions that are open
		if len(r.GetResult()) > 0 {
			s.rec.mu.Lock()
			var others []*wstream
			for o, os := range s.rec.byStrm {
				if ow, ok := o.(*wstream); ok && ow != w && !os.closed {
					others = append(others, ow)
					os.sent = append(os.sent, proto.Clone(r).(*spb.ModifyResponse))
				}
			}
			s.rec.mu.Unlock()
			for _, ow := range others {
				ow.sendMu.Lock()
				ow.GRIBI_ModifyServer.Send(proto.Clone(r).(*spb.ModifyResponse))
				ow.sendMu.Unlock()
			}
		}
	}
	s.rec.mu.Lock()
	s.sent = append(s.sent, out)
	s.rec.mu.Unlock()
	if len(out.GetResult()) == 0 && out.GetElectionId() == nil && out.GetSessionParamsResult() == nil && len(r.GetResult()) > 0 {
		return nil // everything was filtered out
	}
	w.sendMu.Lock()
	defer w.sendMu.Unlock()
	return w.GRIBI_ModifyServer.Send(out)
}

func absMsg(r *recorder, s *wsess, m *spb.ModifyRequest) map[string]any {
	n := 0
	if m.GetParams() != nil {
		n++
	}
	if m.GetElectionId() != nil {
		n++
	}
	if len(m.GetOperation()) > 0 {
		n++
	}
	switch {
	case n > 1:
		return map[string]any{"k": "multi"}
	case n == 0:
		return map[string]any{"k": "empty"}
	case m.GetParams() != nil:
		p := m.GetParams()
		ack := "RIB"
		if p.GetAckType() == spb.SessionParameters_RIB_AND_FIB_ACK {
			ack = "RIB_FIB"
		}
		return map[string]any{"k": "params", "red": p.GetRedundancy().String(), "per": p.GetPersistence().String(), "ack": ack}
	case m.GetElectionId() != nil:
		return map[string]any{"k": "elec", "id": abs.AbsID(m.GetElectionId())}
	}
	ops := []abs.Op{}
	for _, o := range m.GetOperation() {
		a := abs.AbstractOp(o)
		r.ops[o] = a
		if s != nil {
			s.opByID[a.ID] = a
		}
		ops = append(ops, a.Norm())
	}
	return map[string]any{"k": "ops", "ops": ops}
}

func (s *wsess) beginMessage(m *spb.ModifyRequest) {
	r := s.rec
	r.mu.Lock()
	defer r.mu.Unlock()
	if !s.first {
		s.first = true
		r.sink.Emit(Event{"ev": "open", "s": s.label, "end": map[string]any{"code": "", "reason": ""}, "sst": r.srvStateOpenLocked(s), "st": r.ribState()})
	}
	s.cur = m
	if m.GetElectionId() != nil {
		s.lastReqElec = m.GetElectionId()
	}
	r.active++
	if r.active > 1 {
		r.overlap = true
	}
	r.ribEv = nil
	r.sink.Emit(Event{"ev": "msgbegin", "s": s.label, "m": absMsg(r, s, m), "sendfail": false})
}

// srvStateOpenLocked: the session table right after this session was created.
func (r *recorder) srvStateOpenLocked(s *wsess) map[string]any { return r.srvState() }

// finishMessage closes the message in progress (the server asked for the next
// message, or the RPC returned with err).
func (s *wsess) finishMessage(rpcErr error, ended bool) {
	r := s.rec
	if s.cur == nil {
		return
	}
	// every response handed to the result pump must have reached the stream
	deadline := time.Now().Add(3 * time.Second)
	for time.Now().Before(deadline) {
		r.mu.Lock()
		want, have := r.resps[s.cid], len(s.sent)
		r.mu.Unlock()
		if have >= want || ended {
			break
		}
		time.Sleep(30 * time.Microsecond)
	}
	r.mu.Lock()
	defer r.mu.Unlock()
	m := s.cur
	s.cur = nil
	r.active--
	resps := append([]*spb.ModifyResponse{}, s.sent[s.taken:]...)
	s.taken = len(s.sent)
	ribEv := r.ribEv
	r.ribEv = nil
	if r.lastDel != nil {
		ribEv = append(ribEv, Event{"ev": "callerr", "op": r.lastDel["op"], "msg": "DeleteEntry error return", "st": r.ribState()})
		r.lastDel = nil
	}
	ri := 0
	if len(m.GetOperation()) > 0 && m.GetParams() == nil && m.GetElectionId() == nil {
		for _, o := range m.GetOperation() {
			a := r.opOf(o)
			ribDone := false
			if ri < len(ribEv) {
				if op, ok := ribEv[ri]["op"].(abs.Op); ok && op.ID == a.ID && op.Kind == a.Kind && op.Key == a.Key && op.Typ == a.Typ {
					for ri < len(ribEv) {
						e := ribEv[ri]
						r.sink.Emit(e)
						ri++
						if k := e["ev"]; k == "addend" || k == "delete" || k == "callerr" {
							ribDone = k != "callerr"
							break
						}
					}
				}
			}
			if len(resps) > 0 {
				r.sink.Emit(Event{"ev": "opdone", "id": a.ID, "resp": srvdrv.AbsResp(resps[0])})
				resps = resps[1:]
			} else if ribDone || ri < len(ribEv) {
				r.sink.Emit(Event{"ev": "oplost", "id": a.ID})
			}
		}
	}
	for ; ri < len(ribEv); ri++ {
		r.sink.Emit(Event{"ev": "strayrib", "e": ribEv[ri]["ev"]})
	}
	nonOp := []map[string]any{}
	for _, x := range resps {
		nonOp = append(nonOp, srvdrv.AbsResp(x))
	}
	end := map[string]any{"code": "", "reason": ""}
	if ended {
		end = srvdrv.AbsEnd(rpcErr)
	}
	r.sink.Emit(Event{"ev": "msgend", "s": s.label, "resp": nonOp, "end": end, "sendfail": false, "sst": r.srvState(), "st": r.ribState()})
}

// ---- the gRPC service wrapper ----

type service struct {
	spb.UnimplementedGRIBIServer
	n *node
}

func (sv *service) Modify(ms spb.GRIBI_ModifyServer) error {
	r := sv.n.rec
	r.mu.Lock()
	r.nsess++
	s := &wsess{label: fmt.Sprintf("s%d", r.nsess), rec: r, opByID: map[uint64]abs.Op{}, failedDel: map[uint64]bool{}}
	w := &wstream{GRIBI_ModifyServer: ms, s: s}
	r.byStrm[w] = s
	r.mu.Unlock()
	err := sv.n.srv.Modify(w)
	r.mu.Lock()
	s.closed = true
	r.mu.Unlock()
	if r.fault == "dropErrorReason" && err != nil {
		// the faulty server ends the RPC with the right code but without saying why (no ModifyRPCErrorDetails)
		err = status.Error(status.Code(err), status.Convert(err).Message())
	}
	if s.cur != nil {
		s.finishMessage(err, true)
	} else if s.first || true {
		r.mu.Lock()
		if !s.first {
			s.first = true
			r.sink.Emit(Event{"ev": "open", "s": s.label, "end": map[string]any{"code": "", "reason": ""},
				"sst": addSess(r.srvState(), s.label), "st": r.ribState()})
		}
		mode := "eof"
		if err != nil {
			mode = "recverr"
		}
		r.sink.Emit(Event{"ev": "close", "s": s.label, "mode": mode, "end": srvdrv.AbsEnd(err), "sst": r.srvState(), "st": r.ribState()})
		r.mu.Unlock()
	}
	return err
}

// addSess adds the (already removed) session with default parameters to a session-table projection.
func addSess(st map[string]any, label string) map[string]any {
	ss := st["sess"].(map[string]any)
	if _, ok := ss[label]; !ok {
		ss[label] = map[string]any{"params": map[string]bool{"elec": false, "persist": false, "fib": false}, "set": false, "last": [2]int{0, 0}}
	}
	return st
}

func (sv *service) Get(req *spb.GetRequest, gs spb.GRIBI_GetServer) error {
	r := sv.n.rec
	w := &getRec{GRIBI_GetServer: gs, fault: r.fault}
	req = inbound(req, r.names)
	err := sv.n.srv.Get(req, w)
	if r.fault == "staleGet" && len(w.held) > 0 {
		// the faulty server withholds the last entry
		w.held = w.held[:len(w.held)-1]
	}
	for _, x := range w.held {
		gs.Send(renameNI(x, srvDefault, r.names.DefaultNI))
	}
	g := &srvdrv.GetReq{AFT: srvdrv.AFTName(req.GetAft())}
	switch t := req.GetNetworkInstance().(type) {
	case *spb.GetRequest_All:
		g.NI = "*"
	case *spb.GetRequest_Name:
		g.NI = t.Name
	}
	r.mu.Lock()
	defer r.mu.Unlock()
	ev := srvdrv.GetEvent(g, w.held, err, func(got []*spb.GetResponse) any { return srvdrv.Rebuild(got) })
	r.sink.Emit(ev)
	return err
}

type getRec struct {
	spb.GRIBI_GetServer
	fault string
	held  []*spb.GetResponse
}

func (g *getRec) Send(r *spb.GetResponse) error {
	g.held = append(g.held, r)
	return nil
}

func (sv *service) Flush(ctx context.Context, req *spb.FlushRequest) (*spb.FlushResponse, error) {
	r := sv.n.rec
	var resp *spb.FlushResponse
	var err error
	req = inbound(req, r.names)
	_, named := req.GetNetworkInstance().(*spb.FlushRequest_Name)
	if r.fault == "ignoreFlush" || (r.fault == "ignoreNamedFlush" && named) {
		// ignoreNamedFlush: the faulty server honours a Flush of every instance but acknowledges and ignores a Flush of a named one
		resp, err = &spb.FlushResponse{Result: spb.FlushResponse_OK}, nil
	} else {
		resp, err = sv.n.srv.Flush(ctx, req)
	}
	if err == nil {
		r.mu.Lock()
		r.present = map[string]bool{}
		r.mu.Unlock()
	}
	fr := &srvdrv.FlushReq{El: "none"}
	switch t := req.GetNetworkInstance().(type) {
	case *spb.FlushRequest_All:
		fr.NI = "*"
	case *spb.FlushRequest_Name:
		fr.NI = t.Name
	}
	switch t := req.GetElection().(type) {
	case *spb.FlushRequest_Override:
		fr.El = "override"
	case *spb.FlushRequest_Id:
		fr.El, fr.ID = "id", abs.AbsID(t.Id)
	}
	r.mu.Lock()
	defer r.mu.Unlock()
	ev := Event{"ev": "flushrpc", "r": fr, "end": srvdrv.AbsEnd(err), "sst": r.srvState(), "st": r.ribState()}
	_ = resp
	r.sink.Emit(ev)
	return resp, err
}

// serverOpts are the options of the reference server behind a node (the faults that are properties of the server itself,
// not of the wire wrapper, are applied here).
func serverOpts(fwd bool, fault string, names Names, mirror *ribdrv.Mirror) []server.ServerOpt {
	opts := []server.ServerOpt{server.WithPostChangeRIBHook(mirror.Hook), server.WithVRFs([]string{names.VRF}),
		server.WithRIBResolvedEntryHook(func(map[string]*aft.RIB, constants.OpType, string, constants.AFT, any, ...rib.ResolvedDetails) {})}
	if !fwd || fault == "rejectForwardRefs" {
		// fault rejectForwardRefs: a server that fails an operation whose references are not installed yet, although
		// the tests (and the trace) assume a server that holds and re-orders them
		opts = append(opts, server.WithNoRIBForwardReferences())
	}
	return opts
}

// ProbeRejectsForwardRefs reports whether a server built like the node of the given fault fails an entry whose group
// is not installed yet (independent evidence that the wrapper is faulty as intended, whatever the tests send).
func ProbeRejectsForwardRefs(fault string) (bool, error) {
	srv, err := server.New(serverOpts(true, fault, Names{DefaultNI: srvDefault, VRF: "NON-DEFAULT-VRF"}, ribdrv.NewMirror())...)
	if err != nil {
		return false, err
	}
	p, err := abs.Concretise(abs.Op{ID: 1, NI: srvDefault, Typ: "ADD", Kind: "v4", Key: "k2", PL: "a", G: "42", NHs: []string{}, NoEID: true})
	if err != nil {
		return false, err
	}
	oks, fails, err := srv.VerifRIB().AddEntry(srvDefault, p)
	if err != nil {
		return false, err
	}
	return len(oks) == 0 && len(fails) == 1, nil
}

type nullSink struct{}

func (nullSink) Emit(ribdrv.Event) {}

// ProbeLeaksResults reports whether a node wrapped by the given fault copies the results of one session's operations to
// another open Modify session (independent evidence that the wrapper is faulty as intended: the wire traces of tests that
// run two clients at once are not validated at message grain).
func ProbeLeaksResults(fault string) (bool, error) {
	n, err := newNode(nullSink{}, true, fault, Names{DefaultNI: srvDefault, VRF: "NON-DEFAULT-VRF"})
	if err != nil {
		return false, err
	}
	defer n.stop()
	ctx, cancel := context.WithTimeout(context.Background(), 20*time.Second)
	defer cancel()
	cl := spb.NewGRIBIClient(n.conn)
	open := func() (spb.GRIBI_ModifyClient, error) {
		st, err := cl.Modify(ctx)
		if err != nil {
			return nil, err
		}
		if err := st.Send(&spb.ModifyRequest{Params: &spb.SessionParameters{Redundancy: spb.SessionParameters_SINGLE_PRIMARY, Persistence: spb.SessionParameters_PRESERVE}}); err != nil {
			return nil, err
		}
		if _, err := st.Recv(); err != nil {
			return nil, err
		}
		return st, nil
	}
	a, err := open()
	if err != nil {
		return false, err
	}
	b, err := open()
	if err != nil {
		return false, err
	}
	if err := a.Send(&spb.ModifyRequest{ElectionId: &spb.Uint128{Low: 3}}); err != nil {
		return false, err
	}
	if _, err := a.Recv(); err != nil {
		return false, err
	}
	p, err := abs.Concretise(abs.Op{ID: 1, NI: srvDefault, Typ: "ADD", Kind: "nh", Key: "7", PL: "a", NHs: []string{}, NoEID: true})
	if err != nil {
		return false, err
	}
	p.ElectionId = &spb.Uint128{Low: 3}
	if err := a.Send(&spb.ModifyRequest{Operation: []*spb.AFTOperation{p}}); err != nil {
		return false, err
	}
	if _, err := a.Recv(); err != nil {
		return false, err
	}
	got := make(chan bool, 1)
	go func() {
		m, err := b.Recv()
		got <- err == nil && len(m.GetResult()) > 0
	}()
	select {
	case leaked := <-got:
		return leaked, nil
	case <-time.After(2 * time.Second):
		return false, nil
	}
}

// ProbeIgnoresNamedFlush reports whether a node wrapped by the given fault acknowledges a Flush that names a network instance
// and leaves the instance's entries in place (evidence that the wrapper is faulty as intended: a test that flushes everything
// first never shows it in its wire trace).
func ProbeIgnoresNamedFlush(fault string) (bool, error) {
	n, err := newNode(nullSink{}, true, fault, Names{DefaultNI: srvDefault, VRF: "NON-DEFAULT-VRF"})
	if err != nil {
		return false, err
	}
	defer n.stop()
	ctx, cancel := context.WithTimeout(context.Background(), 20*time.Second)
	defer cancel()
	cl := spb.NewGRIBIClient(n.conn)
	st, err := cl.Modify(ctx)
	if err != nil {
		return false, err
	}
	if err := st.Send(&spb.ModifyRequest{Params: &spb.SessionParameters{Redundancy: spb.SessionParameters_SINGLE_PRIMARY, Persistence: spb.SessionParameters_PRESERVE}}); err != nil {
		return false, err
	}
	if _, err := st.Recv(); err != nil {
		return false, err
	}
	if err := st.Send(&spb.ModifyRequest{ElectionId: &spb.Uint128{Low: 3}}); err != nil {
		return false, err
	}
	if _, err := st.Recv(); err != nil {
		return false, err
	}
	p, err := abs.Concretise(abs.Op{ID: 1, NI: srvDefault, Typ: "ADD", Kind: "nh", Key: "7", PL: "a", NHs: []string{}, NoEID: true})
	if err != nil {
		return false, err
	}
	p.ElectionId = &spb.Uint128{Low: 3}
	if err := st.Send(&spb.ModifyRequest{Operation: []*spb.AFTOperation{p}}); err != nil {
		return false, err
	}
	if _, err := st.Recv(); err != nil {
		return false, err
	}
	fr, err := cl.Flush(ctx, &spb.FlushRequest{NetworkInstance: &spb.FlushRequest_Name{Name: srvDefault}, Election: &spb.FlushRequest_Override{Override: &spb.Empty{}}})
	if err != nil || fr.GetResult() != spb.FlushResponse_OK {
		return false, nil
	}
	g, err := cl.Get(ctx, &spb.GetRequest{NetworkInstance: &spb.GetRequest_All{All: &spb.Empty{}}, Aft: spb.AFTType_ALL})
	if err != nil {
		return false, err
	}
	left := 0
	for {
		m, err := g.Recv()
		if err != nil {
			break
		}
		left += len(m.GetEntry())
	}
	return left > 0, nil
}

// ProbeAcceptsRepeatedParams reports whether a node wrapped by the given fault answers a verbatim repeat of the negotiated
// session parameters with OK (evidence that the wrapper is faulty as intended, whatever the test sends).
func ProbeAcceptsRepeatedParams(fault string) (bool, error) {
	n, err := newNode(nullSink{}, true, fault, Names{DefaultNI: srvDefault, VRF: "NON-DEFAULT-VRF"})
	if err != nil {
		return false, err
	}
	defer n.stop()
	ctx, cancel := context.WithTimeout(context.Background(), 20*time.Second)
	defer cancel()
	st, err := spb.NewGRIBIClient(n.conn).Modify(ctx)
	if err != nil {
		return false, err
	}
	params := &spb.ModifyRequest{Params: &spb.SessionParameters{Redundancy: spb.SessionParameters_SINGLE_PRIMARY, Persistence: spb.SessionParameters_PRESERVE}}
	for i := 0; i < 2; i++ {
		if err := st.Send(proto.Clone(params).(*spb.ModifyRequest)); err != nil {
			return false, nil
		}
		m, err := st.Recv()
		if err != nil || m.GetSessionParamsResult().GetStatus() != spb.SessionParametersResult_OK {
			return false, nil
		}
	}
	return true, nil
}

func newNode(sink ribdrv.Sink, fwd bool, fault string, names Names) (*node, error) {
	n := &node{mirror: ribdrv.NewMirror()}
	srv, err := server.New(serverOpts(fwd, fault, names, n.mirror)...)
	if err != nil {
		return nil, err
	}
	n.srv = srv
	n.rec = &recorder{sink: sink, srv: srv, mirror: n.mirror, fault: fault, names: names, byCID: map[string]string{}, byStrm: map[any]*wsess{},
		present: map[string]bool{}, resps: map[string]int{}, rpcerrs: map[string]int{}, ops: map[*spb.AFTOperation]abs.Op{}}
	n.lis = bufconn.Listen(1 << 20)
	n.gs = grpc.NewServer()
	spb.RegisterGRIBIServer(n.gs, &service{n: n})
	go n.gs.Serve(n.lis)
	conn, err := grpc.NewClient("passthrough:///bufnet", grpc.WithContextDialer(func(ctx context.Context, _ string) (net.Conn, error) { return n.lis.DialContext(ctx) }),
		grpc.WithTransportCredentials(insecure.NewCredentials()))
	if err != nil {
		return nil, err
	}
	n.conn = conn
	return n, nil
}

func (n *node) stop() {
	n.conn.Close()
	n.gs.Stop()
}

// Verdict of one test.
type Verdict struct {
	Name    string `json:"name"`
	Pass    bool   `json:"pass"`
	Skipped bool   `json:"skipped"`
	Msg     string `json:"msg,omitempty"`
	NoFwd   bool   `json:"nofwd"`
}

// After, when set, names a test that is run before every other selected test
// (again whenever the server's RIB is empty), within AfterBudget.
var (
	After       string
	AfterBudget time.Duration
	nextTest    func() *compliance.TestSpec
)

// Order, when set, is the exact sequence of test names to run (repeats allowed).
var Order []string

// RunSuite runs the tests selected by pick (nil: all) in the order given by seed.
func RunSuite(sink ribdrv.Sink, seed int64, fault string, base uint64, names Names, pick func(*compliance.TestSpec) bool) ([]Verdict, error) {
	if names.DefaultNI == "" {
		names.DefaultNI = srvDefault
	}
	if names.VRF == "" {
		names.VRF = "NON-DEFAULT-VRF"
	}
	compliance.SetDefaultNetworkInstanceName(names.DefaultNI)
	compliance.SetNonDefaultVRFName(names.VRF)
	defer compliance.SetDefaultNetworkInstanceName(srvDefault)
	defer compliance.SetNonDefaultVRFName("NON-DEFAULT-VRF")
	abs.IdentityIDs = true
	defer func() { abs.IdentityIDs = false }()
	tests := []*compliance.TestSpec{}
	for _, t := range compliance.TestSuite {
		if pick == nil || pick(t) {
			tests = append(tests, t)
		}
	}
	if len(Order) > 0 {
		byName := map[string]*compliance.TestSpec{}
		for _, t := range compliance.TestSuite {
			byName[t.In.ShortName] = t
		}
		tests = tests[:0]
		for _, n := range Order {
			t, ok := byName[n]
			if !ok {
				return nil, fmt.Errorf("no test named %q", n)
			}
			tests = append(tests, t)
		}
	}
	rng := rand.New(rand.NewSource(seed))
	if seed != 0 && len(Order) == 0 {
		rng.Shuffle(len(tests), func(i, j int) { tests[i], tests[j] = tests[j], tests[i] })
	}
	compliance.SetElectionID(base)
	nodes := map[bool]*node{}
	get := func(fwd bool) (*node, error) {
		if n, ok := nodes[fwd]; ok {
			return n, nil
		}
		n, err := newNode(sink, fwd, fault, names)
		if err != nil {
			return nil, err
		}
		nodes[fwd] = n
		sink.Emit(Event{"ev": "sreset", "nis": []string{srvDefault, names.VRF}, "fwd": fwd})
		return n, nil
	}
	defer func() {
		for _, n := range nodes {
			n.stop()
		}
		rib.VerifSetTracer(nil)
		server.VerifSetTracer(nil)
	}()
	var out []Verdict
	var cur *node
	lastLeft := 0
	if After != "" {
		// directed order: every target runs right after the named test, or after tests that kept what it left behind
		var leaker *compliance.TestSpec
		var targets []*compliance.TestSpec
		for _, t := range tests {
			if t.In.ShortName == After {
				leaker = t
			} else {
				targets = append(targets, t)
			}
		}
		if leaker == nil {
			return nil, fmt.Errorf("no test named %q", After)
		}
		tests = nil
		deadline := time.Now().Add(AfterBudget)
		nextTest = func() *compliance.TestSpec {
			if len(targets) == 0 || (AfterBudget > 0 && time.Now().After(deadline)) {
				return nil
			}
			if lastLeft == 0 {
				lastLeft = -1 // the leaker runs once, then a target whatever it left
				return leaker
			}
			t := targets[0]
			targets = targets[1:]
			return t
		}
	} else {
		i := 0
		nextTest = func() *compliance.TestSpec {
			if i >= len(tests) {
				return nil
			}
			i++
			return tests[i-1]
		}
	}
	for tt := nextTest(); tt != nil; tt = nextTest() {
		fwd := !tt.In.RequiresDisallowedForwardReferences
		n, err := get(fwd)
		if err != nil {
			return nil, err
		}
		if n != cur {
			// switching servers: the trace continues with the other server's state
			cur = n
			rib.VerifSetTracer(n.rec.ribTracer)
			server.VerifSetTracer(n.rec.srvTracer)
			sink.Emit(Event{"ev": "sswitch", "fwd": fwd, "sst": n.rec.srvState(), "st": n.rec.ribState()})
		}
		stub := spb.NewGRIBIClient(n.conn)
		c := fluent.NewClient()
		c.Connection().WithStub(stub)
		sc := fluent.NewClient()
		sc.Connection().WithStub(stub)
		sink.Emit(Event{"ev": "ctestbegin", "name": tt.In.ShortName})
		t0 := time.Now()
		tb, pn := chkdrv.RunCaptured(func(t testing.TB) {
			tt.In.Fn(c, t, compliance.SecondClient(sc))
		})
		chkdrv.RunCaptured(func(t testing.TB) { c.Stop(t); sc.Stop(t) })
		time.Sleep(2 * time.Millisecond) // let the server-side handlers of the stopped clients return
		v := Verdict{Name: tt.In.ShortName, NoFwd: !fwd, Skipped: tb.Skipped_, Msg: tb.Msg}
		failed := tb.Fatal_ || tb.Failed_ || pn != nil
		switch {
		case tt.FatalMsg != "":
			v.Pass = tb.Fatal_ && strings.Contains(tb.Msg, tt.FatalMsg)
		case tt.ErrorMsg != "":
			v.Pass = failed && strings.Contains(tb.Msg, tt.ErrorMsg)
		default:
			v.Pass = !failed
		}
		if pn != nil {
			v.Msg = fmt.Sprint("panic: ", pn)
		}
		if len(v.Msg) > 300 {
			v.Msg = v.Msg[:300]
		}
		n.rec.mu.Lock()
		overlap := n.rec.overlap
		n.rec.overlap = false
		n.rec.mu.Unlock()
		if lastLeft = n.rec.leftovers(); lastLeft < 0 {
			lastLeft = 0
		}
		sink.Emit(Event{"ev": "ctest", "name": v.Name, "pass": v.Pass, "skipped": v.Skipped, "fault": fault, "overlap": overlap, "msg": v.Msg, "nofwd": !fwd,
			"ms": time.Since(t0).Milliseconds(), "left": n.rec.leftovers()})
		out = append(out, v)
	}
	return out, nil
}
