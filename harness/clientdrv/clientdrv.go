// Package clientdrv drives the real gRIBI client library through a scripted
// stub stream and records one trace event per action of GribiClient.tla.
package clientdrv

import (
	"context"
	"errors"
	"fmt"
	"math/rand"
	"runtime"
	"strings"
	"sync"
	"sync/atomic"
	"time"

	"github.com/openconfig/gribigo/client"
	"github.com/openconfig/gribigo/constants"
	"google.golang.org/grpc/codes"
	"google.golang.org/grpc/status"

	spb "github.com/openconfig/gribi/v1/proto/service"

	"verif/harness/abs"
	"verif/harness/ribdrv"
	"verif/harness/stubs"
)

type Event = ribdrv.Event

// Op is an abstract operation of a queued message.
type Op struct {
	ID   uint64 `json:"id"`
	Typ  string `json:"typ"`
	Kind string `json:"kind"`
	Key  int    `json:"key"`
}

// Msg is an abstract ModifyRequest.
type Msg struct {
	K   string `json:"k"` // params | elec | ops
	ID  []int  `json:"id,omitempty"`
	Ops []Op   `json:"ops,omitempty"`
}

// Res is one AFTResult of a response.
type Res struct {
	ID uint64 `json:"id"`
	St string `json:"st"` // RIB | FIB | FAILED | FIB_FAILED
}

// Resp is an abstract ModifyResponse.
type Resp struct {
	K       string `json:"k"` // params_ok | elec | res | multi
	ID      []int  `json:"id,omitempty"`
	Results []Res  `json:"results,omitempty"`
}

// Input is one step.
type Input struct {
	A       string `json:"a"` // new | connect | q | start | deliver | recvfail | recveof | sendfail | await | close | reset | stuckburst
	Fib     bool   `json:"fib,omitempty"`
	Elected bool   `json:"elected,omitempty"`
	Params  bool   `json:"params,omitempty"`
	Elec    []int  `json:"elec,omitempty"`
	M       *Msg   `json:"m,omitempty"`
	R       *Resp  `json:"r,omitempty"`
	Ms      []Msg  `json:"ms,omitempty"`
	N       int    `json:"n,omitempty"`
	Code    string `json:"code,omitempty"`
	ID      uint64 `json:"id,omitempty"`
	// Straddle (with A = "ack"): AckResult is held at its gate while the receiver handles response R
	Straddle bool `json:"straddle,omitempty"`
}

// Runner drives one client.
type Runner struct {
	Sink           ribdrv.Sink
	c              *client.Client
	stub           *stubs.Client
	strm           *stubs.ModifyStream
	cfg            Input
	nrecv          int // responses/faults delivered on the current stream
	wantTx         int // messages expected on the current stream so far (sent + failed)
	dead           bool
	closed         bool // Close was the last connection-level call
	lastSent       []any
	Steps          int
	GateMissing    int
	SettleTimeouts int
	// gate dispatcher: sndExits counts how often a sender goroutine reached its exit sequence (after it has
	// recorded the error that made it leave); extraGate is the gate function of the step in progress
	sndExits       atomic.Int32
	exitsAtConnect int32
	extraGate      atomic.Pointer[func(string)]
	Hangs          int
	base           int // goroutines before the client was created
	isSending      bool
	lastSnaps      []any
	recvDead       bool
	snd            string // mirror of the sender goroutine: alive | lastone | dead
	wantCalls      int    // Send calls expected on the current stream
	queued         int    // messages queued before StartSending
}

// waitRecv waits until the receiver has consumed what was just delivered: it
// entered Recv again, or recorded a receive error (and exits), or - for a clean
// end of stream, which leaves no other trace - its goroutine is gone.
func (rn *Runner) waitRecv(before, gBefore int) {
	errs0 := rn.readErrs()
	deadline := time.Now().Add(limit)
	for time.Now().Before(deadline) {
		if rn.strm.RecvEntered() > before || rn.readErrs() > errs0 {
			break
		}
		if gBefore >= 0 && clientGoroutines() < gBefore {
			break
		}
		time.Sleep(50 * time.Microsecond)
	}
	time.Sleep(100 * time.Microsecond)
}

func (rn *Runner) readErrs() int {
	if cs, _ := rn.c.Status(); cs != nil {
		return len(cs.ReadErrs)
	}
	return 0
}

const limit = 8 * time.Second

func uid(a []int) *spb.Uint128 {
	if len(a) != 2 {
		return &spb.Uint128{}
	}
	return &spb.Uint128{High: uint64(a[0]), Low: uint64(a[1])}
}

func concOp(o Op) *spb.AFTOperation {
	a := abs.Op{ID: o.ID, NI: "DEFAULT", Typ: o.Typ, Kind: o.Kind, Key: fmt.Sprint(o.Key), PL: "a", NHs: []string{"1"}, G: "1", NoEID: true}
	if o.Kind != "nh" && o.Kind != "nhg" {
		a.Key = fmt.Sprintf("k%d", o.Key)
	}
	p, err := abs.Concretise(a)
	if err != nil {
		panic(err)
	}
	return p
}

func concMsg(m *Msg) *spb.ModifyRequest {
	switch m.K {
	case "params":
		return &spb.ModifyRequest{Params: &spb.SessionParameters{Redundancy: spb.SessionParameters_SINGLE_PRIMARY, Persistence: spb.SessionParameters_PRESERVE}}
	case "elec":
		return &spb.ModifyRequest{ElectionId: uid(m.ID)}
	}
	r := &spb.ModifyRequest{}
	for _, o := range m.Ops {
		r.Operation = append(r.Operation, concOp(o))
	}
	return r
}

var stMap = map[string]spb.AFTResult_Status{"RIB": spb.AFTResult_RIB_PROGRAMMED, "FIB": spb.AFTResult_FIB_PROGRAMMED,
	"FAILED": spb.AFTResult_FAILED, "FIB_FAILED": spb.AFTResult_FIB_FAILED,
	// statuses that complete nothing: the deprecated OK, the zero value, a number the enumeration does not define
	"OK": spb.AFTResult_OK, "UNSET": spb.AFTResult_UNSET, "9": spb.AFTResult_Status(9)}

func concResp(r *Resp) *spb.ModifyResponse {
	switch r.K {
	case "params_ok":
		return &spb.ModifyResponse{SessionParamsResult: &spb.SessionParametersResult{Status: spb.SessionParametersResult_OK}}
	case "elec":
		return &spb.ModifyResponse{ElectionId: uid(r.ID)}
	case "multi":
		return &spb.ModifyResponse{ElectionId: uid([]int{0, 1}), SessionParamsResult: &spb.SessionParametersResult{}}
	}
	out := &spb.ModifyResponse{Result: []*spb.AFTResult{}}
	for _, x := range r.Results {
		out.Result = append(out.Result, &spb.AFTResult{Id: x.ID, Status: stMap[x.St]})
	}
	return out
}

func absMsg(m *spb.ModifyRequest) map[string]any {
	switch {
	case m.GetParams() != nil:
		return map[string]any{"k": "params"}
	case m.GetElectionId() != nil:
		return map[string]any{"k": "elec", "id": []uint64{m.GetElectionId().GetHigh(), m.GetElectionId().GetLow()}}
	}
	ops := []any{}
	for _, o := range m.GetOperation() {
		ops = append(ops, absOpOf(o))
	}
	return map[string]any{"k": "ops", "ops": ops}
}

func absOpOf(o *spb.AFTOperation) map[string]any {
	a := abs.AbstractOp(o)
	k := 0
	fmt.Sscan(strings.TrimPrefix(a.Key, "k"), &k)
	return map[string]any{"id": o.GetId(), "typ": a.Typ, "kind": a.Kind, "key": k}
}

// state projects the client's observable state.
func (rn *Runner) state() map[string]any {
	st := map[string]any{}
	cs, err := rn.c.Status()
	if err != nil {
		return map[string]any{"error": err.Error()}
	}
	pend := map[string]any{}
	pe, pp := false, false
	for _, p := range cs.PendingTransactions {
		switch t := p.(type) {
		case *client.PendingOp:
			x := absOpOf(t.Op)
			pend[fmt.Sprint(t.Op.GetId())] = map[string]any{"typ": x["typ"], "kind": x["kind"], "key": x["key"]}
		case *client.ElectionReqDetails:
			pe = true
		case *client.SessionParamReqDetails:
			pp = true
		}
	}
	res := []any{}
	for _, r := range cs.Results {
		switch {
		case r == nil:
			res = append(res, map[string]any{"k": "nil"})
		case r.CurrentServerElectionID != nil:
			k := "elec"
			if r.ClientError != "" {
				k = "clienterr"
			}
			res = append(res, map[string]any{"k": k, "id": []uint64{r.CurrentServerElectionID.GetHigh(), r.CurrentServerElectionID.GetLow()}})
		case r.SessionParameters != nil:
			k := "params"
			if r.ClientError != "" {
				k = "clienterr_params"
			}
			res = append(res, map[string]any{"k": k})
		default:
			x := map[string]any{"k": "op", "id": r.OperationID, "typ": "", "kind": "", "key": 0}
			switch r.ProgrammingResult {
			case spb.AFTResult_RIB_PROGRAMMED:
				x["st"] = "RIB"
			case spb.AFTResult_FIB_PROGRAMMED:
				x["st"] = "FIB"
			case spb.AFTResult_FAILED:
				x["st"] = "FAILED"
			case spb.AFTResult_FIB_FAILED:
				x["st"] = "FIB_FAILED"
			default:
				x["st"] = r.ProgrammingResult.String()
			}
			if d := r.Details; d != nil {
				x["typ"] = map[constants.OpType]string{constants.Add: "ADD", constants.Delete: "DELETE", constants.Replace: "REPLACE"}[d.Type]
				switch {
				case d.NextHopIndex != 0:
					x["kind"], x["key"] = "nh", d.NextHopIndex
				case d.NextHopGroupID != 0:
					x["kind"], x["key"] = "nhg", d.NextHopGroupID
				case d.IPv4Prefix != "":
					x["kind"] = "v4"
					var n int
					fmt.Sscan(strings.TrimPrefix(abs.AbsTopKey("v4", d.IPv4Prefix), "k"), &n)
					x["key"] = n
				case d.IPv6Prefix != "":
					x["kind"] = "v6"
					var n int
					fmt.Sscan(strings.TrimPrefix(abs.AbsTopKey("v6", d.IPv6Prefix), "k"), &n)
					x["key"] = n
				case d.MPLSLabel != 0:
					x["kind"] = "mpls"
					var n int
					fmt.Sscan(strings.TrimPrefix(abs.AbsTopKey("mpls", d.MPLSLabel), "k"), &n)
					x["key"] = n
				}
			}
			res = append(res, x)
		}
	}
	sent := []any{}
	if rn.strm != nil {
		n := rn.strm.NSent()
		for _, m := range rn.strm.Sent[:n] {
			sent = append(sent, absMsg(m))
		}
		rn.lastSent = sent
	} else if rn.closed {
		sent = rn.lastSent // the stream of the closed connection is gone: what it carried stays what it carried
	}
	st["pend"], st["pendElec"], st["pendParams"], st["results"] = pend, pe, pp, res
	st["sendErrs"], st["recvErrs"], st["sent"] = len(cs.SendErrs), len(cs.ReadErrs), sent
	return st
}

// clientGoroutines counts goroutines currently executing inside the client package.
// blockedInQ counts the goroutines blocked inside Client.Q (waiting to hand a message to the sender).
func blockedInQ() int {
	buf := make([]byte, 1<<21)
	buf = buf[:runtime.Stack(buf, true)]
	n := 0
	for _, g := range strings.Split(string(buf), "\n\n") {
		if !strings.Contains(g, "gribigo/client.(*Client).Q") {
			continue
		}
		if hdr, _, _ := strings.Cut(g, "\n"); strings.Contains(hdr, "select") || strings.Contains(hdr, "chan send") {
			n++
		}
	}
	return n
}

func clientGoroutines() int {
	buf := make([]byte, 1<<21)
	buf = buf[:runtime.Stack(buf, true)]
	n := 0
	for _, g := range strings.Split(string(buf), "\n\n") {
		if strings.Contains(g, "gribigo/client.(*Client)") {
			n++
		}
	}
	return n
}

// The harness mirrors what the sender goroutine will do with a message handed
// to it, only to know how long to wait: "alive" - it calls Send once; "lastone"
// (the stream ended cleanly) - it sends one more message and exits; "dead" -
// the message is dropped. If the mirror is wrong the wait simply times out
// after a second and the state comparison decides.
func (rn *Runner) handOver(n int) {
	for i := 0; i < n; i++ {
		if rn.strm != nil && rn.strm.SendFailed() {
			rn.snd = "dead"
		}
		switch rn.snd {
		case "alive":
			rn.wantCalls++
		case "lastone":
			rn.wantCalls++
			rn.snd = "dead"
		}
		rn.settle()
	}
}

// settle waits until the sender has called Send for every message it was expected to take.
func (rn *Runner) settle() {
	if rn.strm == nil {
		return
	}
	deadline := time.Now().Add(limit)
	for {
		if rn.strm.SendCalls() >= rn.wantCalls {
			break
		}
		if !time.Now().Before(deadline) {
			rn.SettleTimeouts++
			break
		}
		time.Sleep(30 * time.Microsecond)
	}
	if rn.strm.SendFailed() {
		rn.snd = "dead"
		// the send error is recorded right after Send returns and before the sender starts its exit sequence
		// (gate s.exit1); the broken stream then fails the receiver too
		for dl := time.Now().Add(limit); ; {
			if cs, _ := rn.c.Status(); cs != nil && len(cs.SendErrs) > 0 && rn.sndExits.Load() > rn.exitsAtConnect && (rn.recvDead || len(cs.ReadErrs) > 0) {
				break
			}
			if !time.Now().Before(dl) {
				rn.SettleTimeouts++
				break
			}
			time.Sleep(50 * time.Microsecond)
		}
		rn.recvDead = true
	}
	time.Sleep(100 * time.Microsecond)
}

func (rn *Runner) hang(at string) {
	rn.Hangs++
	rn.dead = true
	b := ribdrv.BlockedIn("gribigo/client")
	if b == nil {
		b = []string{}
	}
	rn.Sink.Emit(Event{"ev": "chang", "at": at, "blocked": b})
}

// timed runs fn on its own goroutine and reports whether it returned in time.
func timed(fn func()) bool {
	done := make(chan struct{})
	go func() { fn(); close(done) }()
	// slow is not hung: past the limit the call counts as hung only when a goroutine is parked inside the client package
	_, ok, _ := ribdrv.AwaitOrHang(done, limit, "gribigo/client")
	return ok
}

// Step executes one input.
func (rn *Runner) Step(in Input) error {
	if rn.dead && in.A != "new" {
		return nil
	}
	rn.Steps++
	switch in.A {
	case "new":
		rn.dead = false
		rn.closed, rn.lastSent = false, nil
		client.VerifSetGate(func(site string) {
			if site == "s.exit1" {
				rn.sndExits.Add(1)
			}
			if g := rn.extraGate.Load(); g != nil {
				(*g)(site)
			}
		})
		opts := []client.Opt{}
		if in.Params {
			opts = append(opts, client.PersistEntries())
			if in.Elected {
				opts = append(opts, client.ElectedPrimaryClient(uid(in.Elec)))
			} else {
				opts = append(opts, client.AllPrimaryClients())
			}
			if in.Fib {
				opts = append(opts, client.FIBACK())
			}
		}
		rn.base = clientGoroutines()
		c, err := client.New(opts...)
		if err != nil {
			return err
		}
		rn.c, rn.stub, rn.strm, rn.cfg = c, &stubs.Client{}, nil, in
		rn.nrecv, rn.wantTx, rn.isSending, rn.queued, rn.snd = 0, 0, false, 0, "dead"
		c.UseStub(rn.stub)
		rn.Sink.Emit(Event{"ev": "cnew", "cfg": map[string]any{"fib": in.Fib && in.Params, "elected": in.Elected && in.Params, "elec": elecOr0(in), "params": in.Params}})
	case "connect":
		rn.closed = false
		err := rn.c.Connect(context.Background())
		rn.strm = rn.stub.Last()
		rn.strm.CloseEOF = true
		rn.strm.BreakOnSendErr = true
		rn.strm.EOFBreaksSend = true
		rn.nrecv, rn.recvDead, rn.snd, rn.wantCalls = 0, false, "alive", 0
		rn.exitsAtConnect = rn.sndExits.Load()
		rn.Sink.Emit(Event{"ev": "cconnect", "ok": err == nil, "st": rn.state()})
	case "q":
		m := concMsg(in.M)
		if !timed(func() { rn.c.Q(m) }) {
			rn.hang("q")
			return nil
		}
		if rn.closed {
			// after Close: registered (the client is still in sending mode) or queued, never sent
			rn.Sink.Emit(Event{"ev": "cq", "m": in.M, "st": rn.state()})
			return nil
		}
		if rn.isSending {
			rn.handOver(1)
		} else {
			rn.queued++
		}
		rn.Sink.Emit(Event{"ev": "cq", "m": in.M, "st": rn.state()})
	case "dupq":
		// N goroutines call Q at the same moment with an operation of one and the same id, round after round: in any order of
		// the calls exactly one is registered and the others are recorded as errors (duplicate pending id)
		g, rounds, bad, first := in.N, 1500, 0, map[string]int{}
		if g < 2 {
			g = 4
		}
		ok := timed(func() {
			for r := 0; r < rounds; r++ {
				id := uint64(100000 + r)
				st0, _ := rn.c.Status()
				start := make(chan struct{})
				var wg sync.WaitGroup
				for i := 0; i < g; i++ {
					wg.Add(1)
					m := concMsg(&Msg{K: "ops", Ops: []Op{{ID: id, Typ: "ADD", Kind: "nh", Key: 1}}})
					go func() { defer wg.Done(); <-start; rn.c.Q(m) }()
				}
				close(start)
				wg.Wait()
				st1, _ := rn.c.Status()
				errs, pend := len(st1.SendErrs)-len(st0.SendErrs), 0
				for _, p := range st1.PendingTransactions {
					if po, ok := p.(*client.PendingOp); ok && po.Op.GetId() == id {
						pend++
					}
				}
				if errs != g-1 || pend != 1 {
					if bad == 0 {
						first = map[string]int{"round": r, "errors": errs, "pending": pend}
					}
					bad++
				}
			}
		})
		if !ok {
			rn.hang("dupq")
			return nil
		}
		rn.Sink.Emit(Event{"ev": "cdupq", "g": g, "rounds": rounds, "bad": bad, "first": first})
		rn.dead = true // the client is not used further in this sequence
	case "burst":
		if rn.strm == nil || !rn.isSending {
			return nil
		}
		// hold the stream's Send, queue the burst (each Q on its own goroutine, in order), then fail the Send
		gate := make(chan struct{})
		calls0 := rn.strm.SendCalls()
		aliveBefore := rn.snd != "dead" && !rn.strm.SendFailed()
		rn.strm.SetGate(gate)
		returned := make(chan int, len(in.Ms))
		var nret atomic.Int32
		for i := range in.Ms {
			m := concMsg(&in.Ms[i])
			go func(i int) { rn.c.Q(m); nret.Add(1); returned <- i }(i)
			// the next Q starts only when this one has returned or is blocked handing its message to the sender
			for dl := time.Now().Add(5 * time.Second); time.Now().Before(dl) && int(nret.Load())+blockedInQ() < i+1; {
				time.Sleep(100 * time.Microsecond)
			}
		}
		rn.strm.FailSendsAfter(0, errors.New("rpc error: injected send failure"))
		close(gate)
		got := 0
		deadline := time.After(limit)
	wait:
		for got < len(in.Ms) {
			select {
			case <-returned:
				got++
			case <-deadline:
				break wait
			}
		}
		if aliveBefore {
			// the stuck Send now fails; wait for it
			for dl := time.Now().Add(limit); time.Now().Before(dl) && rn.strm.SendCalls() == calls0; {
				time.Sleep(30 * time.Microsecond)
			}
			// ... and for the sender to have recorded the error (it then starts its exit sequence)
			for dl := time.Now().Add(limit); time.Now().Before(dl) && rn.sndExits.Load() <= rn.exitsAtConnect; {
				time.Sleep(30 * time.Microsecond)
			}
		}
		rn.strm.SetGate(nil)
		rn.snd = "dead"
		ev := Event{"ev": "cburst", "ms": in.Ms, "returned": got}
		if got < len(in.Ms) {
			b := ribdrv.BlockedIn("gribigo/client")
			if b == nil {
				b = []string{}
			}
			ev["blocked"] = b
			rn.Sink.Emit(ev)
			rn.Hangs++
			rn.dead = true
			return nil
		}
		rn.settle()
		ev["st"] = rn.state()
		rn.Sink.Emit(ev)
	case "start":
		if !timed(func() { rn.c.StartSending() }) {
			rn.hang("start")
			return nil
		}
		rn.isSending = true
		k := rn.queued
		if rn.cfg.Params {
			k++
			if rn.cfg.Elected {
				k++
			}
		}
		rn.queued = 0
		rn.handOver(k)
		rn.Sink.Emit(Event{"ev": "cstart", "st": rn.state()})
	case "deliver":
		if rn.strm == nil || rn.recvDead {
			return nil // the specification never delivers to a receiver that is gone
		}
		if cs, _ := rn.c.Status(); cs != nil && len(cs.ReadErrs) > 0 {
			rn.recvDead = true // a receive error was recorded: the receiver has exited
			return nil
		}
		before, errs0 := rn.strm.RecvEntered(), rn.readErrs()
		// poll Status() concurrently with the receiver: every snapshot must account for every operation
		// (several pollers when the response is a large batch: the receiver then works for a while)
		np := 1
		if in.R != nil && len(in.R.Results) >= 16 {
			np = 4
		}
		stop, polled1 := make(chan struct{}), make(chan []any, np)
		for pi := 0; pi < np; pi++ {
			go func() {
				seen := map[string]bool{}
				out := []any{}
				var minSnap map[string]any
				minN := 0
				for {
					select {
					case <-stop:
						if minSnap != nil {
							out = append(out, minSnap)
						}
						polled1 <- out
						return
					default:
					}
					if cs, err := rn.c.Status(); err == nil {
						p, t := []uint64{}, []uint64{}
						for _, x := range cs.PendingTransactions {
							if o, ok := x.(*client.PendingOp); ok {
								p = append(p, o.Op.GetId())
							}
						}
						for _, x := range cs.Results {
							if x != nil && x.Details != nil {
								t = append(t, x.OperationID)
							}
						}
						// keep the first few distinct snapshots and the one accounting for the fewest operations
						k := fmt.Sprint(p, t)
						if !seen[k] && len(out) < 24/np {
							seen[k] = true
							out = append(out, map[string]any{"pend": p, "res": t})
						}
						u := map[uint64]bool{}
						for _, x := range p {
							u[x] = true
						}
						for _, x := range t {
							u[x] = true
						}
						if minSnap == nil || len(u) < minN {
							minN, minSnap = len(u), map[string]any{"pend": p, "res": t}
						}
					}
				}
			}()
		}
		polled := make(chan []any, 1)
		go func() {
			all := []any{}
			for pi := 0; pi < np; pi++ {
				all = append(all, (<-polled1)...)
			}
			polled <- all
		}()
		// one Status() call is held at the gate between its two reads until the receiver has handled the response
		var armed atomic.Int32
		armed.Store(1)
		atGate, release, straddle := make(chan struct{}), make(chan struct{}), make(chan any, 1)
		eg := func(site string) {
			if site == "status.mid" && armed.CompareAndSwap(1, 2) {
				close(atGate)
				<-release
			}
		}
		rn.extraGate.Store(&eg)
		go func() {
			cs, err := rn.c.Status()
			if err != nil || cs == nil {
				straddle <- nil
				return
			}
			straddle <- snapOf(cs)
		}()
		if rn.GateMissing == 0 {
			select {
			case <-atGate:
			case <-time.After(2 * time.Second):
				rn.GateMissing++ // the Status() call never reached the gate: the hook is gone
			}
		}
		ok := rn.strm.Deliver(concResp(in.R))
		if ok {
			rn.waitRecv(before, -1)
		}
		armed.Store(0)
		close(release)
		var held any
		select {
		case held = <-straddle:
		case <-time.After(2 * time.Second):
		}
		rn.extraGate.Store(nil)
		close(stop)
		snaps := <-polled
		if !ok {
			return nil
		}
		if held != nil {
			snaps = append(snaps, held)
		}
		rn.recvDead = rn.readErrs() > errs0
		defer func() { _ = snaps }()
		rn.lastSnaps = snaps
		rn.Sink.Emit(Event{"ev": "cdeliver", "r": in.R, "st": rn.state(), "snaps": rn.lastSnaps})
	case "ack":
		if rn.c == nil {
			return nil
		}
		if !in.Straddle || rn.strm == nil || rn.recvDead || in.R == nil {
			var err error
			// what Results() handed out earlier belongs to the caller: acknowledging a result must not rewrite it
			held, _ := rn.c.Results()
			keep := append([]*client.OpResult{}, held...)
			if !timed(func() { err = rn.c.AckResult(&client.OpResult{OperationID: in.ID}) }) {
				rn.hang("ack")
				return nil
			}
			mutated := false
			for i := range keep {
				mutated = mutated || held[i] != keep[i]
			}
			rn.Sink.Emit(Event{"ev": "cack", "id": in.ID, "err": err != nil, "snapmut": mutated, "st": rn.state()})
			return nil
		}
		// AckResult is held between filtering the result queue and installing it while the receiver handles a response
		before, errs0 := rn.strm.RecvEntered(), rn.readErrs()
		var armed atomic.Int32
		armed.Store(1)
		atGate, release := make(chan struct{}), make(chan struct{})
		eg := func(site string) {
			if site == "ack.install" && armed.CompareAndSwap(1, 2) {
				close(atGate)
				<-release
			}
		}
		rn.extraGate.Store(&eg)
		ackErr := make(chan error, 1)
		go func() { ackErr <- rn.c.AckResult(&client.OpResult{OperationID: in.ID}) }()
		if rn.GateMissing == 0 {
			select {
			case <-atGate:
			case <-time.After(2 * time.Second):
				rn.GateMissing++
			}
		}
		ok := rn.strm.Deliver(concResp(in.R))
		// the receiver either finishes (the queue was not locked) or is parked behind the lock AckResult holds
		for dl := time.Now().Add(20 * time.Millisecond); ok && time.Now().Before(dl) && rn.strm.RecvEntered() == before; {
			time.Sleep(100 * time.Microsecond)
		}
		armed.Store(0)
		close(release)
		var aerr error
		select {
		case aerr = <-ackErr:
		case <-time.After(limit):
			rn.extraGate.Store(nil)
			rn.hang("ack")
			return nil
		}
		rn.extraGate.Store(nil)
		for dl := time.Now().Add(limit); ok && time.Now().Before(dl) && rn.strm.RecvEntered() == before && rn.readErrs() == errs0; {
			time.Sleep(50 * time.Microsecond)
		}
		time.Sleep(100 * time.Microsecond)
		rn.Sink.Emit(Event{"ev": "cack", "id": in.ID, "err": aerr != nil})
		if ok {
			rn.recvDead = rn.readErrs() > errs0
			rn.Sink.Emit(Event{"ev": "cdeliver", "r": in.R, "st": rn.state(), "snaps": []any{}})
		}
	case "recvfail":
		if rn.strm == nil || rn.recvDead {
			return nil
		}
		rn.recvDead = true
		before, g := rn.strm.RecvEntered(), -1
		// whatever status the stream dies with, it is a failure of the session
		code := map[string]codes.Code{"Internal": codes.Internal, "Canceled": codes.Canceled, "DeadlineExceeded": codes.DeadlineExceeded,
			"Aborted": codes.Aborted, "ResourceExhausted": codes.ResourceExhausted, "Unknown": codes.Unknown}[in.Code]
		if code == codes.OK {
			code = codes.Unavailable
		}
		rn.strm.Fail(status.Error(code, "injected"))
		rn.waitRecv(before, g)
		rn.Sink.Emit(Event{"ev": "crecvfail", "st": rn.state()})
	case "recveof":
		if rn.strm == nil || rn.recvDead {
			return nil
		}
		rn.recvDead = true
		before, g := rn.strm.RecvEntered(), clientGoroutines()
		rn.strm.EOF()
		rn.waitRecv(before, g)
		if rn.snd == "alive" {
			rn.snd = "lastone"
		}
		rn.Sink.Emit(Event{"ev": "crecveof", "st": rn.state()})
	case "sendfail":
		if rn.strm == nil {
			return nil
		}
		rn.strm.FailSendsAfter(in.N, errors.New("rpc error: injected send failure"))
		rn.Sink.Emit(Event{"ev": "csendfail", "n": in.N})
	case "await":
		ctx, cancel := context.WithTimeout(context.Background(), 150*time.Millisecond)
		var err error
		ok := timed(func() { err = rn.c.AwaitConverged(ctx) })
		cancel()
		if !ok {
			rn.hang("await")
			return nil
		}
		if cs, _ := rn.c.Status(); err != nil && errors.Is(err, context.DeadlineExceeded) && cs != nil && len(cs.PendingTransactions) == 0 && rn.queued == 0 && rn.isSending {
			// nothing is pending: the deadline may have passed only because the machine is busy - ask again, patiently
			ctx, cancel := context.WithTimeout(context.Background(), 5*time.Second)
			ok = timed(func() { err = rn.c.AwaitConverged(ctx) })
			cancel()
			if !ok {
				rn.hang("await")
				return nil
			}
		}
		res := "ok"
		var ce *client.ClientErr
		switch {
		case errors.As(err, &ce):
			res = "err"
		case err != nil:
			res = "timeout"
		}
		rn.Sink.Emit(Event{"ev": "cawait", "res": res, "st": rn.state()})
	case "close", "reset":
		done := false
		select {
		case <-rn.c.Done():
			done = true
		default:
		}
		ok := timed(func() {
			if in.A == "close" {
				rn.c.Close()
			} else {
				rn.c.Reset()
			}
		})
		if !ok {
			rn.hang(in.A)
			return nil
		}
		left := clientGoroutines() - rn.base
		for dl := time.Now().Add(3 * time.Second); left > 0 && time.Now().Before(dl); left = clientGoroutines() - rn.base {
			time.Sleep(time.Millisecond)
		}
		rn.Sink.Emit(Event{"ev": "c" + in.A, "done": done, "goroutines": left, "st": rn.state()})
		rn.isSending, rn.wantTx, rn.queued, rn.snd = false, 0, 0, "dead"
		rn.closed = in.A == "close"
		if in.A == "close" {
			rn.strm = nil
		} else {
			rn.strm = nil
			rn.stub = &stubs.Client{}
			rn.c.ReplaceStub(rn.stub)
		}
	default:
		return fmt.Errorf("unknown input %q", in.A)
	}
	return nil
}

func elecOr0(in Input) []int {
	if len(in.Elec) == 2 && in.Params && in.Elected {
		return in.Elec
	}
	return []int{0, 0}
}

// Random generates a seeded input sequence.
func snapOf(cs *client.ClientStatus) map[string]any {
	p, t := []uint64{}, []uint64{}
	for _, x := range cs.PendingTransactions {
		if o, ok := x.(*client.PendingOp); ok {
			p = append(p, o.Op.GetId())
		}
	}
	for _, x := range cs.Results {
		if x != nil && x.Details != nil {
			t = append(t, x.OperationID)
		}
	}
	return map[string]any{"pend": p, "res": t}
}

// Storm is a well-behaved exchange with large batches: many operations are queued and answered
// in one response each round, so that the receiver works through a long batch while Status() is polled.
func Storm(r *rand.Rand, rounds int) []Input {
	fib := r.Intn(2) == 0
	ins := []Input{{A: "new", Fib: fib, Elected: true, Params: true, Elec: []int{0, 1 + r.Intn(3)}}, {A: "connect"}, {A: "start"}}
	var id uint64
	for k := 0; k < rounds; k++ {
		var rs []Res
		for m := 0; m < 8; m++ {
			msg := &Msg{K: "ops"}
			for i := 0; i < 6; i++ {
				id++
				msg.Ops = append(msg.Ops, Op{ID: id, Typ: "ADD", Kind: []string{"nh", "nhg", "v4", "v6", "mpls"}[r.Intn(5)], Key: 1 + r.Intn(3)})
				rs = append(rs, Res{ID: id, St: "RIB"})
			}
			ins = append(ins, Input{A: "q", M: msg})
		}
		r.Shuffle(len(rs), func(i, j int) { rs[i], rs[j] = rs[j], rs[i] })
		ins = append(ins, Input{A: "deliver", R: &Resp{K: "res", Results: rs}})
		if fib {
			fs := make([]Res, len(rs))
			for i, x := range rs {
				fs[i] = Res{ID: x.ID, St: "FIB"}
			}
			r.Shuffle(len(fs), func(i, j int) { fs[i], fs[j] = fs[j], fs[i] })
			ins = append(ins, Input{A: "deliver", R: &Resp{K: "res", Results: fs}})
		}
		ins = append(ins, Input{A: "await"})
	}
	return append(ins, Input{A: "close"})
}

func Random(r *rand.Rand, n int) []Input {
	fib := r.Intn(2) == 0
	elected := r.Intn(4) != 0
	ins := []Input{{A: "new", Fib: fib, Elected: elected, Params: r.Intn(8) != 0, Elec: []int{0, 1 + r.Intn(3)}}}
	// fluent queues before it connects: in half of the sequences Connect comes after a few Q calls
	late := r.Intn(2) == 0
	if !late {
		ins = append(ins, Input{A: "connect"})
	}
	var id uint64
	open := map[uint64]string{} // ids outstanding -> last status delivered
	acked := map[uint64]bool{}
	started := false
	mk := func() *Msg {
		k := 1 + r.Intn(3)
		m := &Msg{K: "ops"}
		for i := 0; i < k; i++ {
			id++
			o := Op{ID: id, Typ: []string{"ADD", "REPLACE", "DELETE"}[r.Intn(3)], Kind: []string{"nh", "nhg", "v4", "v6", "mpls"}[r.Intn(5)], Key: 1 + r.Intn(3)}
			if r.Intn(25) == 0 && id > 2 {
				o.ID = 1 + uint64(r.Intn(int(id)-1)) // an id that may still be pending
			}
			m.Ops = append(m.Ops, o)
			open[o.ID] = ""
		}
		return m
	}
	ids := func() []uint64 {
		out := []uint64{}
		for k := range open {
			out = append(out, k)
		}
		for i := range out {
			for j := i + 1; j < len(out); j++ {
				if out[j] < out[i] {
					out[i], out[j] = out[j], out[i]
				}
			}
		}
		return out
	}
	if late {
		for i, k := 0, 1+r.Intn(3); i < k; i++ {
			m := mk()
			if i > 0 && r.Intn(2) == 0 {
				m.Ops[0].ID = 1 // clashes with a pending id: a recorded send error that Connect must not lose
			}
			ins = append(ins, Input{A: "q", M: m})
		}
		ins = append(ins, Input{A: "connect"})
	}
	for len(ins) < n {
		x := r.Intn(100)
		switch {
		case !started && x < 25:
			ins = append(ins, Input{A: "start"})
			started = true
		case x < 45:
			ins = append(ins, Input{A: "q", M: mk()})
		case x < 50:
			ins = append(ins, Input{A: "q", M: &Msg{K: "elec", ID: []int{0, 1 + r.Intn(4)}}})
		case x >= 96 && started && len(acked) < 6:
			// the application acknowledges a result (half of the time while the receiver handles the next response)
			cand := []uint64{}
			for i := uint64(1); i <= id; i++ {
				if _, pending := open[i]; !pending && !acked[i] {
					cand = append(cand, i)
				}
			}
			if len(cand) == 0 {
				continue
			}
			a := Input{A: "ack", ID: cand[r.Intn(len(cand))]}
			acked[a.ID] = true
			if o := ids(); len(o) > 0 && r.Intn(2) == 0 {
				good := Res{ID: o[r.Intn(len(o))], St: "FAILED"}
				delete(open, good.ID)
				a.Straddle, a.R = true, &Resp{K: "res", Results: []Res{good}}
			}
			ins = append(ins, a)
		case x < 80 && started:
			// a response: mostly protocol-conformant
			switch y := r.Intn(20); {
			case y == 0:
				ins = append(ins, Input{A: "deliver", R: &Resp{K: "elec", ID: []int{0, 1 + r.Intn(4)}}})
			case y == 1:
				ins = append(ins, Input{A: "deliver", R: &Resp{K: "params_ok"}})
			case y == 2:
				ins = append(ins, Input{A: "deliver", R: &Resp{K: "res", Results: []Res{{ID: 900 + uint64(r.Intn(3)), St: []string{"RIB", "FIB", "FAILED"}[r.Intn(3)]}}}})
			case y == 3:
				ins = append(ins, Input{A: "deliver", R: &Resp{K: "multi"}})
			case y == 4:
				// a protocol violation in the middle of a batch of otherwise valid results
				o := ids()
				if len(o) == 0 {
					continue
				}
				good := Res{ID: o[r.Intn(len(o))], St: "FAILED"}
				delete(open, good.ID)
				bad := Res{ID: 900 + uint64(r.Intn(3)), St: "FAILED"}
				ins = append(ins, Input{A: "deliver", R: &Resp{K: "res", Results: []Res{bad, good}}}, Input{A: "await"})
			default:
				o := ids()
				if len(o) == 0 {
					continue
				}
				rs := []Res{}
				for i := 0; i <= r.Intn(3) && len(o) > 0; i++ {
					k := o[r.Intn(len(o))]
					st := "RIB"
					switch {
					case r.Intn(6) == 0:
						st = "FAILED"
					case fib && open[k] == "RIB":
						st = []string{"FIB", "FIB", "FIB_FAILED"}[r.Intn(3)]
					}
					if r.Intn(9) == 0 {
						// a result that is no verdict: the operation stays pending whatever the mode
						rs = append(rs, Res{ID: k, St: []string{"OK", "UNSET", "9"}[r.Intn(3)]})
						continue
					}
					rs = append(rs, Res{ID: k, St: st})
					if st == "RIB" && fib {
						open[k] = "RIB"
					} else if r.Intn(12) != 0 { // sometimes keep it: a duplicate terminal result follows later
						delete(open, k)
					}
				}
				ins = append(ins, Input{A: "deliver", R: &Resp{K: "res", Results: rs}})
			}
		case x < 84:
			ins = append(ins, Input{A: "await"})
		case x < 87 && started:
			ins = append(ins, Input{A: "sendfail", N: r.Intn(3)})
		case x < 90 && started:
			ins = append(ins, Input{A: []string{"recvfail", "recveof"}[r.Intn(2)],
				Code: []string{"Unavailable", "Canceled", "Internal", "DeadlineExceeded", "Aborted", "ResourceExhausted", "Unknown"}[r.Intn(7)]})
			// keep queueing and waiting afterwards
			for i := 0; i < 2+r.Intn(8); i++ {
				ins = append(ins, Input{A: "q", M: mk()})
			}
			ins = append(ins, Input{A: "await"})
		case x < 95 && started && r.Intn(2) == 0:
			ms := []Msg{}
			for i := 0; i < 2+r.Intn(8); i++ {
				ms = append(ms, *mk())
			}
			ins = append(ins, Input{A: "burst", Ms: ms}, Input{A: "await"})
		case x < 93 && started:
			ins = append(ins, Input{A: "await"}, Input{A: "reset"}, Input{A: "connect"})
			started = false
			open = map[uint64]string{}
		}
	}
	ins = append(ins, Input{A: "await"}, Input{A: "close"})
	// the application goes on queueing after it has closed the client: every call still returns (nothing is sent any more)
	for i := r.Intn(9); i > 0; i-- {
		ins = append(ins, Input{A: "q", M: mk()})
	}
	return ins
}
