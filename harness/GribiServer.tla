---------------------------- MODULE GribiServer ----------------------------
(***************************************************************************)
(* The gRIBI server of openconfig/gribigo (server/server.go) on top of the *)
(* RIB (GribiRIB), at the grain of one received message / one RPC:         *)
(*                                                                         *)
(*   Open, Close            newClient / stream end + deleteClient           *)
(*   MsgBegin               one iteration of the Modify receive loop: the  *)
(*                          multi-field test, checkParams+updateParams,    *)
(*                          runElection, or the prologue of doModify (the  *)
(*                          snapshot of client and election state that is  *)
(*                          used for every operation of the request)       *)
(*   OpDirect               an operation answered without touching the RIB *)
(*                          (network-instance and election checks)         *)
(*   OpAdd/STry/OpAddEnd    an operation handed to rib.AddEntry            *)
(*   OpDelete, OpRibErr     ... to rib.DeleteEntry / a fatal RIB error     *)
(*   MsgEnd                 end of the iteration (or of the RPC)           *)
(*   FlushRPC, GetRPC       the unary Flush and the streaming Get RPC      *)
(*                                                                         *)
(* Election ids are pairs <<hi, lo>> compared high word first (unsigned    *)
(* 128 bit); <<0, 0>> is the invalid zero id and also stands for "none".   *)
(* Operations carry two more fields than in GribiRIB: eid (the election id *)
(* stamped on the operation) and noeid (TRUE: no election id at all).      *)
(***************************************************************************)
EXTENDS GribiRIB

VARIABLES
  sess,    \* live sessions: label -> [params, set, got, last]
  cur,     \* highest election id learnt (NoId: none)
  master,  \* label of the session that won the last election ("" none; may be closed)
  req,     \* the ModifyRequest in progress
  sout,    \* what the last completed server step answered (output only)
  ann,     \* history: set of election ids validly announced so far
  sf       \* the transport fails on the server's first write for the message in progress

svars   == <<sess, cur, master, req, sout, ann, sf>>
allvars == <<vars, svars>>

NoId == <<0, 0>>
IdLT(a, b) == a[1] < b[1] \/ (a[1] = b[1] /\ a[2] < b[2])
IdLE(a, b) == a = b \/ IdLT(a, b)

End(c, r) == [code |-> c, reason |-> r]
NoEnd == End("", "")

DefaultParams == [elec |-> FALSE, persist |-> FALSE, fib |-> FALSE]
NewSess == [params |-> DefaultParams, set |-> FALSE, got |-> FALSE, last |-> NoId]
NoSnap  == [master |-> "", cur |-> NoId, last |-> NoId]
IdleReq == [active |-> FALSE, s |-> "", ops |-> <<>>, snap |-> NoSnap, fib |-> FALSE,
            resp |-> <<>>, end |-> NoEnd]
NoSOut  == [kind |-> "none"]

ParamsOf(m) == [elec |-> m.red = "SINGLE_PRIMARY", persist |-> m.per = "PRESERVE", fib |-> m.ack = "RIB_FIB"]

-----------------------------------------------------------------------------
SInit ==
  /\ sess = EmptyFn /\ cur = NoId /\ master = "" /\ req = IdleReq /\ sout = NoSOut /\ ann = {} /\ sf = FALSE

SReset ==
  /\ sess' = EmptyFn /\ cur' = NoId /\ master' = "" /\ req' = IdleReq /\ sout' = NoSOut /\ ann' = {} /\ sf' = FALSE

Idle == ~req.active /\ ~call.active

Open(s) ==
  /\ Idle /\ s \notin DOMAIN sess
  /\ sess' = Put(sess, s, NewSess)
  /\ sout' = [kind |-> "open", s |-> s]
  /\ UNCHANGED <<vars, cur, master, req, ann, sf>>

\* the client goes away (half-close, receive error, send error): only the
\* session's own footprint disappears (PRESERVE persistence)
CloseCode(mode) == CASE mode = "eof" -> "OK" [] mode = "recverr" -> "Unknown" [] OTHER -> "Internal"
Close(s, mode) ==
  /\ Idle /\ s \in DOMAIN sess
  /\ sess' = Del(sess, s)
  /\ sout' = [kind |-> "close", s |-> s, end |-> End(CloseCode(mode), "")]
  /\ UNCHANGED <<vars, cur, master, req, ann, sf>>

(* ---- session parameters ---- *)
ParamsVerdict(s, m) ==
  IF sess[s].got THEN End("FailedPrecondition", "MODIFY_NOT_ALLOWED")
  ELSE IF m.red = "ALL_PRIMARY" /\ m.per = "PRESERVE" THEN End("FailedPrecondition", "UNSUPPORTED_PARAMS")
  ELSE IF m.red = "ALL_PRIMARY" THEN End("Unimplemented", "UNSUPPORTED_PARAMS")
  ELSE IF m.per = "DELETE" THEN End("Unimplemented", "UNSUPPORTED_PARAMS")
  ELSE IF \E t \in DOMAIN sess \ {s} : sess[t].params # ParamsOf(m)
       THEN End("FailedPrecondition", "PARAMS_DIFFER_FROM_OTHER_CLIENTS")
  ELSE NoEnd

(* ---- election ---- *)
ElecVerdict(s, id) ==
  IF ~sess[s].params.elec THEN End("FailedPrecondition", "ELECTION_ID_IN_ALL_PRIMARY")
  ELSE IF id = NoId THEN End("InvalidArgument", "")
  ELSE NoEnd

(* ---- operations ---- *)
OpsVerdict(s) ==
  IF ~(sess[s].params.elec /\ sess[s].params.persist) THEN End("Unimplemented", "UNSUPPORTED_PARAMS")
  ELSE NoEnd

\* what the server decides for operation o before it would touch the RIB
OpPre(o) ==
  IF o.ni = "" \/ o.ni \notin nis THEN [k |-> "failed"]
  ELSE IF o.noeid THEN [k |-> "err", end |-> End("FailedPrecondition", "")]
  ELSE IF req.snap.master = "" \/ req.snap.cur = NoId THEN [k |-> "err", end |-> End("Internal", "")]
  ELSE IF req.snap.last = NoId THEN [k |-> "err", end |-> End("FailedPrecondition", "")]
  ELSE IF req.s # req.snap.master THEN [k |-> "failed"]
  ELSE IF o.eid # req.snap.last THEN [k |-> "failed"]
  ELSE IF IdLT(req.snap.cur, o.eid) THEN [k |-> "err", end |-> End("FailedPrecondition", "")]
  ELSE IF IdLT(o.eid, req.snap.cur) THEN [k |-> "failed"]
  ELSE IF o.typ \notin {"ADD", "REPLACE", "DELETE"} \/ o.bad = "badOpType" THEN [k |-> "failed"]
  ELSE [k |-> "rib"]

Res(id, st) == [id |-> id, st |-> st]
RECURSIVE OkResults(_, _)
OkResults(ids, fib) ==
  IF ids = <<>> THEN <<>>
  ELSE (IF fib THEN <<Res(Head(ids), "RIB"), Res(Head(ids), "FIB")>> ELSE <<Res(Head(ids), "RIB")>>)
       \o OkResults(Tail(ids), fib)
FailResults(ids) == [i \in DOMAIN ids |-> Res(ids[i], "FAILED")]
OpResp(oks, fails, fib) == [k |-> "res", results |-> OkResults(oks, fib) \o FailResults(fails)]

\* f: the transport fails when the server first writes a response for this message
MsgBegin(s, m, f) ==
  /\ Idle /\ s \in DOMAIN sess
  /\ sf' = f
  /\ CASE m.k = "multi" ->
            /\ req' = [IdleReq EXCEPT !.active = TRUE, !.s = s, !.end = End("InvalidArgument", "")]
            /\ UNCHANGED <<sess, cur, master, ann>>
       [] m.k = "empty" ->
            /\ req' = [IdleReq EXCEPT !.active = TRUE, !.s = s, !.end = End("Unimplemented", "")]
            /\ UNCHANGED <<sess, cur, master, ann>>
       [] m.k = "params" ->
            LET v == ParamsVerdict(s, m) IN
            IF v = NoEnd
            THEN /\ sess' = [sess EXCEPT ![s] = [@ EXCEPT !.params = ParamsOf(m), !.set = TRUE, !.got = TRUE]]
                 /\ req' = [IdleReq EXCEPT !.active = TRUE, !.s = s, !.resp = << [k |-> "params_ok"] >>]
                 /\ UNCHANGED <<cur, master, ann>>
            ELSE /\ req' = [IdleReq EXCEPT !.active = TRUE, !.s = s, !.end = v]
                 /\ UNCHANGED <<sess, cur, master, ann>>
       [] m.k = "elec" ->
            LET v == ElecVerdict(s, m.id) IN
            IF v = NoEnd
            THEN LET win == IdLE(cur, m.id)
                     nc  == IF win THEN m.id ELSE cur
                 IN
                 /\ sess' = [sess EXCEPT ![s] = [@ EXCEPT !.last = m.id, !.got = TRUE]]
                 /\ cur' = nc
                 /\ master' = IF win THEN s ELSE master
                 /\ ann' = ann \cup {m.id}
                 /\ req' = [IdleReq EXCEPT !.active = TRUE, !.s = s, !.resp = << [k |-> "elec", id |-> nc] >>]
            ELSE /\ req' = [IdleReq EXCEPT !.active = TRUE, !.s = s, !.end = v]
                 /\ UNCHANGED <<sess, cur, master, ann>>
       [] m.k = "ops" ->
            LET v == OpsVerdict(s) IN
            IF v = NoEnd
            THEN /\ req' = [IdleReq EXCEPT !.active = TRUE, !.s = s, !.ops = m.ops, !.fib = sess[s].params.fib,
                                          !.snap = [master |-> master, cur |-> cur, last |-> sess[s].last]]
                 /\ sess' = [sess EXCEPT ![s] = [@ EXCEPT !.got = TRUE]]
                 /\ UNCHANGED <<cur, master, ann>>
            ELSE /\ req' = [IdleReq EXCEPT !.active = TRUE, !.s = s, !.end = v]
                 /\ UNCHANGED <<sess, cur, master, ann>>
  /\ UNCHANGED <<vars, sout>>

WriteFailed == sf /\ req.resp # <<>>
OpReady == req.active /\ req.end = NoEnd /\ req.ops # <<>> /\ ~call.active /\ ~WriteFailed
HeadOp  == Head(req.ops)

\* answered by the server itself: FAILED in-band, or an error that ends the RPC
OpDirect ==
  /\ OpReady
  /\ LET p == OpPre(HeadOp) IN
     /\ p.k # "rib"
     /\ req' = IF p.k = "failed"
               THEN [req EXCEPT !.ops = Tail(@), !.resp = Append(@, OpResp(<<>>, <<HeadOp.id>>, req.fib))]
               ELSE [req EXCEPT !.end = p.end]
  /\ UNCHANGED <<vars, sess, cur, master, sout, ann, sf>>

OpAdd ==
  /\ OpReady /\ OpPre(HeadOp).k = "rib" /\ HeadOp.typ \in {"ADD", "REPLACE"}
  /\ CallBegin(HeadOp)
  /\ UNCHANGED svars

STry(e) == req.active /\ Try(e) /\ UNCHANGED svars

OpAddEnd ==
  /\ req.active /\ call.active /\ call.stack = <<>>
  /\ CallEnd
  /\ req' = [req EXCEPT !.ops = Tail(@), !.resp = Append(@, OpResp(call.oks, call.fails, req.fib))]
  /\ UNCHANGED <<sess, cur, master, sout, ann, sf>>

OpDelete ==
  /\ OpReady /\ OpPre(HeadOp).k = "rib" /\ HeadOp.typ = "DELETE"
  /\ Delete(HeadOp)
  /\ LET n == DeleteNext(HeadOp) IN
     req' = [req EXCEPT !.ops = Tail(@), !.resp = Append(@, OpResp(n.out.oks, n.out.fails, req.fib))]
  /\ UNCHANGED <<sess, cur, master, sout, ann, sf>>

\* the RIB refused the call outright (malformed operation): the RPC ends
OpRibErr ==
  /\ OpReady /\ OpPre(HeadOp).k = "rib" /\ HeadOp.bad # ""
  /\ CallErr(HeadOp)
  /\ req' = [req EXCEPT !.end = End("Unimplemented", "")]
  /\ UNCHANGED <<sess, cur, master, sout, ann, sf>>

MsgEnd ==
  /\ req.active /\ ~call.active /\ (req.ops = <<>> \/ req.end # NoEnd \/ WriteFailed)
  /\ LET end2 == IF req.end = NoEnd /\ WriteFailed THEN End("Internal", "") ELSE req.end IN
     /\ sout' = [kind |-> "msg", s |-> req.s, resp |-> IF sf THEN <<>> ELSE req.resp, end |-> end2]
     /\ sess' = IF end2 # NoEnd THEN Del(sess, req.s) ELSE sess
  /\ req' = IdleReq /\ sf' = FALSE
  /\ UNCHANGED <<vars, cur, master, ann>>

(* ---- Flush RPC ---- *)
\* r = [ni : "" (unset) | "*" (all) | name, el : "none" | "override" | "id", id]
FlushVerdict(r) ==
  IF r.ni = "" THEN End("InvalidArgument", "UNSPECIFIED_NETWORK_INSTANCE")
  ELSE IF r.el = "override" THEN NoEnd
  ELSE IF r.el = "none" /\ cur = NoId THEN NoEnd
  ELSE IF r.el = "none" THEN End("FailedPrecondition", "UNSPECIFIED_ELECTION_BEHAVIOR")
  ELSE IF cur = NoId THEN End("FailedPrecondition", "ELECTION_ID_IN_ALL_PRIMARY")
  ELSE IF r.id = NoId THEN End("InvalidArgument", "INVALID_ELECTION_ID")
  ELSE IF IdLT(r.id, cur) THEN End("FailedPrecondition", "NOT_PRIMARY")
  ELSE NoEnd

FlushFinal(r) ==
  LET v == FlushVerdict(r) IN
  IF v # NoEnd THEN v
  ELSE IF r.ni # "*" /\ r.ni \notin nis THEN End("InvalidArgument", "INVALID_NETWORK_INSTANCE")
  ELSE NoEnd

FlushSet(r) == IF r.ni = "*" THEN nis ELSE {r.ni}

FlushRPC(r) ==
  /\ Idle
  /\ IF FlushFinal(r) = NoEnd
     THEN Flush(FlushSet(r)) /\ sout' = [kind |-> "flush", end |-> End("OK", "")]
     ELSE UNCHANGED vars /\ sout' = [kind |-> "flush", end |-> FlushFinal(r)]
  /\ UNCHANGED <<sess, cur, master, req, ann, sf>>

(* ---- Get RPC ---- *)
\* g = [ni : "*" | name (possibly ""), aft : "ALL" | "nh" | "nhg" | "v4" | "v6" | "mpls" | other]
GetKinds(g) == IF g.aft = "ALL" THEN Kinds ELSE {g.aft} \cap Kinds
GetOK(g) == (g.ni = "*" \/ g.ni \in nis) /\ (g.aft = "ALL" \/ g.aft \in Kinds)
GetEntries(g) ==
  LET N == IF g.ni = "*" THEN nis ELSE {g.ni} \cap nis IN
  UNION {
     {[ni |-> n, kind |-> "nh", key |-> k, e |-> rib[n].nh[k]] : k \in IF "nh" \in GetKinds(g) THEN DOMAIN rib[n].nh ELSE {}}
     \cup {[ni |-> n, kind |-> "nhg", key |-> k, e |-> rib[n].nhg[k]] : k \in IF "nhg" \in GetKinds(g) THEN DOMAIN rib[n].nhg ELSE {}}
     \cup {[ni |-> n, kind |-> "top", key |-> k, e |-> rib[n].top[k]] :
              k \in {t \in DOMAIN rib[n].top : rib[n].top[t].kd \in GetKinds(g)}}
     : n \in N}

GetRPC(g) ==
  /\ Idle
  /\ sout' = IF GetOK(g) THEN [kind |-> "get", end |-> End("OK", ""), entries |-> GetEntries(g)]
             ELSE [kind |-> "get", end |-> End("Internal", ""), entries |-> {}]
  /\ UNCHANGED <<vars, sess, cur, master, req, ann, sf>>

-----------------------------------------------------------------------------
(* Properties *)

\* C05: the reported/learnt id is the maximum announced; never decreases
MaxAnn == IF ann = {} THEN NoId ELSE CHOOSE m \in ann : \A x \in ann : IdLE(x, m)
ElecIsMax == cur = MaxAnn
ElecMonotone == [][IdLE(cur, cur')]_allvars
\* C05: announcing a lower id never takes the primary role away
LowerNeverSteals ==
  [][(master' # master) => (cur' = sess'[master'].last /\ IdLE(cur, cur'))]_allvars

\* C04: the RIB, the held operations and the counters change only through an
\* operation of the snapshot's primary, stamped with that session's latest id
\* which is also the highest id learnt - or through an authorised Flush
WriterOK ==
  /\ req.active /\ req.ops # <<>>
  /\ req.s = req.snap.master /\ ~HeadOp.noeid
  /\ HeadOp.eid = req.snap.last /\ HeadOp.eid = req.snap.cur
OnlyPrimaryWrites ==
  [][(rib' # rib \/ pend' # pend \/ refNH' # refNH \/ refNHG' # refNHG)
       => (WriterOK \/ (sout'.kind = "flush" /\ sout' # sout) \/ nis' # nis)]_allvars
\* C04/C09/C10: nothing but an election message changes the election state
ElecOnlyByElection ==
  [][(cur' # cur \/ master' # master) => (req'.active /\ ~req.active /\ Len(req'.resp) = 1 /\ req'.resp[1].k = "elec")]_allvars

\* C06: per request, no operation id is answered with both verdicts or twice; FIB only after RIB
RECURSIVE FlatResults(_)
FlatResults(rs) == IF rs = <<>> THEN <<>> ELSE (IF Head(rs).k = "res" THEN Head(rs).results ELSE <<>>) \o FlatResults(Tail(rs))
OneVerdict ==
  LET f == FlatResults(req.resp) IN
  \A i, j \in DOMAIN f :
     (i < j /\ f[i].id = f[j].id) =>
        /\ ~(f[i].st = f[j].st)
        /\ ~(f[i].st = "FAILED" \/ f[j].st = "FAILED")
        /\ (f[i].st = "RIB" /\ f[j].st = "FIB" /\ req.fib)

\* C09/C10: a session that ended is gone; live sessions are exactly the opened, not yet ended ones
SessShape ==
  \A s \in DOMAIN sess : sess[s].set => (sess[s].params.elec /\ sess[s].params.persist)
=============================================================================
