package procdrv

import (
	"encoding/json"
	"io"
	"sync"
)

// WriterSink writes NDJSON.
type WriterSink struct {
	mu sync.Mutex
	W  io.Writer
	N  int
}

func (w *WriterSink) Emit(v any) {
	b, err := json.Marshal(v)
	if err != nil {
		panic(err)
	}
	w.mu.Lock()
	defer w.mu.Unlock()
	w.W.Write(append(b, '\n'))
	w.N++
}
