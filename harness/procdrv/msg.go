package procdrv

import (
	aftpb "github.com/openconfig/gribi/v1/proto/gribi_aft"
)

var aftNH = aftpb.Afts_NextHopKey{Index: 1, NextHop: &aftpb.Afts_NextHop{}}
