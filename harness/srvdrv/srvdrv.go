package srvdrv

import (
	"context"
	"errors"
	"fmt"
	"io"
	"reflect"
	"sort"
	"strings"
	"sync"
	"time"

	"github.com/openconfig/gribigo/aft"
	"github.com/openconfig/gribigo/constants"
	"github.com/openconfig/gribigo/rib"
	"github.com/openconfig/gribigo/server"
	"google.golang.org/grpc/codes"
	"google.golang.org/grpc/status"
	"google.golang.org/protobuf/proto"

	spb "github.com/openconfig/gribi/v1/proto/service"

	"verif/harness/abs"
	"verif/harness/ribdrv"
)

type Event = ribdrv.Event

// Msg is the abstract form of a ModifyRequest.
type Msg struct {
	K      string   `json:"k"` // params | elec | ops | multi | empty
	Red    string   `json:"red,omitempty"`
	Per    string   `json:"per,omitempty"`
	Ack    string   `json:"ack,omitempty"`
	ID     [2]int   `json:"id"`
	Ops    []abs.Op `json:"ops,omitempty"`
	Fields string   `json:"fields,omitempty"`
}

func (m Msg) toEvent() map[string]any {
	switch m.K {
	case "params":
		return map[string]any{"k": m.K, "red": m.Red, "per": m.Per, "ack": m.Ack}
	case "elec":
		return map[string]any{"k": m.K, "id": m.ID}
	case "ops":
		ops := []abs.Op{}
		for _, o := range m.Ops {
			ops = append(ops, o.Norm())
		}
		return map[string]any{"k": m.K, "ops": ops}
	}
	return map[string]any{"k": m.K}
}

// FlushReq is the abstract FlushRequest.
type FlushReq struct {
	NI string `json:"ni"` // "" unset, "*" all, else name
	El string `json:"el"` // none | override | id
	ID [2]int `json:"id"`
}

// GetReq is the abstract GetRequest.
type GetReq struct {
	NI  string `json:"ni"` // "*" all, else name (possibly empty)
	AFT string `json:"aft"`
}

// Input is one step of a server-level input sequence.
type Input struct {
	A         string    `json:"a"` // sreset | open | msg | close | flushrpc | get | addni
	NIs       []string  `json:"nis,omitempty"`
	NI        string    `json:"ni,omitempty"`
	Fwd       bool      `json:"fwd,omitempty"`
	S         string    `json:"s,omitempty"`
	M         *Msg      `json:"m,omitempty"`
	SendFail  bool      `json:"sendfail,omitempty"`
	Mode      string    `json:"mode,omitempty"`
	R         *FlushReq `json:"r,omitempty"`
	G         *GetReq   `json:"g,omitempty"`
	FailAfter *int      `json:"failafter,omitempty"`
	// Stall: this Get is read by a slow consumer (the runner's GetStall duration, after the first response)
	Stall bool `json:"stall,omitempty"`
}

type session struct {
	label  string
	cid    string
	stream *modStream
	done   chan error
	ended  bool
	taken  int // responses already reported
}

// Runner drives one server.
type Runner struct {
	Sink ribdrv.Sink

	srv     *server.Server
	mirror  *ribdrv.Mirror
	mu      sync.Mutex
	sess    map[string]*session // by label
	byCID   map[string]string   // cid -> label
	byStrm  map[*modStream]*session
	resps   map[string]int // cid -> responses handed to the result pump
	rpcerrs map[string]int // cid -> fatal errors reported from doModify
	ops     map[*spb.AFTOperation]abs.Op
	ribEv   []Event // RIB-level events of the message in progress
	curAdd  []Event
	lastDel Event
	nis     []string
	snaps   []snapRec
	arrived int
	dead    bool
	Steps   int
	Panics  int
	Hangs   int
	// GetStall > 0: up to StallsLeft Gets (without an injected failure) are read by a slow consumer
	GetStall   time.Duration
	StallsLeft int
	Stalled    int
}

const waitLimit = 10 * time.Second

func (rn *Runner) opOf(p *spb.AFTOperation) abs.Op {
	if o, ok := rn.ops[p]; ok {
		return o
	}
	return abs.AbstractOp(p)
}

func (rn *Runner) ribState() any {
	st, err := ribdrv.Project(rn.srv.VerifRIB(), rn.mirror, rn.opOf)
	if err != nil {
		return map[string]any{"error": err.Error()}
	}
	return st
}

func (rn *Runner) label(cid string) string {
	if cid == "" {
		return ""
	}
	if l, ok := rn.byCID[cid]; ok {
		return l
	}
	return "?" + cid
}

// srvState projects election and session state.
func (rn *Runner) srvState() map[string]any {
	id, master := rn.srv.VerifElection()
	rn.mu.Lock()
	defer rn.mu.Unlock()
	ss := map[string]any{}
	for cid, v := range rn.srv.VerifSessions() {
		ss[rn.label(cid)] = map[string]any{
			"params": map[string]bool{"elec": v.ExpectElecID, "persist": v.Persist, "fib": v.FIBAck},
			"set":    v.SetParams,
			"last":   abs.AbsID(v.LastElecID),
		}
	}
	return map[string]any{"cur": abs.AbsID(id), "master": rn.label(master), "sess": ss}
}

func ids(rs []*rib.OpResult) []uint64 {
	out := []uint64{}
	for _, r := range rs {
		out = append(out, r.ID)
	}
	return out
}

func aftKind(a constants.AFT) string {
	switch a {
	case constants.IPv4:
		return "v4"
	case constants.IPv6:
		return "v6"
	case constants.MPLS:
		return "mpls"
	}
	return fmt.Sprint(a)
}

// ribTracer receives the rib package's events (on the goroutine of the session in progress).
func (rn *Runner) ribTracer(ev string, args ...any) {
	switch ev {
	case "addentry.begin":
		p := args[1].(*spb.AFTOperation)
		rn.mu.Lock()
		rn.curAdd = []Event{{"ev": "addbegin", "op": rn.opOf(p)}}
		rn.mu.Unlock()
	case "try":
		rn.mu.Lock()
		rn.curAdd = append(rn.curAdd, Event{"ev": "try", "id": args[0].(uint64), "out": args[1].(string)})
		rn.mu.Unlock()
	case "addentry.end":
		st := rn.ribState()
		rn.mu.Lock()
		rn.curAdd = append(rn.curAdd, Event{"ev": "addend", "oks": ids(args[2].([]*rib.OpResult)), "fails": ids(args[3].([]*rib.OpResult)), "st": st})
		rn.ribEv = append(rn.ribEv, rn.curAdd...)
		rn.curAdd = nil
		rn.mu.Unlock()
	case "addentry.err":
		st := rn.ribState()
		p := args[1].(*spb.AFTOperation)
		rn.mu.Lock()
		rn.ribEv = append(rn.ribEv, Event{"ev": "callerr", "op": rn.opOf(p), "msg": fmt.Sprint(args[2]), "st": st})
		rn.curAdd = nil
		rn.mu.Unlock()
	case "delentry.begin":
		p := args[1].(*spb.AFTOperation)
		rn.mu.Lock()
		rn.lastDel = Event{"ev": "delete", "op": rn.opOf(p)}
		rn.mu.Unlock()
	case "delentry.end":
		st := rn.ribState()
		rn.mu.Lock()
		if rn.lastDel != nil {
			rn.lastDel["oks"], rn.lastDel["fails"], rn.lastDel["st"] = ids(args[2].([]*rib.OpResult)), ids(args[3].([]*rib.OpResult)), st
			rn.ribEv = append(rn.ribEv, rn.lastDel)
			rn.lastDel = nil
		}
		rn.mu.Unlock()
	case "resolved.spawn":
		ribs := args[0].(map[string]*aft.RIB)
		proj, err := abs.ProjectRIBs(ribs)
		var snap any = proj
		if err != nil {
			snap = "error: " + err.Error()
		}
		rec := Event{"typ": fmt.Sprint(args[1]), "ni": args[2], "kind": aftKind(args[3].(constants.AFT)), "snap": snap}
		rn.mu.Lock()
		rn.snaps = append(rn.snaps, snapRec{ribs: ribs, proj: proj})
		if rn.lastDel != nil {
			rn.lastDel["rsnap"] = rec
		} else if n := len(rn.curAdd); n > 0 {
			rn.curAdd[n-1]["rsnap"] = rec
		}
		rn.mu.Unlock()
	}
}

func (rn *Runner) srvTracer(ev string, args ...any) {
	switch ev {
	case "open":
		cid := args[0].(string)
		ms, ok := args[1].(*modStream)
		if !ok {
			return
		}
		rn.mu.Lock()
		if s := rn.byStrm[ms]; s != nil {
			s.cid = cid
			rn.byCID[cid] = s.label
		}
		rn.mu.Unlock()
	case "resp":
		rn.mu.Lock()
		rn.resps[args[0].(string)]++
		rn.mu.Unlock()
	case "rpcerr":
		rn.mu.Lock()
		rn.rpcerrs[args[0].(string)]++
		rn.mu.Unlock()
	}
}

func absResp(r *spb.ModifyResponse) map[string]any {
	switch {
	case r.GetSessionParamsResult() != nil:
		if r.GetSessionParamsResult().GetStatus() == spb.SessionParametersResult_OK {
			return map[string]any{"k": "params_ok"}
		}
		return map[string]any{"k": "params_" + r.GetSessionParamsResult().GetStatus().String()}
	case r.GetElectionId() != nil:
		return map[string]any{"k": "elec", "id": abs.AbsID(r.GetElectionId())}
	}
	res := []map[string]any{}
	for _, x := range r.GetResult() {
		st := x.GetStatus().String()
		switch x.GetStatus() {
		case spb.AFTResult_RIB_PROGRAMMED:
			st = "RIB"
		case spb.AFTResult_FIB_PROGRAMMED:
			st = "FIB"
		case spb.AFTResult_FAILED:
			st = "FAILED"
		}
		res = append(res, map[string]any{"id": x.GetId(), "st": st})
	}
	return map[string]any{"k": "res", "results": res}
}

func absEnd(err error) map[string]any {
	if err == nil {
		return map[string]any{"code": "OK", "reason": ""}
	}
	st, _ := status.FromError(err)
	reason := ""
	for _, d := range st.Details() {
		switch t := d.(type) {
		case *spb.ModifyRPCErrorDetails:
			if t.GetReason() != spb.ModifyRPCErrorDetails_UNKNOWN {
				reason = t.GetReason().String()
			}
		case *spb.FlushResponseError:
			reason = t.GetStatus().String()
		}
	}
	return map[string]any{"code": st.Code().String(), "reason": reason}
}

var noEnd = map[string]any{"code": "", "reason": ""}

type snapRec struct {
	ribs map[string]*aft.RIB
	proj abs.RIBState
}

func (rn *Runner) resolvedHook(ribs map[string]*aft.RIB, _ constants.OpType, _ string, _ constants.AFT, _ any, _ ...rib.ResolvedDetails) {
	rn.mu.Lock()
	rn.arrived++
	rn.mu.Unlock()
}

// snapcheck: every resolved-entry snapshot was delivered and is unchanged.
func (rn *Runner) snapcheck() {
	deadline := time.Now().Add(10 * time.Second)
	for {
		rn.mu.Lock()
		ok := rn.arrived >= len(rn.snaps)
		rn.mu.Unlock()
		if ok || time.Now().After(deadline) {
			break
		}
		time.Sleep(time.Millisecond)
	}
	rn.mu.Lock()
	defer rn.mu.Unlock()
	same := true
	for _, s := range rn.snaps {
		p, err := abs.ProjectRIBs(s.ribs)
		if err != nil || !reflect.DeepEqual(p, s.proj) {
			same = false
		}
	}
	rn.Sink.Emit(Event{"ev": "snapcheck", "n": len(rn.snaps), "delivered": rn.arrived, "same": same})
}

// finish ends the current server (segment).
func (rn *Runner) finish() {
	if rn.srv == nil {
		return
	}
	if !rn.dead {
		rn.snapcheck()
	}
	for _, s := range rn.sess {
		if !s.ended {
			s.stream.close(io.EOF)
			select {
			case <-s.done:
			case <-time.After(waitLimit):
			}
		}
	}
	rib.VerifSetTracer(nil)
	server.VerifSetTracer(nil)
	rn.srv = nil
}

func (rn *Runner) Close() { rn.finish() }

func (rn *Runner) concMsg(m *Msg) (*spb.ModifyRequest, error) {
	params := func() *spb.SessionParameters {
		p := &spb.SessionParameters{}
		switch m.Red {
		case "SINGLE_PRIMARY", "":
			p.Redundancy = spb.SessionParameters_SINGLE_PRIMARY
		default:
			p.Redundancy = spb.SessionParameters_ALL_PRIMARY
		}
		switch m.Per {
		case "PRESERVE", "":
			p.Persistence = spb.SessionParameters_PRESERVE
		default:
			p.Persistence = spb.SessionParameters_DELETE
		}
		switch m.Ack {
		case "RIB_FIB":
			p.AckType = spb.SessionParameters_RIB_AND_FIB_ACK
		default:
			p.AckType = spb.SessionParameters_RIB_ACK
		}
		return p
	}
	switch m.K {
	case "params":
		return &spb.ModifyRequest{Params: params()}, nil
	case "elec":
		return &spb.ModifyRequest{ElectionId: abs.ConcID(m.ID)}, nil
	case "empty":
		return &spb.ModifyRequest{}, nil
	case "multi":
		r := &spb.ModifyRequest{}
		f := m.Fields
		if f == "" {
			f = []string{"pe", "po", "eo", "peo"}[rn.Steps%4]
		}
		for _, c := range f {
			switch c {
			case 'p':
				r.Params = params()
			case 'e':
				r.ElectionId = abs.ConcID([2]int{0, 1})
			case 'o':
				p, _ := abs.Concretise(abs.Op{ID: 999, NI: ribdrv.DefaultNI, Typ: "ADD", Kind: "nh", Key: "9", PL: "a", EID: [2]int{0, 1}})
				r.Operation = []*spb.AFTOperation{p}
			}
		}
		return r, nil
	case "ops":
		r := &spb.ModifyRequest{}
		for _, o := range m.Ops {
			o = o.Norm()
			p, err := abs.Concretise(o)
			if err != nil {
				return nil, err
			}
			rn.ops[p] = o
			r.Operation = append(r.Operation, p)
		}
		return r, nil
	}
	return nil, fmt.Errorf("unknown message kind %q", m.K)
}

// waitQuiet waits until the session has finished processing the message it was
// given: its receive loop asked for the next message (or the RPC returned), and
// every response handed to the result pump has reached the stream.
func (rn *Runner) waitQuiet(s *session) (ended bool, err error, hang bool) {
	deadline := time.After(waitLimit)
	select {
	case err = <-s.done:
		s.ended = true
		return true, err, false
	case <-s.stream.waiting:
	case <-deadline:
		return false, nil, true
	}
	rn.mu.Lock()
	fatal := rn.rpcerrs[s.cid] > 0
	rn.mu.Unlock()
	if fatal {
		// doModify reported a fatal error: the handler is about to return
		select {
		case err = <-s.done:
			s.ended = true
			return true, err, false
		case <-deadline:
			return false, nil, true
		}
	}
	for {
		rn.mu.Lock()
		want := rn.resps[s.cid]
		rn.mu.Unlock()
		if s.stream.nsent() >= want {
			return false, nil, false
		}
		select {
		case err = <-s.done:
			s.ended = true
			return true, err, false
		case <-deadline:
			return false, nil, true
		case <-time.After(20 * time.Microsecond):
		}
	}
}

func (rn *Runner) emitState(ev Event) {
	ev["sst"] = rn.srvState()
	ev["st"] = rn.ribState()
	rn.Sink.Emit(ev)
}

// Step executes one input.
func (rn *Runner) Step(in Input) (err error) {
	if (rn.dead && in.A != "sreset") || rn.Hangs >= ribdrv.MaxHangs {
		return nil
	}
	rn.Steps++
	switch in.A {
	case "sreset":
		rn.finish()
		rn.dead = false
		rn.mirror = ribdrv.NewMirror()
		opts := []server.ServerOpt{server.WithPostChangeRIBHook(rn.mirror.Hook), server.WithRIBResolvedEntryHook(rn.resolvedHook)}
		rn.snaps, rn.arrived = nil, 0
		if !in.Fwd {
			opts = append(opts, server.WithNoRIBForwardReferences())
		}
		nis := append([]string{}, in.NIs...)
		sort.Strings(nis)
		vrfs := []string{}
		for _, n := range nis {
			if n != ribdrv.DefaultNI {
				vrfs = append(vrfs, n)
			}
		}
		if len(vrfs) > 0 {
			opts = append(opts, server.WithVRFs(vrfs))
		}
		srv, err := server.New(opts...)
		if err != nil {
			return err
		}
		rn.srv = srv
		rn.nis = nis
		rn.sess, rn.byCID, rn.byStrm = map[string]*session{}, map[string]string{}, map[*modStream]*session{}
		rn.resps, rn.ops = map[string]int{}, map[*spb.AFTOperation]abs.Op{}
		rn.rpcerrs = map[string]int{}
		rn.ribEv, rn.curAdd, rn.lastDel = nil, nil, nil
		rib.VerifSetTracer(rn.ribTracer)
		server.VerifSetTracer(rn.srvTracer)
		rn.Sink.Emit(Event{"ev": "sreset", "nis": nis, "fwd": in.Fwd})
	case "open":
		if rn.sess[in.S] != nil {
			return fmt.Errorf("session %s opened twice", in.S)
		}
		s := &session{label: in.S, stream: newModStream(), done: make(chan error, 1)}
		rn.mu.Lock()
		rn.sess[in.S] = s
		rn.byStrm[s.stream] = s
		rn.mu.Unlock()
		go func() { s.done <- rn.srv.Modify(s.stream) }()
		select {
		case <-s.stream.waiting:
		case e := <-s.done:
			s.ended = true
			rn.emitState(Event{"ev": "open", "s": in.S, "end": absEnd(e)})
			return nil
		case <-time.After(waitLimit):
			rn.Hangs++
			rn.Sink.Emit(Event{"ev": "hang", "at": "open", "s": in.S})
			rn.dead = true
			return nil
		}
		rn.emitState(Event{"ev": "open", "s": in.S, "end": noEnd})
	case "msg":
		s := rn.sess[in.S]
		if s == nil || s.ended {
			return nil // the specification never sends on a session that is gone; skip
		}
		req, err := rn.concMsg(in.M)
		if err != nil {
			return err
		}
		if in.SendFail {
			s.stream.mu.Lock()
			s.stream.sendErr = errors.New("transport is closing")
			s.stream.mu.Unlock()
		}
		rn.mu.Lock()
		rn.ribEv = nil
		resp0 := rn.resps[s.cid]
		rn.mu.Unlock()
		rn.Sink.Emit(Event{"ev": "msgbegin", "s": in.S, "m": in.M.toEvent(), "sendfail": in.SendFail})
		s.stream.in <- req
		ended, rpcErr, hang := rn.waitQuiet(s)
		blocked := []string{}
		for i := 0; hang && i < 6; i++ {
			// slow is not hung: a hang needs a goroutine parked inside the package
			if blocked = ribdrv.BlockedIn("openconfig/gribigo"); len(blocked) > 0 {
				break
			}
			ended, rpcErr, hang = rn.waitQuiet(s)
		}
		if hang {
			rn.Hangs++
			rn.Sink.Emit(Event{"ev": "hang", "at": "msg", "s": in.S, "blocked": blocked})
			rn.dead = true
			return nil
		}
		if ended && in.SendFail && in.M.K == "ops" && len(in.M.Ops) >= 2 {
			// The write of the first response failed and the handler returned; the
			// receive goroutine still applies (at most) the next operation of the
			// request before it blocks handing over a result nobody reads. Wait for
			// that straggler so that its effect belongs to this message.
			deadline := time.Now().Add(5 * time.Second)
			for time.Now().Before(deadline) {
				rn.mu.Lock()
				n, e := rn.resps[s.cid], rn.rpcerrs[s.cid]
				rn.mu.Unlock()
				if n >= resp0+2 || e > 0 {
					break
				}
				time.Sleep(50 * time.Microsecond)
			}
		}
		resps := s.stream.take(s.taken)
		s.taken += len(resps)
		rn.mu.Lock()
		if rn.lastDel != nil {
			// DeleteEntry returned without reaching its end hook: an error return
			rn.ribEv = append(rn.ribEv, Event{"ev": "callerr", "op": rn.lastDel["op"], "msg": "DeleteEntry error return"})
			rn.lastDel = nil
		}
		ribEv := rn.ribEv
		rn.ribEv = nil
		rn.mu.Unlock()
		for _, e := range ribEv {
			if e["ev"] == "callerr" && e["st"] == nil {
				e["st"] = rn.ribState()
			}
		}
		// interleave: per operation its RIB events (if it reached the RIB), then its response
		ri := 0
		var nonOp []map[string]any
		if in.M.K == "ops" {
			for _, o := range in.M.Ops {
				// RIB events of this operation: an addbegin/delete/callerr whose op is o, up to its end event
				ribDone := false
				if ri < len(ribEv) {
					if op, ok := ribEv[ri]["op"].(abs.Op); ok && op.ID == o.ID && op.Kind == o.Kind && op.Key == o.Key && op.Typ == o.Typ {
						for ri < len(ribEv) {
							e := ribEv[ri]
							rn.Sink.Emit(e)
							ri++
							if k := e["ev"]; k == "addend" || k == "delete" || k == "callerr" {
								ribDone = k != "callerr"
								break
							}
						}
					}
				}
				if len(resps) > 0 {
					rn.Sink.Emit(Event{"ev": "opdone", "id": o.ID, "resp": absResp(resps[0])})
					resps = resps[1:]
				} else if ribDone || ri < len(ribEv) {
					// processed (its RIB call completed, or a later operation reached the
					// RIB) but its response never reached the stream
					rn.Sink.Emit(Event{"ev": "oplost", "id": o.ID})
				}
			}
		}
		for ; ri < len(ribEv); ri++ {
			rn.Sink.Emit(Event{"ev": "strayrib", "e": ribEv[ri]["ev"]})
		}
		for _, r := range resps {
			nonOp = append(nonOp, absResp(r))
		}
		if nonOp == nil {
			nonOp = []map[string]any{}
		}
		end := noEnd
		if ended {
			end = absEnd(rpcErr)
		}
		rn.emitState(Event{"ev": "msgend", "s": in.S, "resp": nonOp, "end": end, "sendfail": in.SendFail})
	case "close":
		s := rn.sess[in.S]
		if s == nil || s.ended {
			return nil
		}
		var ce error = io.EOF
		if in.Mode == "recverr" {
			ce = errors.New("rpc error: transport failure")
		}
		s.stream.close(ce)
		if e, ok, blocked := ribdrv.AwaitOrHang(s.done, waitLimit, "openconfig/gribigo"); ok {
			s.ended = true
			rn.emitState(Event{"ev": "close", "s": in.S, "mode": in.Mode, "end": absEnd(e)})
		} else {
			rn.Hangs++
			rn.Sink.Emit(Event{"ev": "hang", "at": "close", "s": in.S, "blocked": blocked})
			rn.dead = true
		}
	case "addni":
		// a network instance created while the server runs
		err := rn.srv.AddNetworkInstance(in.NI)
		if err == nil {
			rn.nis = append(rn.nis, in.NI)
		}
		rn.Sink.Emit(Event{"ev": "addni", "ni": in.NI, "ok": err == nil, "st": rn.ribState()})
	case "flushrpc":
		fr := &spb.FlushRequest{}
		switch in.R.NI {
		case "":
		case "*":
			fr.NetworkInstance = &spb.FlushRequest_All{All: &spb.Empty{}}
		case "<empty>":
			// the name field is set, to the empty string (a raw client can send this): names no instance
			fr.NetworkInstance = &spb.FlushRequest_Name{Name: ""}
		default:
			fr.NetworkInstance = &spb.FlushRequest_Name{Name: in.R.NI}
		}
		switch in.R.El {
		case "override":
			fr.Election = &spb.FlushRequest_Override{Override: &spb.Empty{}}
		case "id":
			fr.Election = &spb.FlushRequest_Id{Id: abs.ConcID(in.R.ID)}
		}
		type fres struct {
			r   *spb.FlushResponse
			err error
		}
		ch := make(chan fres, 1)
		go func() {
			r, err := rn.srv.Flush(context.Background(), fr)
			ch <- fres{r, err}
		}()
		if x, ok, blocked := ribdrv.AwaitOrHang(ch, waitLimit, "openconfig/gribigo"); ok {
			ev := Event{"ev": "flushrpc", "r": in.R, "end": absEnd(x.err)}
			if x.err == nil && x.r.GetResult() != spb.FlushResponse_OK {
				ev["end"] = map[string]any{"code": "OK", "reason": x.r.GetResult().String()}
			}
			rn.emitState(ev)
		} else {
			rn.Hangs++
			rn.Sink.Emit(Event{"ev": "hang", "at": "flushrpc", "blocked": blocked})
			rn.dead = true
		}
	case "get":
		rn.doGet(in)
	default:
		return fmt.Errorf("unknown input %q", in.A)
	}
	return nil
}

func aftType(a string) spb.AFTType {
	switch a {
	case "ALL":
		return spb.AFTType_ALL
	case "nh":
		return spb.AFTType_NEXTHOP
	case "nhg":
		return spb.AFTType_NEXTHOP_GROUP
	case "v4":
		return spb.AFTType_IPV4
	case "v6":
		return spb.AFTType_IPV6
	case "mpls":
		return spb.AFTType_MPLS
	case "mac":
		return spb.AFTType_MAC
	}
	return spb.AFTType_POLICY_FORWARDING
}

// doGet issues one Get and records the abstracted entries it returned.
func (rn *Runner) doGet(in Input) {
	gr := &spb.GetRequest{Aft: aftType(in.G.AFT)}
	if in.G.NI == "*" {
		gr.NetworkInstance = &spb.GetRequest_All{All: &spb.Empty{}}
	} else {
		gr.NetworkInstance = &spb.GetRequest_Name{Name: in.G.NI}
	}
	gs := &getStream{ctx: context.Background(), failAfter: -1}
	if in.FailAfter != nil {
		gs.failAfter = *in.FailAfter
	} else if rn.GetStall > 0 && (rn.StallsLeft > 0 || in.Stall) {
		// a slow but connected consumer: must still receive every entry
		gs.stallAt, gs.stall = 1, rn.GetStall
	}
	ch := make(chan error, 1)
	go func() { ch <- rn.srv.Get(gr, gs) }()
	limit := waitLimit
	if gs.stall > 0 {
		limit += gs.stall
	}
	if err, finished, blocked := ribdrv.AwaitOrHang(ch, limit, "openconfig/gribigo"); finished {
		if gs.stalled {
			if !in.Stall {
				rn.StallsLeft--
			}
			rn.Stalled++
		}
		entries := []map[string]any{}
		bad := ""
		for _, r := range gs.got {
			for _, e := range r.GetEntry() {
				ent := getEntryMsg(e)
				if ent == nil {
					bad = "entry without payload"
					continue
				}
				p, perr := abs.EntryParts(ent)
				if perr != nil {
					bad = perr.Error()
					continue
				}
				x := map[string]any{"ni": e.GetNetworkInstance(), "kind": p.Kind, "pl": abs.PLName(p.Hash)}
				switch p.Kind {
				case "nh":
					x["key"] = p.Key
					x["plq"] = abs.Unquirk(x["pl"].(string))
				case "nhg":
					x["key"], x["nhs"], x["bk"] = p.Key, p.NHs, p.BK
				default:
					x["key"], x["g"], x["gni"] = p.Kind+":"+p.Key, p.G, p.GNI
				}
				entries = append(entries, x)
			}
		}
		ev := Event{"ev": "get", "g": in.G, "end": absEnd(err), "entries": entries}
		if in.FailAfter != nil {
			ev["failafter"] = *in.FailAfter
		}
		if bad != "" {
			ev["bad"] = bad
		}
		if codeOf(err) == codes.OK {
			// rebuilding a RIB from the responses reproduces the source RIB
			rb := rn.rebuild(gs.got, in.G)
			ev["rebuild"], ev["rebuildq"] = rb, rb
			if st, ok := rb.(abs.RIBState); ok {
				ev["rebuildq"] = abs.UnquirkRIB(st)
			}
		}
		rn.Sink.Emit(ev)
	} else {
		rn.Hangs++
		rn.Sink.Emit(Event{"ev": "hang", "at": "get", "blocked": blocked})
		rn.dead = true
	}
}

func codeOf(err error) codes.Code {
	if err == nil {
		return codes.OK
	}
	return status.Code(err)
}

func getEntryMsg(e *spb.AFTEntry) proto.Message {
	switch t := e.GetEntry().(type) {
	case *spb.AFTEntry_Ipv4:
		if t.Ipv4 != nil {
			return t.Ipv4
		}
	case *spb.AFTEntry_Ipv6:
		if t.Ipv6 != nil {
			return t.Ipv6
		}
	case *spb.AFTEntry_Mpls:
		if t.Mpls != nil {
			return t.Mpls
		}
	case *spb.AFTEntry_NextHopGroup:
		if t.NextHopGroup != nil {
			return t.NextHopGroup
		}
	case *spb.AFTEntry_NextHop:
		if t.NextHop != nil {
			return t.NextHop
		}
	}
	return nil
}

// rebuild reconstructs a RIB from Get responses with the repository's own
// helper and projects it.
func (rn *Runner) rebuild(got []*spb.GetResponse, g *GetReq) (out any) {
	defer func() {
		if p := recover(); p != nil {
			out = map[string]any{"error": fmt.Sprint("panic: ", p)}
		}
	}()
	r, err := rib.FromGetResponses(ribdrv.DefaultNI, got)
	if err != nil {
		return map[string]any{"error": err.Error()}
	}
	c, err := r.RIBContents()
	if err != nil {
		return map[string]any{"error": err.Error()}
	}
	st, err := abs.ProjectRIBs(c)
	if err != nil {
		return map[string]any{"error": err.Error()}
	}
	return st
}

// Exported helpers for other drivers that record wire traces.

// AbsResp abstracts a ModifyResponse.
func AbsResp(r *spb.ModifyResponse) map[string]any { return absResp(r) }

// AbsEnd abstracts the final status of an RPC.
func AbsEnd(err error) map[string]any { return absEnd(err) }

// AFTName is the abstract name of an AFT type.
func AFTName(a spb.AFTType) string {
	switch a {
	case spb.AFTType_ALL:
		return "ALL"
	case spb.AFTType_NEXTHOP:
		return "nh"
	case spb.AFTType_NEXTHOP_GROUP:
		return "nhg"
	case spb.AFTType_IPV4:
		return "v4"
	case spb.AFTType_IPV6:
		return "v6"
	case spb.AFTType_MPLS:
		return "mpls"
	}
	return strings.ToLower(a.String())
}

// Rebuild reconstructs and projects a RIB from Get responses.
func Rebuild(got []*spb.GetResponse) any { return (&Runner{}).rebuild(got, nil) }

// GetEvent builds the trace event for one Get.
func GetEvent(g *GetReq, got []*spb.GetResponse, err error, rebuild func([]*spb.GetResponse) any) Event {
	entries := []map[string]any{}
	bad := ""
	for _, r := range got {
		for _, e := range r.GetEntry() {
			ent := getEntryMsg(e)
			if ent == nil {
				bad = "entry without payload"
				continue
			}
			p, perr := abs.EntryParts(ent)
			if perr != nil {
				bad = perr.Error()
				continue
			}
			x := map[string]any{"ni": e.GetNetworkInstance(), "kind": p.Kind, "pl": abs.PLName(p.Hash)}
			switch p.Kind {
			case "nh":
				x["key"] = p.Key
				x["plq"] = abs.Unquirk(x["pl"].(string))
			case "nhg":
				x["key"], x["nhs"], x["bk"] = p.Key, p.NHs, p.BK
			default:
				x["key"], x["g"], x["gni"] = p.Kind+":"+p.Key, p.G, p.GNI
			}
			entries = append(entries, x)
		}
	}
	ev := Event{"ev": "get", "g": g, "end": absEnd(err), "entries": entries}
	if bad != "" {
		ev["bad"] = bad
	}
	if codeOf(err) == codes.OK {
		rb := rebuild(got)
		ev["rebuild"], ev["rebuildq"] = rb, rb
		if st, ok := rb.(abs.RIBState); ok {
			ev["rebuildq"] = abs.UnquirkRIB(st)
		}
	}
	return ev
}
