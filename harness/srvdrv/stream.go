// Package srvdrv drives the real server package through in-process streams
// (no sockets) and records one trace event per action of GribiServer.tla.
package srvdrv

import (
	"context"
	"errors"
	"io"
	"sync"
	"time"

	"google.golang.org/grpc/metadata"

	spb "github.com/openconfig/gribi/v1/proto/service"
)

// modStream is an in-process spb.GRIBI_ModifyServer.
type modStream struct {
	ctx    context.Context
	cancel context.CancelFunc

	in      chan *spb.ModifyRequest
	waiting chan struct{} // signalled whenever Recv is entered

	mu       sync.Mutex
	sent     []*spb.ModifyResponse
	sendErr  error // when set, Send fails
	slow     time.Duration // every Send takes that long (a client that drains its stream slowly)
	block    chan struct{} // when set, Send waits for it to be closed (a client that has stopped reading: flow control)
	entered  int           // Sends that have been entered
	closeErr error // what Recv returns once in is closed
	closed   bool
}

func newModStream() *modStream {
	ctx, cancel := context.WithCancel(context.Background())
	return &modStream{ctx: ctx, cancel: cancel, in: make(chan *spb.ModifyRequest), waiting: make(chan struct{}, 1), closeErr: io.EOF}
}

func (m *modStream) Recv() (*spb.ModifyRequest, error) {
	select {
	case m.waiting <- struct{}{}:
	default:
	}
	r, ok := <-m.in
	if !ok {
		m.mu.Lock()
		defer m.mu.Unlock()
		return nil, m.closeErr
	}
	return r, nil
}

func (m *modStream) Send(r *spb.ModifyResponse) error {
	m.mu.Lock()
	d := m.slow
	blk := m.block
	m.entered++
	m.mu.Unlock()
	if blk != nil {
		<-blk
	}
	if d > 0 {
		time.Sleep(d)
	}
	m.mu.Lock()
	defer m.mu.Unlock()
	if m.sendErr != nil {
		// a transport that cannot be written to is gone: gRPC cancels the stream's context
		m.cancel()
		return m.sendErr
	}
	m.sent = append(m.sent, r)
	return nil
}

func (m *modStream) nsent() int {
	m.mu.Lock()
	defer m.mu.Unlock()
	return len(m.sent)
}

func (m *modStream) take(from int) []*spb.ModifyResponse {
	m.mu.Lock()
	defer m.mu.Unlock()
	out := append([]*spb.ModifyResponse{}, m.sent[from:]...)
	return out
}

func (m *modStream) close(err error) {
	m.mu.Lock()
	if m.closed {
		m.mu.Unlock()
		return
	}
	m.closed = true
	m.closeErr = err
	m.mu.Unlock()
	if err != io.EOF {
		// cancellation / transport failure: gRPC cancels the stream's context, and Recv fails. The server
		// may observe either first; give the context a head start so that both orders occur.
		m.cancel()
		time.Sleep(200 * time.Microsecond)
	}
	close(m.in)
}

func (m *modStream) SetHeader(metadata.MD) error  { return nil }
func (m *modStream) SendHeader(metadata.MD) error { return nil }
func (m *modStream) SetTrailer(metadata.MD)       {}
func (m *modStream) Context() context.Context     { return m.ctx }
func (m *modStream) SendMsg(any) error            { return errors.New("unused") }
func (m *modStream) RecvMsg(any) error            { return errors.New("unused") }

// getStream is an in-process spb.GRIBI_GetServer.
type getStream struct {
	ctx       context.Context
	mu        sync.Mutex
	got       []*spb.GetResponse
	failAfter int // fail the Send once this many responses were accepted (<0: never)
	// a slow consumer: the Send of response number stallAt (0-based) takes stall
	stallAt int
	stall   time.Duration
	stalled bool
}

func (g *getStream) Send(r *spb.GetResponse) error {
	g.mu.Lock()
	defer g.mu.Unlock()
	if g.failAfter >= 0 && len(g.got) >= g.failAfter {
		return errors.New("transport is closing")
	}
	if g.stall > 0 && !g.stalled && len(g.got) == g.stallAt {
		g.stalled = true
		g.mu.Unlock()
		time.Sleep(g.stall)
		g.mu.Lock()
	}
	g.got = append(g.got, r)
	return nil
}
func (g *getStream) SetHeader(metadata.MD) error  { return nil }
func (g *getStream) SendHeader(metadata.MD) error { return nil }
func (g *getStream) SetTrailer(metadata.MD)       {}
func (g *getStream) Context() context.Context     { return g.ctx }
func (g *getStream) SendMsg(any) error            { return errors.New("unused") }
func (g *getStream) RecvMsg(any) error            { return errors.New("unused") }

// Exported access for the concurrent driver.

// ModStream is the in-process Modify stream.
type ModStream = modStream

// NewModStream returns a fresh in-process Modify stream.
func NewModStream() *ModStream { return newModStream() }

// In is the channel the server's Recv reads from.
func (m *modStream) In() chan *spb.ModifyRequest { return m.in }

// NSent is the number of responses the server wrote so far.
func (m *modStream) NSent() int { return m.nsent() }

// Take returns the responses written from index from on.
func (m *modStream) Take(from int) []*spb.ModifyResponse { return m.take(from) }

// FailSends makes every further Send of the stream fail (the transport is gone).
func (m *modStream) FailSends(err error) {
	m.mu.Lock()
	m.sendErr = err
	m.mu.Unlock()
}

// BlockSends makes every further Send of the stream wait until the returned function is called.
func (m *modStream) BlockSends() (unblock func()) {
	ch := make(chan struct{})
	m.mu.Lock()
	m.block = ch
	m.mu.Unlock()
	return func() {
		m.mu.Lock()
		m.block = nil
		m.mu.Unlock()
		close(ch)
	}
}

// SendsEntered is the number of Send calls entered so far (completed or not).
func (m *modStream) SendsEntered() int {
	m.mu.Lock()
	defer m.mu.Unlock()
	return m.entered
}

// SlowSends makes every further Send of the stream take d.
func (m *modStream) SlowSends(d time.Duration) {
	m.mu.Lock()
	m.slow = d
	m.mu.Unlock()
}

// Close ends the client side of the stream (io.EOF: half-close).
func (m *modStream) Close(err error) { m.close(err) }

// Got returns the responses accepted so far.
func (g *getStream) Got() []*spb.GetResponse {
	g.mu.Lock()
	defer g.mu.Unlock()
	return append([]*spb.GetResponse{}, g.got...)
}

// NewGetStream returns an in-process Get stream whose Send fails after failAfter responses (<0: never).
func NewGetStream(failAfter int) *getStream {
	return &getStream{ctx: context.Background(), failAfter: failAfter}
}
