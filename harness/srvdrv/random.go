package srvdrv

import (
	"fmt"
	"math/rand"

	"verif/harness/abs"
	"verif/harness/ribdrv"
)

// Random generates a seeded server-level input sequence. The profile selects
// the mix of messages:
//
//	elec  - many sessions announcing ids over both 64-bit halves, operations stamped with assorted ids
//	fsm   - every kind of (mis)ordered message on up to three sessions
//	ops   - one or two well-behaved primaries programming chains with held operations and hand-overs
//	get   - programming followed by the full Get request matrix
//	flush - programming followed by Flush requests over the decision table
//	mixed - all of the above
func Random(rng *rand.Rand, profile string, n int) []Input {
	if profile == "mixed" {
		profile = []string{"elec", "fsm", "ops", "get", "flush", "cut"}[rng.Intn(6)]
	}
	nis := []string{ribdrv.DefaultNI, "vrf1"}
	fwd := rng.Intn(5) != 0
	ins := []Input{{A: "sreset", NIs: nis, Fwd: fwd}}
	type sst struct {
		open, params, dead bool
		last               [2]int
		fib                bool
	}
	sess := map[string]*sst{}
	labels := []string{}
	var opid uint64
	maxID := [2]int{0, 0}
	less := func(a, b [2]int) bool { return a[0] < b[0] || (a[0] == b[0] && a[1] < b[1]) }
	randID := func() [2]int {
		switch rng.Intn(10) {
		case 0:
			return [2]int{0, 0}
		case 1, 2:
			return maxID
		}
		return [2]int{rng.Intn(4), rng.Intn(len(abs.IDVals))}
	}
	open := func() string {
		l := fmt.Sprintf("s%d", len(labels)+1)
		labels = append(labels, l)
		sess[l] = &sst{open: true}
		ins = append(ins, Input{A: "open", S: l})
		return l
	}
	live := func() []string {
		var out []string
		for _, l := range labels {
			if sess[l].open {
				out = append(out, l)
			}
		}
		return out
	}
	goodParams := func(fib bool) *Msg {
		m := &Msg{K: "params", Red: "SINGLE_PRIMARY", Per: "PRESERVE", Ack: "RIB"}
		if fib {
			m.Ack = "RIB_FIB"
		}
		return m
	}
	fibMode := rng.Intn(2) == 0
	mkop := func(s *sst) abs.Op {
		opid++
		o := abs.Op{ID: opid, NI: nis[rng.Intn(len(nis))], NHs: []string{}, EID: s.last}
		switch rng.Intn(12) {
		case 0:
			o.NI = ""
		case 1:
			o.NI = "nosuchni"
		}
		switch k := rng.Intn(10); {
		case k < 3:
			o.Kind, o.Key, o.PL = "nh", fmt.Sprint(1+rng.Intn(2)), abs.NHPayloads[rng.Intn(len(abs.NHPayloads))]
		case k < 6:
			o.Kind, o.Key, o.PL = "nhg", fmt.Sprint(1+rng.Intn(2)), abs.NHGPayloads[rng.Intn(len(abs.NHGPayloads))]
			for i := 0; i <= rng.Intn(2); i++ {
				o.NHs = append(o.NHs, fmt.Sprint(1+rng.Intn(2)))
			}
			if rng.Intn(5) == 0 {
				o.BK = fmt.Sprint(1 + rng.Intn(3))
			}
		default:
			o.Kind = []string{"v4", "v4", "v6", "mpls"}[rng.Intn(4)]
			o.Key, o.PL, o.G = fmt.Sprintf("k%d", 1+rng.Intn(2)), abs.TopPayloads[rng.Intn(len(abs.TopPayloads))], fmt.Sprint(1+rng.Intn(2))
			if rng.Intn(3) == 0 {
				o.GNI = nis[rng.Intn(len(nis))]
			}
		}
		switch t := rng.Intn(10); {
		case t < 6:
			o.Typ = "ADD"
		case t < 8:
			o.Typ = "REPLACE"
		default:
			o.Typ = "DELETE"
			o.PL, o.NHs, o.BK, o.G, o.GNI = "", []string{}, "", "", ""
		}
		// election id stamped on the operation
		switch rng.Intn(12) {
		case 0:
			o.NoEID = true
			o.EID = [2]int{0, 0}
		case 1:
			o.EID = randID()
		case 2:
			o.EID = maxID
		}
		if rng.Intn(30) == 0 || (profile == "bad" && rng.Intn(4) == 0) {
			if o.Kind == "nh" || o.Kind == "nhg" {
				o.Key = "1" // most likely installed
				o.NI = nis[0]
			}
			cs := abs.BadClasses(o.Kind, o.Typ)
			o.Bad = cs[rng.Intn(len(cs))]
		}
		if rng.Intn(60) == 0 {
			o.Bad = "badOpType"
		}
		return o
	}
	msg := func(l string, m *Msg) {
		in := Input{A: "msg", S: l, M: m}
		// a transport failure on the server's first write for this message
		if profile == "cut" && rng.Intn(8) == 0 || rng.Intn(60) == 0 && len(m.Ops) <= 1 {
			in.SendFail = true
			sess[l].open = false
		}
		ins = append(ins, in)
	}
	for len(ins) < n {
		lv := live()
		if len(lv) == 0 || (len(lv) < 3 && rng.Intn(8) == 0) {
			l := open()
			if (profile != "fsm" && profile != "cut") || rng.Intn(3) != 0 {
				msg(l, goodParams(fibMode))
				sess[l].params = true
			}
			continue
		}
		l := lv[rng.Intn(len(lv))]
		s := sess[l]
		r := rng.Intn(100)
		switch profile {
		case "fsm":
			switch {
			case r < 25:
				m := &Msg{K: "params", Red: []string{"SINGLE_PRIMARY", "SINGLE_PRIMARY", "ALL_PRIMARY"}[rng.Intn(3)],
					Per: []string{"PRESERVE", "PRESERVE", "DELETE"}[rng.Intn(3)], Ack: []string{"RIB", "RIB_FIB"}[rng.Intn(2)]}
				msg(l, m)
			case r < 50:
				id := randID()
				msg(l, &Msg{K: "elec", ID: id})
				if s.params && id != [2]int{0, 0} {
					s.last = id
					if !less(id, maxID) {
						maxID = id
					}
				}
			case r < 70:
				msg(l, &Msg{K: "ops", Ops: []abs.Op{mkop(s)}})
			case r < 78:
				msg(l, &Msg{K: "multi", Fields: []string{"pe", "po", "eo", "peo"}[rng.Intn(4)]})
			case r < 82:
				msg(l, &Msg{K: "empty"})
			case r < 92:
				ins = append(ins, Input{A: "close", S: l, Mode: []string{"eof", "recverr"}[rng.Intn(2)]})
				s.open = false
			default:
				ins = append(ins, Input{A: "get", G: &GetReq{NI: "*", AFT: "ALL"}})
			}
		default:
			switch {
			case r < 18 || s.last == [2]int{0, 0}:
				id := randID()
				if profile != "elec" && rng.Intn(4) != 0 {
					// mostly take over / keep the primary role
					id = maxID
					if rng.Intn(2) == 0 && maxID[1] < len(abs.IDVals)-1 {
						id = [2]int{maxID[0], maxID[1] + 1}
					}
					if id == [2]int{0, 0} {
						id = [2]int{0, 1}
					}
				}
				msg(l, &Msg{K: "elec", ID: id})
				if s.params && id != [2]int{0, 0} {
					s.last = id
					if !less(id, maxID) {
						maxID = id
					}
				}
			case r < 80:
				k := 1
				if rng.Intn(4) == 0 {
					k = 2 + rng.Intn(3)
				}
				ops := []abs.Op{}
				for i := 0; i < k; i++ {
					ops = append(ops, mkop(s))
				}
				msg(l, &Msg{K: "ops", Ops: ops})
			case r < 84 || (profile == "cut" && r < 90):
				ins = append(ins, Input{A: "close", S: l, Mode: []string{"eof", "recverr"}[rng.Intn(2)]})
				s.open = false
			case r < 92 || profile == "get" || (profile == "cut" && r < 96):
				g := &GetReq{NI: []string{"*", ribdrv.DefaultNI, "vrf1", "nosuchni", ""}[rng.Intn(5)],
					AFT: []string{"ALL", "nh", "nhg", "v4", "v6", "mpls", "mac"}[rng.Intn(7)]}
				if rng.Intn(3) != 0 {
					g.NI = []string{"*", ribdrv.DefaultNI, "vrf1"}[rng.Intn(3)]
				}
				gi := Input{A: "get", G: g}
				if profile == "cut" || rng.Intn(6) == 0 {
					k := rng.Intn(4)
					gi.FailAfter = &k
				}
				ins = append(ins, gi)
			default:
				fr := &FlushReq{NI: []string{"*", ribdrv.DefaultNI, "vrf1", "", "nosuchni", "<empty>"}[rng.Intn(6)],
					El: []string{"override", "none", "id", "id"}[rng.Intn(4)]}
				if fr.El == "id" {
					fr.ID = randID()
				}
				ins = append(ins, Input{A: "flushrpc", R: fr})
			}
		}
	}
	return ins
}
