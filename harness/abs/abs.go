// Package abs maps between the abstract values of the TLA+ specifications
// (operations, entries, RIB states as JSON) and the concrete protobufs and
// ygot structs of openconfig/gribigo.
package abs

import (
	"crypto/sha256"
	"encoding/hex"
	"encoding/json"
	"fmt"
	"net/netip"
	"reflect"
	"sort"
	"strconv"
	"strings"
	"sync"

	"github.com/openconfig/gnmi/value"
	"github.com/openconfig/goyang/pkg/yang"
	"github.com/openconfig/gribigo/aft"
	"github.com/openconfig/ygot/protomap"
	"github.com/openconfig/ygot/ygot"
	"github.com/openconfig/ygot/ytypes"
	"google.golang.org/protobuf/proto"

	aftpb "github.com/openconfig/gribi/v1/proto/gribi_aft"
	enums "github.com/openconfig/gribi/v1/proto/gribi_aft/enums"
	spb "github.com/openconfig/gribi/v1/proto/service"
	wpb "github.com/openconfig/ygot/proto/ywrapper"
)

// Op is the abstract operation of GribiRIB.tla.
type Op struct {
	ID   uint64   `json:"id"`
	NI   string   `json:"ni"`
	Typ  string   `json:"typ"`
	Kind string   `json:"kind"`
	Key  string   `json:"key"`
	PL   string   `json:"pl"`
	NHs  []string `json:"nhs"`
	BK   string   `json:"bk"`
	G    string   `json:"g"`
	GNI  string   `json:"gni"`
	Bad  string   `json:"bad"`
	// EID is the (abstract, rank-mapped) election id <<hi, lo>> stamped on the
	// operation; NoEID says that the operation carries no election id.
	EID   [2]int `json:"eid"`
	NoEID bool   `json:"noeid"`
}

// Norm makes the JSON form canonical (no null lists).
func (o Op) Norm() Op {
	if o.NHs == nil {
		o.NHs = []string{}
	}
	return o
}

func (o Op) MarshalJSON() ([]byte, error) {
	type alias Op
	a := alias(o.Norm())
	return json.Marshal(a)
}

// UnmarshalJSON accepts TLC's rendering of the empty sequence / function.
func (o *Op) UnmarshalJSON(b []byte) error {
	type alias Op
	var a alias
	if err := json.Unmarshal(b, &a); err != nil {
		return err
	}
	*o = Op(a)
	if o.NHs == nil {
		o.NHs = []string{}
	}
	return nil
}

// ---------------------------------------------------------------------------
// Entries and state

type NHE struct {
	PL string `json:"pl"`
}
type NHGE struct {
	PL  string   `json:"pl"`
	NHs []string `json:"nhs"`
	BK  string   `json:"bk"`
}
type TopE struct {
	PL  string `json:"pl"`
	G   string `json:"g"`
	GNI string `json:"gni"`
	KD  string `json:"kd"`
}

// NIState is the abstract content of one network instance.
type NIState struct {
	NH  map[string]NHE  `json:"nh"`
	NHG map[string]NHGE `json:"nhg"`
	Top map[string]TopE `json:"top"`
}

func NewNIState() *NIState {
	return &NIState{NH: map[string]NHE{}, NHG: map[string]NHGE{}, Top: map[string]TopE{}}
}

func (n *NIState) Copy() *NIState {
	c := NewNIState()
	for k, v := range n.NH {
		c.NH[k] = v
	}
	for k, v := range n.NHG {
		v.NHs = append([]string{}, v.NHs...)
		c.NHG[k] = v
	}
	for k, v := range n.Top {
		c.Top[k] = v
	}
	return c
}

func (n *NIState) Size() int { return len(n.NH) + len(n.NHG) + len(n.Top) }

// RIBState maps network instance name to content.
type RIBState map[string]*NIState

func (r RIBState) Copy() RIBState {
	c := RIBState{}
	for k, v := range r {
		c[k] = v.Copy()
	}
	return c
}

func (r RIBState) Size() int {
	n := 0
	for _, v := range r {
		n += v.Size()
	}
	return n
}

// ---------------------------------------------------------------------------
// Keys

// KeyNum parses an abstract key "kN" / "N" into N.
func KeyNum(k string) (uint64, error) {
	return strconv.ParseUint(strings.TrimPrefix(k, "k"), 10, 64)
}

func V4Prefix(k string) string {
	if strings.Contains(k, "/") {
		return k
	}
	n, err := KeyNum(k)
	if err != nil {
		return k // deliberately invalid prefixes pass through
	}
	// odd keys carry host bits (legal, and kept verbatim as the key by the RIB)
	return fmt.Sprintf("10.%d.%d.%d/24", (n>>8)&0xff, n&0xff, 3*(n&1))
}

func V6Prefix(k string) string {
	if strings.Contains(k, "/") {
		return k
	}
	n, err := KeyNum(k)
	if err != nil {
		return k
	}
	if n&1 == 1 {
		return fmt.Sprintf("2001:db8:%x::1/48", n) // host bits set
	}
	if n%4 == 2 {
		// legal but not the canonical spelling (upper-case digits, an explicit zero group): kept verbatim as the key
		return fmt.Sprintf("2001:DB8:%X:0::/48", n)
	}
	return fmt.Sprintf("2001:db8:%x::/48", n)
}

func MPLSLabel(k string) uint64 {
	n, err := KeyNum(k)
	if err != nil {
		return 0
	}
	if strings.HasPrefix(k, "k") {
		return 1000 + n
	}
	return n
}

// AbsTopKey inverts V4Prefix/V6Prefix/MPLSLabel.
func AbsTopKey(kind string, concrete any) string {
	switch kind {
	case "v4":
		s := concrete.(string)
		var a, b, c, d, l int
		if n, _ := fmt.Sscanf(s, "%d.%d.%d.%d/%d", &a, &b, &c, &d, &l); n == 5 && a == 10 && l == 24 && d == 3*((b<<8|c)&1) {
			return fmt.Sprintf("k%d", b<<8|c)
		}
		return s
	case "v6":
		s := concrete.(string)
		var n uint64
		if c, _ := fmt.Sscanf(s, "2001:db8:%x::", &n); c == 1 && V6Prefix(fmt.Sprintf("k%d", n)) == s {
			return fmt.Sprintf("k%d", n)
		}
		if c, _ := fmt.Sscanf(s, "2001:DB8:%X:0::", &n); c == 1 && V6Prefix(fmt.Sprintf("k%d", n)) == s {
			return fmt.Sprintf("k%d", n)
		}
		return s
	case "mpls":
		n := concrete.(uint64)
		if n >= 1000 && n < 1000000 {
			return fmt.Sprintf("k%d", n-1000)
		}
		return fmt.Sprintf("%d", n)
	}
	return fmt.Sprint(concrete)
}

// ---------------------------------------------------------------------------
// Payload catalogue: abstract payload identity -> concrete fields.

func sv(s string) *wpb.StringValue { return &wpb.StringValue{Value: s} }
func uv(u uint64) *wpb.UintValue   { return &wpb.UintValue{Value: u} }

// NHPayload returns the next-hop payload for payload identity pl. The catalogue
// covers every field the fluent next-hop builder can set.
func NHPayload(pl string) *aftpb.Afts_NextHop {
	switch pl {
	case "":
		return &aftpb.Afts_NextHop{}
	case "a":
		return &aftpb.Afts_NextHop{IpAddress: sv("192.0.2.1")}
	case "b":
		return &aftpb.Afts_NextHop{IpAddress: sv("192.0.2.2"), MacAddress: sv("00:11:22:33:44:55")}
	case "c":
		return &aftpb.Afts_NextHop{InterfaceRef: &aftpb.Afts_NextHop_InterfaceRef{Interface: sv("eth0"), Subinterface: uv(7)}}
	case "d":
		return &aftpb.Afts_NextHop{
			IpInIp:            &aftpb.Afts_NextHop_IpInIp{SrcIp: sv("198.51.100.1"), DstIp: sv("198.51.100.2")},
			EncapsulateHeader: enums.OpenconfigAftTypesEncapsulationHeaderType_OPENCONFIGAFTTYPESENCAPSULATIONHEADERTYPE_IPV4,
		}
	case "e":
		return &aftpb.Afts_NextHop{
			IpAddress: sv("192.0.2.5"),
			PushedMplsLabelStack: []*aftpb.Afts_NextHop_PushedMplsLabelStackUnion{
				{PushedMplsLabelStackUint64: 100}, {PushedMplsLabelStackUint64: 200},
			},
		}
	case "f":
		return &aftpb.Afts_NextHop{IpAddress: sv("192.0.2.6"), PopTopLabel: &wpb.BoolValue{Value: true}}
	case "g":
		return &aftpb.Afts_NextHop{NetworkInstance: sv("vrf1"), IpAddress: sv("192.0.2.7")}
	case "h":
		return &aftpb.Afts_NextHop{
			DecapsulateHeader: enums.OpenconfigAftTypesEncapsulationHeaderType_OPENCONFIGAFTTYPESENCAPSULATIONHEADERTYPE_IPV4,
			NetworkInstance:   sv("DEFAULT"),
		}
	case "i":
		return &aftpb.Afts_NextHop{
			EncapHeader: []*aftpb.Afts_NextHop_EncapHeaderKey{{
				Index: 1,
				EncapHeader: &aftpb.Afts_NextHop_EncapHeader{
					Type: enums.OpenconfigAftTypesEncapsulationHeaderType_OPENCONFIGAFTTYPESENCAPSULATIONHEADERTYPE_UDPV4,
					UdpV4: &aftpb.Afts_NextHop_EncapHeader_UdpV4{
						SrcIp: sv("203.0.113.1"), DstIp: sv("203.0.113.2"),
						SrcUdpPort: uv(4000), DstUdpPort: uv(6635), IpTtl: uv(64), Dscp: uv(10),
					},
				},
			}},
		}
	}
	// any other identity: an address derived from the name
	h := sha256.Sum256([]byte(pl))
	return &aftpb.Afts_NextHop{IpAddress: sv(fmt.Sprintf("192.0.%d.%d", h[0], h[1]))}
}

// NHPayloads lists the catalogue identities for next-hops.
var NHPayloads = []string{"a", "b", "c", "d", "e", "f", "g", "h", "i"}

// nhgWeight is the weight given to member position i under payload pl (0 = none).
func nhgWeight(pl string, idx uint64) uint64 {
	switch pl {
	case "", "a":
		return 1
	case "b":
		return 2 + idx%3
	case "c":
		return 64
	case "d":
		return 0
	}
	h := sha256.Sum256([]byte(pl))
	return uint64(h[0]) + 1
}

var NHGPayloads = []string{"a", "b", "c", "d"}

func NHGPayload(pl string, nhs []string, bk string) (*aftpb.Afts_NextHopGroup, error) {
	g := &aftpb.Afts_NextHopGroup{}
	for _, s := range nhs {
		i, err := strconv.ParseUint(s, 10, 64)
		if err != nil {
			return nil, err
		}
		m := &aftpb.Afts_NextHopGroup_NextHopKey{Index: i, NextHop: &aftpb.Afts_NextHopGroup_NextHop{}}
		if w := nhgWeight(pl, i); w != 0 {
			m.NextHop.Weight = uv(w)
		}
		g.NextHop = append(g.NextHop, m)
	}
	if pl == "c" {
		g.Color = uv(5)
	}
	if bk != "" {
		b, err := strconv.ParseUint(bk, 10, 64)
		if err != nil {
			return nil, err
		}
		g.BackupNextHopGroup = uv(b)
	}
	return g, nil
}

var TopPayloads = []string{"a", "b", "c", "d"}

func topMeta(pl string) []byte {
	switch pl {
	case "", "a", "d":
		return nil
	case "b":
		return []byte{1, 2, 3}
	case "c":
		return []byte{0xde, 0xad, 0xbe, 0xef, 0, 0xff}
	}
	h := sha256.Sum256([]byte(pl))
	return h[:4]
}

// Concretise turns an abstract operation into a gRIBI AFTOperation. Malformed
// classes (op.Bad) are concretised by Malform.
func Concretise(o Op) (*spb.AFTOperation, error) {
	p := &spb.AFTOperation{Id: o.ID, NetworkInstance: o.NI}
	switch o.Typ {
	case "ADD":
		p.Op = spb.AFTOperation_ADD
	case "REPLACE":
		p.Op = spb.AFTOperation_REPLACE
	case "DELETE":
		p.Op = spb.AFTOperation_DELETE
	default:
		return nil, fmt.Errorf("bad typ %q", o.Typ)
	}
	var gref *wpb.UintValue
	var gni *wpb.StringValue
	if o.G != "" {
		g, err := strconv.ParseUint(o.G, 10, 64)
		if err != nil {
			return nil, err
		}
		gref = uv(g)
	}
	if o.GNI != "" {
		gni = sv(o.GNI)
	}
	var md *wpb.BytesValue
	if b := topMeta(o.PL); b != nil {
		md = &wpb.BytesValue{Value: b}
	}
	switch o.Kind {
	case "nh":
		i, err := strconv.ParseUint(o.Key, 10, 64)
		if err != nil {
			return nil, err
		}
		p.Entry = &spb.AFTOperation_NextHop{NextHop: &aftpb.Afts_NextHopKey{Index: i, NextHop: NHPayload(o.PL)}}
	case "nhg":
		i, err := strconv.ParseUint(o.Key, 10, 64)
		if err != nil {
			return nil, err
		}
		g, err := NHGPayload(o.PL, o.NHs, o.BK)
		if err != nil {
			return nil, err
		}
		p.Entry = &spb.AFTOperation_NextHopGroup{NextHopGroup: &aftpb.Afts_NextHopGroupKey{Id: i, NextHopGroup: g}}
	case "v4":
		e := &aftpb.Afts_Ipv4Entry{NextHopGroup: gref, NextHopGroupNetworkInstance: gni, EntryMetadata: md}
		if o.PL == "c" || o.PL == "d" {
			e.DecapsulateHeader = enums.OpenconfigAftTypesEncapsulationHeaderType_OPENCONFIGAFTTYPESENCAPSULATIONHEADERTYPE_IPV4
		}
		p.Entry = &spb.AFTOperation_Ipv4{Ipv4: &aftpb.Afts_Ipv4EntryKey{Prefix: V4Prefix(o.Key), Ipv4Entry: e}}
	case "v6":
		e := &aftpb.Afts_Ipv6Entry{NextHopGroup: gref, NextHopGroupNetworkInstance: gni, EntryMetadata: md}
		if o.PL == "c" || o.PL == "d" {
			e.DecapsulateHeader = enums.OpenconfigAftTypesEncapsulationHeaderType_OPENCONFIGAFTTYPESENCAPSULATIONHEADERTYPE_IPV6
		}
		p.Entry = &spb.AFTOperation_Ipv6{Ipv6: &aftpb.Afts_Ipv6EntryKey{Prefix: V6Prefix(o.Key), Ipv6Entry: e}}
	case "mpls":
		e := &aftpb.Afts_LabelEntry{NextHopGroup: gref, NextHopGroupNetworkInstance: gni, EntryMetadata: md}
		if o.PL == "c" || o.PL == "d" {
			e.PoppedMplsLabelStack = []*aftpb.Afts_LabelEntry_PoppedMplsLabelStackUnion{{PoppedMplsLabelStackUint64: 300}}
		}
		p.Entry = &spb.AFTOperation_Mpls{Mpls: &aftpb.Afts_LabelEntryKey{
			Label:      &aftpb.Afts_LabelEntryKey_LabelUint64{LabelUint64: MPLSLabel(o.Key)},
			LabelEntry: e,
		}}
	default:
		return nil, fmt.Errorf("bad kind %q", o.Kind)
	}
	if !o.NoEID {
		p.ElectionId = ConcID(o.EID)
	}
	if o.Bad != "" {
		if err := Malform(o, p); err != nil {
			return nil, err
		}
		return p, nil
	}
	RegisterOp(o, p)
	return p, nil
}

// ---------------------------------------------------------------------------
// Payload identity registry: canonical hash of an entry payload -> identity.

var (
	regMu sync.Mutex
	reg   = map[string]string{}
)

func hashOf(kind string, m proto.Message) string {
	b, err := proto.MarshalOptions{Deterministic: true}.Marshal(m)
	if err != nil {
		return "marshalerr"
	}
	h := sha256.Sum256(append([]byte(kind+"|"), b...))
	return hex.EncodeToString(h[:6])
}

// canonNHG returns a copy of g with members deduplicated by index (last wins) and sorted.
func canonNHG(g *aftpb.Afts_NextHopGroup) *aftpb.Afts_NextHopGroup {
	c := proto.Clone(g).(*aftpb.Afts_NextHopGroup)
	by := map[uint64]*aftpb.Afts_NextHopGroup_NextHopKey{}
	for _, m := range c.NextHop {
		by[m.GetIndex()] = m
	}
	idx := make([]uint64, 0, len(by))
	for i := range by {
		idx = append(idx, i)
	}
	sort.Slice(idx, func(a, b int) bool { return idx[a] < idx[b] })
	c.NextHop = nil
	for _, i := range idx {
		c.NextHop = append(c.NextHop, by[i])
	}
	return c
}

// Parts is the abstract view of one concrete entry.
type Parts struct {
	Kind, Key string
	Hash      string
	NHs       []string
	BK        string
	G, GNI    string
}

// EntryParts decomposes a concrete keyed entry (one of the *Key messages).
func EntryParts(e proto.Message) (Parts, error) {
	switch t := e.(type) {
	case *aftpb.Afts_NextHopKey:
		pl := t.GetNextHop()
		if pl == nil {
			pl = &aftpb.Afts_NextHop{}
		}
		return Parts{Kind: "nh", Key: strconv.FormatUint(t.GetIndex(), 10), Hash: hashOf("nh", pl)}, nil
	case *aftpb.Afts_NextHopGroupKey:
		g := t.GetNextHopGroup()
		if g == nil {
			g = &aftpb.Afts_NextHopGroup{}
		}
		c := canonNHG(g)
		p := Parts{Kind: "nhg", Key: strconv.FormatUint(t.GetId(), 10), Hash: hashOf("nhg", c), NHs: []string{}}
		for _, m := range c.NextHop {
			p.NHs = append(p.NHs, strconv.FormatUint(m.GetIndex(), 10))
		}
		if g.BackupNextHopGroup != nil {
			p.BK = strconv.FormatUint(g.BackupNextHopGroup.GetValue(), 10)
		}
		return p, nil
	case *aftpb.Afts_Ipv4EntryKey:
		en := t.GetIpv4Entry()
		if en == nil {
			en = &aftpb.Afts_Ipv4Entry{}
		}
		return topParts("v4", AbsTopKey("v4", t.GetPrefix()), en, en.GetNextHopGroup(), en.GetNextHopGroupNetworkInstance()), nil
	case *aftpb.Afts_Ipv6EntryKey:
		en := t.GetIpv6Entry()
		if en == nil {
			en = &aftpb.Afts_Ipv6Entry{}
		}
		return topParts("v6", AbsTopKey("v6", t.GetPrefix()), en, en.GetNextHopGroup(), en.GetNextHopGroupNetworkInstance()), nil
	case *aftpb.Afts_LabelEntryKey:
		en := t.GetLabelEntry()
		if en == nil {
			en = &aftpb.Afts_LabelEntry{}
		}
		return topParts("mpls", AbsTopKey("mpls", t.GetLabelUint64()), en, en.GetNextHopGroup(), en.GetNextHopGroupNetworkInstance()), nil
	}
	return Parts{}, fmt.Errorf("unsupported entry type %T", e)
}

func topParts(kind, key string, en proto.Message, g *wpb.UintValue, gni *wpb.StringValue) Parts {
	p := Parts{Kind: kind, Key: key, Hash: hashOf(kind, en)}
	if g != nil {
		p.G = strconv.FormatUint(g.GetValue(), 10)
	}
	if gni != nil {
		p.GNI = gni.GetValue()
	}
	return p
}

// OpEntry returns the keyed entry message of an operation (nil if none).
func OpEntry(p *spb.AFTOperation) proto.Message {
	switch t := p.GetEntry().(type) {
	case *spb.AFTOperation_NextHop:
		if t.NextHop == nil {
			return nil
		}
		return t.NextHop
	case *spb.AFTOperation_NextHopGroup:
		if t.NextHopGroup == nil {
			return nil
		}
		return t.NextHopGroup
	case *spb.AFTOperation_Ipv4:
		if t.Ipv4 == nil {
			return nil
		}
		return t.Ipv4
	case *spb.AFTOperation_Ipv6:
		if t.Ipv6 == nil {
			return nil
		}
		return t.Ipv6
	case *spb.AFTOperation_Mpls:
		if t.Mpls == nil {
			return nil
		}
		return t.Mpls
	}
	return nil
}

// RegisterOp records the payload identity chosen for a concretised operation,
// both for its protobuf form (what Get must return) and for its ygot struct
// form (what the RIB must hold and the hooks must announce).
func RegisterOp(o Op, p *spb.AFTOperation) {
	e := OpEntry(p)
	if e == nil {
		return
	}
	parts, err := EntryParts(e)
	if err != nil {
		return
	}
	sh, serr := expectedStructHash(e)
	regMu.Lock()
	defer regMu.Unlock()
	if _, ok := reg[parts.Hash]; !ok {
		reg[parts.Hash] = o.PL
	}
	if serr == nil {
		if _, ok := reg[sh]; !ok {
			reg[sh] = o.PL
		}
	}
	// Known lossy conversion (see KNOWN_FINDINGS: getBoolLeafDropped): the same
	// payload without its boolean leaves is registered as "<pl>~nobool".
	if nh, ok := e.(*aftpb.Afts_NextHopKey); ok && nh.GetNextHop().GetPopTopLabel() != nil {
		c := proto.Clone(nh).(*aftpb.Afts_NextHopKey)
		c.NextHop.PopTopLabel = nil
		if p2, err := EntryParts(c); err == nil {
			if _, ok := reg[p2.Hash]; !ok {
				reg[p2.Hash] = o.PL + NoBoolSuffix
			}
		}
		if sh2, err := expectedStructHash(c); err == nil {
			if _, ok := reg[sh2]; !ok {
				reg[sh2] = o.PL + NoBoolSuffix
			}
		}
	}
}

// NoBoolSuffix marks a payload identity whose boolean leaves were dropped.
const NoBoolSuffix = "~nobool"

// Unquirk undoes the NoBoolSuffix marking of a payload identity.
func Unquirk(pl string) string { return strings.TrimSuffix(pl, NoBoolSuffix) }

// UnquirkRIB returns a copy of r with every next-hop payload identity unquirked.
func UnquirkRIB(r RIBState) RIBState {
	c := r.Copy()
	for _, n := range c {
		for k, v := range n.NH {
			v.PL = Unquirk(v.PL)
			n.NH[k] = v
		}
	}
	return c
}

// expectedStruct builds, with library code only (the recipe gribigo documents
// for turning an AFT proto into its ygot representation), the ygot entry that
// a keyed proto entry denotes.
func expectedStruct(e proto.Message) (s ygot.ValidatedGoStruct, err error) {
	defer func() {
		if p := recover(); p != nil {
			s, err = nil, fmt.Errorf("panic: %v", p)
		}
	}()
	a := &aftpb.Afts{}
	switch t := e.(type) {
	case *aftpb.Afts_NextHopKey:
		a.NextHop = []*aftpb.Afts_NextHopKey{t}
	case *aftpb.Afts_NextHopGroupKey:
		a.NextHopGroup = []*aftpb.Afts_NextHopGroupKey{t}
	case *aftpb.Afts_Ipv4EntryKey:
		a.Ipv4Entry = []*aftpb.Afts_Ipv4EntryKey{t}
	case *aftpb.Afts_Ipv6EntryKey:
		a.Ipv6Entry = []*aftpb.Afts_Ipv6EntryKey{t}
	case *aftpb.Afts_LabelEntryKey:
		a.LabelEntry = []*aftpb.Afts_LabelEntryKey{t}
	default:
		return nil, fmt.Errorf("unsupported %T", e)
	}
	paths, err := protomap.PathsFromProto(a)
	if err != nil {
		return nil, err
	}
	nr := &aft.RIB{}
	for p, v := range paths {
		sv, err := value.FromScalar(v)
		if err != nil {
			return nil, err
		}
		if err := ytypes.SetNode(aftSchema(), nr, p, sv, &ytypes.InitMissingElements{}); err != nil {
			return nil, err
		}
	}
	if nr.Afts == nil {
		return nil, fmt.Errorf("empty")
	}
	for _, x := range nr.Afts.NextHop {
		return x, nil
	}
	for _, x := range nr.Afts.NextHopGroup {
		return x, nil
	}
	for _, x := range nr.Afts.Ipv4Entry {
		return x, nil
	}
	for _, x := range nr.Afts.Ipv6Entry {
		return x, nil
	}
	for _, x := range nr.Afts.LabelEntry {
		return x, nil
	}
	return nil, fmt.Errorf("no entry")
}

var (
	schemaOnce sync.Once
	schemaRoot *yang.Entry
)

func aftSchema() *yang.Entry {
	schemaOnce.Do(func() {
		r, err := aft.Schema()
		if err != nil {
			panic(err)
		}
		schemaRoot = r.RootSchema()
	})
	return schemaRoot
}

func structHash(s ygot.ValidatedGoStruct) (string, error) {
	js, err := ygot.EmitJSON(s, &ygot.EmitJSONConfig{Format: ygot.RFC7951, SkipValidation: true})
	if err != nil {
		return "", err
	}
	h := sha256.Sum256([]byte(fmt.Sprintf("%T|%s", s, js)))
	return "s" + hex.EncodeToString(h[:6]), nil
}

func expectedStructHash(e proto.Message) (string, error) {
	s, err := expectedStruct(e)
	if err != nil {
		return "", err
	}
	return structHash(s)
}

func contains(l []string, x string) bool {
	for _, y := range l {
		if y == x {
			return true
		}
	}
	return false
}

// PLName returns the payload identity for a canonical hash; unknown payloads
// are given a name derived from the hash so that no specification state can
// contain them unless they were programmed under that name.
func PLName(hash string) string {
	regMu.Lock()
	defer regMu.Unlock()
	if n, ok := reg[hash]; ok {
		return n
	}
	return "x" + hash
}

// AbstractOp abstracts a concrete operation (used for operations that did not
// originate from Concretise, e.g. recorded from the repository's own tests).
// Payload identities unknown to the registry are registered under a hash name.
func AbstractOp(p *spb.AFTOperation) Op {
	o := Op{ID: p.GetId(), NI: p.GetNetworkInstance(), NHs: []string{}, EID: AbsID(p.GetElectionId()), NoEID: p.GetElectionId() == nil}
	switch p.GetOp() {
	case spb.AFTOperation_ADD:
		o.Typ = "ADD"
	case spb.AFTOperation_REPLACE:
		o.Typ = "REPLACE"
	case spb.AFTOperation_DELETE:
		o.Typ = "DELETE"
	default:
		o.Typ = "ADD"
		o.Bad = "badOpType"
	}
	e := OpEntry(p)
	if e == nil {
		o.Kind, o.Key, o.Bad = "nh", "0", "nilEntry"
		return o
	}
	parts, err := EntryParts(e)
	if err != nil {
		o.Kind, o.Key, o.Bad = "nh", "0", "unknownEntry"
		return o
	}
	o.Kind, o.Key, o.NHs, o.BK, o.G, o.GNI = parts.Kind, parts.Key, parts.NHs, parts.BK, parts.G, parts.GNI
	if o.NHs == nil {
		o.NHs = []string{}
	}
	regMu.Lock()
	n, ok := reg[parts.Hash]
	regMu.Unlock()
	if !ok {
		// first sight of this payload: name it after its hash
		n = "h" + parts.Hash
	}
	// static malformations that the server must answer with FAILED (C12 classes)
	if o.Typ != "DELETE" || o.Kind == "nh" || o.Kind == "nhg" {
		switch {
		case (o.Kind == "nh" || o.Kind == "nhg") && o.Key == "0":
			o.Bad = "zeroIndex"
		case o.Typ != "DELETE" && o.Kind == "nhg" && len(o.NHs) == 0:
			o.Bad = "emptyGroup"
		case o.Typ != "DELETE" && o.Kind == "nhg" && contains(o.NHs, "0"):
			o.Bad = "zeroNHInGroup"
		case o.Typ != "DELETE" && (o.Kind == "v4" || o.Kind == "v6" || o.Kind == "mpls") && (o.G == "" || o.G == "0"):
			o.Bad = "zeroGroup"
		}
	}
	if o.Typ != "DELETE" {
		switch t := e.(type) {
		case *aftpb.Afts_Ipv4EntryKey:
			if pf, err := netip.ParsePrefix(t.GetPrefix()); err != nil || !pf.Addr().Is4() {
				o.Bad = "badPrefix"
			}
		case *aftpb.Afts_Ipv6EntryKey:
			if pf, err := netip.ParsePrefix(t.GetPrefix()); err != nil || !pf.Addr().Is6() {
				o.Bad = "badPrefix"
			}
		case *aftpb.Afts_LabelEntryKey:
			if t.GetLabelUint64() > 1048575 {
				o.Bad = "labelRange"
			}
		}
	}
	// register its protobuf and ygot forms (the latter includes the key, so every keyed entry
	// has its own; and the forms without boolean leaves, see RegisterOp)
	RegisterOp(Op{PL: n}, p)
	o.PL = n
	if o.Typ == "DELETE" {
		o.PL, o.NHs, o.BK, o.G, o.GNI = "", []string{}, "", "", ""
	}
	return o
}

// ---------------------------------------------------------------------------
// ygot struct -> abstract parts (no conversion back to protobuf involved)

func isNilStruct(s any) bool {
	if s == nil {
		return true
	}
	v := reflect.ValueOf(s)
	return v.Kind() == reflect.Ptr && v.IsNil()
}

func u(v uint64) string { return strconv.FormatUint(v, 10) }

// StructParts decomposes one ygot AFT entry.
func StructParts(s ygot.ValidatedGoStruct) (Parts, error) {
	if isNilStruct(s) {
		return Parts{}, fmt.Errorf("nil struct")
	}
	h, err := structHash(s)
	if err != nil {
		return Parts{}, err
	}
	switch t := s.(type) {
	case *aft.Afts_NextHop:
		return Parts{Kind: "nh", Key: u(t.GetIndex()), Hash: h}, nil
	case *aft.Afts_NextHopGroup:
		p := Parts{Kind: "nhg", Key: u(t.GetId()), Hash: h, NHs: []string{}}
		idx := []uint64{}
		for i := range t.NextHop {
			idx = append(idx, i)
		}
		sort.Slice(idx, func(a, b int) bool { return idx[a] < idx[b] })
		for _, i := range idx {
			p.NHs = append(p.NHs, u(i))
		}
		if t.BackupNextHopGroup != nil {
			p.BK = u(*t.BackupNextHopGroup)
		}
		return p, nil
	case *aft.Afts_Ipv4Entry:
		p := Parts{Kind: "v4", Key: AbsTopKey("v4", t.GetPrefix()), Hash: h, GNI: t.GetNextHopGroupNetworkInstance()}
		if t.NextHopGroup != nil {
			p.G = u(*t.NextHopGroup)
		}
		return p, nil
	case *aft.Afts_Ipv6Entry:
		p := Parts{Kind: "v6", Key: AbsTopKey("v6", t.GetPrefix()), Hash: h, GNI: t.GetNextHopGroupNetworkInstance()}
		if t.NextHopGroup != nil {
			p.G = u(*t.NextHopGroup)
		}
		return p, nil
	case *aft.Afts_LabelEntry:
		l, ok := t.GetLabel().(aft.UnionUint32)
		if !ok {
			return Parts{}, fmt.Errorf("label type %T", t.GetLabel())
		}
		p := Parts{Kind: "mpls", Key: AbsTopKey("mpls", uint64(l)), Hash: h, GNI: t.GetNextHopGroupNetworkInstance()}
		if t.NextHopGroup != nil {
			p.G = u(*t.NextHopGroup)
		}
		return p, nil
	}
	return Parts{}, fmt.Errorf("unsupported struct %T", s)
}

// PutParts stores the abstract entry described by parts into n.
func (n *NIState) PutParts(p Parts) {
	pl := PLName(p.Hash)
	switch p.Kind {
	case "nh":
		n.NH[p.Key] = NHE{PL: pl}
	case "nhg":
		nhs := p.NHs
		if nhs == nil {
			nhs = []string{}
		}
		n.NHG[p.Key] = NHGE{PL: pl, NHs: nhs, BK: p.BK}
	default:
		n.Top[p.Kind+":"+p.Key] = TopE{PL: pl, G: p.G, GNI: p.GNI, KD: p.Kind}
	}
}

// DelParts removes the key described by parts from n.
func (n *NIState) DelParts(p Parts) {
	switch p.Kind {
	case "nh":
		delete(n.NH, p.Key)
	case "nhg":
		delete(n.NHG, p.Key)
	default:
		delete(n.Top, p.Kind+":"+p.Key)
	}
}

// PutEntry abstracts a keyed proto entry into n.
func (n *NIState) PutEntry(e proto.Message) error {
	p, err := EntryParts(e)
	if err != nil {
		return err
	}
	n.PutParts(p)
	return nil
}

// ProjectNI abstracts the content of one ygot RIB.
func ProjectNI(r *aft.RIB) (*NIState, error) {
	n := NewNIState()
	if r == nil || r.Afts == nil {
		return n, nil
	}
	add := func(s ygot.ValidatedGoStruct) error {
		p, err := StructParts(s)
		if err != nil {
			return err
		}
		n.PutParts(p)
		return nil
	}
	for _, e := range r.Afts.NextHop {
		if err := add(e); err != nil {
			return nil, err
		}
	}
	for _, e := range r.Afts.NextHopGroup {
		if err := add(e); err != nil {
			return nil, err
		}
	}
	for _, e := range r.Afts.Ipv4Entry {
		if err := add(e); err != nil {
			return nil, err
		}
	}
	for _, e := range r.Afts.Ipv6Entry {
		if err := add(e); err != nil {
			return nil, err
		}
	}
	for _, e := range r.Afts.LabelEntry {
		if err := add(e); err != nil {
			return nil, err
		}
	}
	return n, nil
}

// ProjectRIBs abstracts RIBContents().
func ProjectRIBs(m map[string]*aft.RIB) (RIBState, error) {
	out := RIBState{}
	for name, r := range m {
		n, err := ProjectNI(r)
		if err != nil {
			return nil, fmt.Errorf("NI %s: %v", name, err)
		}
		out[name] = n
	}
	return out, nil
}

// SortedKeys returns the sorted keys of a string-keyed map.
func SortedKeys[V any](m map[string]V) []string {
	ks := make([]string, 0, len(m))
	for k := range m {
		ks = append(ks, k)
	}
	sort.Strings(ks)
	return ks
}
