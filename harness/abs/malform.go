package abs

import (
	"fmt"

	aftpb "github.com/openconfig/gribi/v1/proto/gribi_aft"
	enums "github.com/openconfig/gribi/v1/proto/gribi_aft/enums"
	spb "github.com/openconfig/gribi/v1/proto/service"
)

// BadClasses lists the malformation classes applicable to (kind, typ).
func BadClasses(kind, typ string) []string {
	del := typ == "DELETE"
	switch kind {
	case "nh":
		if del {
			return []string{"zeroIndex", "nilEntry", "noEntry"}
		}
		return []string{"zeroIndex", "nilEntry", "noEntry", "badAddr", "badEnum"}
	case "nhg":
		if del {
			return []string{"zeroIndex", "nilEntry", "noEntry"}
		}
		return []string{"zeroIndex", "nilEntry", "noEntry", "emptyGroup", "zeroNHInGroup", "nilPayload"}
	case "v4", "v6":
		if del {
			return []string{"nilEntry", "noEntry"}
		}
		return []string{"nilEntry", "noEntry", "badPrefix", "zeroGroup", "nilPayload"}
	case "mpls":
		if del {
			return []string{"nilEntry", "noEntry", "labelRange"}
		}
		return []string{"nilEntry", "noEntry", "labelRange", "zeroGroup", "nilPayload"}
	}
	return nil
}

// Malform turns the valid concrete operation p (built from o) into a member of
// malformation class o.Bad. Class "malformed" (emitted by TLC, which does not
// distinguish classes) is resolved to the first class applicable.
func Malform(o Op, p *spb.AFTOperation) error {
	class := o.Bad
	if class == "malformed" {
		cs := BadClasses(o.Kind, o.Typ)
		class = cs[int(o.ID)%len(cs)]
	}
	switch class {
	case "noEntry":
		p.Entry = nil
		return nil
	case "nilEntry":
		switch o.Kind {
		case "nh":
			p.Entry = &spb.AFTOperation_NextHop{}
		case "nhg":
			p.Entry = &spb.AFTOperation_NextHopGroup{}
		case "v4":
			p.Entry = &spb.AFTOperation_Ipv4{}
		case "v6":
			p.Entry = &spb.AFTOperation_Ipv6{}
		case "mpls":
			p.Entry = &spb.AFTOperation_Mpls{}
		}
		return nil
	case "badOpType":
		// INVALID (0), or a number the enumeration does not define (proto3 enums are open: it arrives unchanged)
		p.Op = spb.AFTOperation_INVALID
		if o.ID%2 == 0 {
			p.Op = spb.AFTOperation_Operation(4 + o.ID%5)
		}
		return nil
	}
	switch t := p.Entry.(type) {
	case *spb.AFTOperation_NextHop:
		switch class {
		case "zeroIndex":
			t.NextHop.Index = 0
		case "badAddr":
			t.NextHop.NextHop = &aftpb.Afts_NextHop{IpAddress: sv("not-an-address\xff")}
		case "badEnum":
			t.NextHop.NextHop = &aftpb.Afts_NextHop{IpAddress: sv("192.0.2.9"), EncapsulateHeader: enums.OpenconfigAftTypesEncapsulationHeaderType(99)}
		default:
			return fmt.Errorf("class %s not applicable to nh", class)
		}
	case *spb.AFTOperation_NextHopGroup:
		switch class {
		case "zeroIndex":
			t.NextHopGroup.Id = 0
		case "emptyGroup":
			t.NextHopGroup.NextHopGroup.NextHop = nil
		case "nilPayload":
			t.NextHopGroup.NextHopGroup = nil
		case "zeroNHInGroup":
			t.NextHopGroup.NextHopGroup.NextHop = append(t.NextHopGroup.NextHopGroup.NextHop,
				&aftpb.Afts_NextHopGroup_NextHopKey{Index: 0, NextHop: &aftpb.Afts_NextHopGroup_NextHop{}})
		default:
			return fmt.Errorf("class %s not applicable to nhg", class)
		}
	case *spb.AFTOperation_Ipv4:
		switch class {
		case "badPrefix":
			t.Ipv4.Prefix = "300.1.2.3/40"
		case "zeroGroup":
			t.Ipv4.Ipv4Entry.NextHopGroup = uv(0)
		case "nilPayload":
			t.Ipv4.Ipv4Entry = nil
		default:
			return fmt.Errorf("class %s not applicable to v4", class)
		}
	case *spb.AFTOperation_Ipv6:
		switch class {
		case "badPrefix":
			t.Ipv6.Prefix = "zz::1/200"
		case "zeroGroup":
			t.Ipv6.Ipv6Entry.NextHopGroup = uv(0)
		case "nilPayload":
			t.Ipv6.Ipv6Entry = nil
		default:
			return fmt.Errorf("class %s not applicable to v6", class)
		}
	case *spb.AFTOperation_Mpls:
		switch class {
		case "labelRange":
			t.Mpls.Label = &aftpb.Afts_LabelEntryKey_LabelUint64{LabelUint64: (1 << 32) + MPLSLabel(o.Key)}
		case "zeroGroup":
			t.Mpls.LabelEntry.NextHopGroup = uv(0)
		case "nilPayload":
			t.Mpls.LabelEntry = nil
		default:
			return fmt.Errorf("class %s not applicable to mpls", class)
		}
	}
	return nil
}
