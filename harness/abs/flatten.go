package abs

import (
	"encoding/hex"
	"fmt"
	"sort"
	"strings"

	"google.golang.org/protobuf/proto"
	"google.golang.org/protobuf/reflect/protoreflect"
)

// Flatten renders every populated leaf of a protobuf message as path -> string,
// generically (protoreflect; nothing of gribigo is involved): ywrapper values
// collapse to their value (present even when zero), repeated fields are indexed
// from 1, enums are rendered by number, bytes as hex.
func Flatten(m proto.Message) map[string]string {
	out := map[string]string{}
	if m == nil {
		return out
	}
	flattenMsg(m.ProtoReflect(), "", out)
	return out
}

func isWrapper(md protoreflect.MessageDescriptor) bool {
	return strings.HasPrefix(string(md.FullName()), "ywrapper.") && md.Fields().Len() == 1
}

func scalar(fd protoreflect.FieldDescriptor, v protoreflect.Value) string {
	switch fd.Kind() {
	case protoreflect.EnumKind:
		return fmt.Sprint(int32(v.Enum()))
	case protoreflect.BytesKind:
		return hex.EncodeToString(v.Bytes())
	case protoreflect.BoolKind:
		return fmt.Sprint(v.Bool())
	}
	return fmt.Sprint(v.Interface())
}

func flattenMsg(m protoreflect.Message, prefix string, out map[string]string) {
	if !m.IsValid() {
		return
	}
	m.Range(func(fd protoreflect.FieldDescriptor, v protoreflect.Value) bool {
		name := prefix + string(fd.Name())
		emit := func(key string, fd protoreflect.FieldDescriptor, v protoreflect.Value) {
			if fd.Kind() == protoreflect.MessageKind || fd.Kind() == protoreflect.GroupKind {
				sub := v.Message()
				if isWrapper(sub.Descriptor()) {
					f := sub.Descriptor().Fields().Get(0)
					out[key] = scalar(f, sub.Get(f))
					return
				}
				flattenMsg(sub, key+".", out)
				return
			}
			out[key] = scalar(fd, v)
		}
		switch {
		case fd.IsList():
			l := v.List()
			for i := 0; i < l.Len(); i++ {
				emit(fmt.Sprintf("%s[%d]", name, i+1), fd, l.Get(i))
			}
		case fd.IsMap():
			out[name] = "<map>"
		default:
			emit(name, fd, v)
		}
		return true
	})
}

// FlatKeys returns the sorted keys of a flat map.
func FlatKeys(m map[string]string) []string {
	ks := make([]string, 0, len(m))
	for k := range m {
		ks = append(ks, k)
	}
	sort.Strings(ks)
	return ks
}
