// Package lindrv records concurrent histories of the real rib package: a Flush of several
// network instances is paused in the middle (the post-change hook blocks on a chosen removal)
// while adder goroutines install entries; every call is stamped at invocation and at return.
// The histories are validated by TLC against GribiRIBConc (linearizability).
package lindrv

import (
	"fmt"
	"math/rand"
	"runtime"
	"sort"
	"strings"
	"sync"
	"sync/atomic"
	"time"

	"github.com/openconfig/gribigo/aft"
	"github.com/openconfig/gribigo/constants"
	"github.com/openconfig/gribigo/rib"
	"github.com/openconfig/ygot/ygot"

	aftpb "github.com/openconfig/gribi/v1/proto/gribi_aft"
	spb "github.com/openconfig/gribi/v1/proto/service"
	wpb "github.com/openconfig/ygot/proto/ywrapper"
)

// Op is one stamped call.
type Op struct {
	K    string   `json:"k"` // "add" | "flush"
	NIs  []string `json:"nis"`
	NI   string   `json:"ni"`
	Key  uint64   `json:"key"`
	Inv  int64    `json:"inv"`
	Ret  int64    `json:"ret"`
	Who  string   `json:"who"`
	Fail string   `json:"fail,omitempty"`
}

// Scenario is what is varied.
type Scenario struct {
	NIs      []string   // network instances of the RIB (first = default)
	FlushNIs []string   // what the Flush is asked to flush, in this order
	PauseNI  string     // the Flush is paused at the first removal in this instance
	Progs    [][]Target // adders: each installs its targets one after the other
	Pause    time.Duration
}

// Target is one install - or, with Flush set, a second Flush issued while the first one is paused.
type Target struct {
	NI    string
	Key   uint64
	Flush []string
}

// Event is the record written per scenario.
type Event struct {
	Ev        string              `json:"ev"`
	N         int                 `json:"n"`
	FlushNIs  []string            `json:"flushNIs"`
	PauseNI   string              `json:"pauseNI"`
	Initial   map[string][]uint64 `json:"initial"`
	Ops       []Op                `json:"ops"`
	Final     map[string][]uint64 `json:"final"`
	Completed bool                `json:"completed"`
	// Mirror: the next-hop keys per instance obtained by folding the post-change notifications (ADD / DELETE)
	Mirror  map[string][]uint64 `json:"mirror"`
	Overlap int                 `json:"overlap"` // adds acknowledged while the Flush was paused
}

func nhOp(id uint64, ni string, idx uint64) *spb.AFTOperation {
	return &spb.AFTOperation{Id: id, NetworkInstance: ni, Op: spb.AFTOperation_ADD,
		Entry: &spb.AFTOperation_NextHop{NextHop: &aftpb.Afts_NextHopKey{Index: idx, NextHop: &aftpb.Afts_NextHop{}}}}
}

func contents(r *rib.RIB, nis []string) (map[string][]uint64, error) {
	rc, err := r.RIBContents()
	if err != nil {
		return nil, err
	}
	out := map[string][]uint64{}
	for _, ni := range nis {
		ks := []uint64{}
		if c := rc[ni]; c != nil && c.Afts != nil {
			for k := range c.Afts.NextHop {
				ks = append(ks, k)
			}
		}
		sort.Slice(ks, func(i, j int) bool { return ks[i] < ks[j] })
		out[ni] = ks
	}
	return out, nil
}

// Run executes one scenario.
func Run(n int, sc Scenario) (Event, error) {
	ev := Event{Ev: "lin", N: n, FlushNIs: sc.FlushNIs, PauseNI: sc.PauseNI, Ops: []Op{}, Final: map[string][]uint64{}, Initial: map[string][]uint64{}, Mirror: map[string][]uint64{}}
	r := rib.New(sc.NIs[0])
	for _, ni := range sc.NIs[1:] {
		if err := r.AddNetworkInstance(ni); err != nil {
			return ev, err
		}
	}
	var opid uint64
	for _, ni := range sc.NIs {
		opid++
		if _, fails, err := r.AddEntry(ni, nhOp(opid, ni, 1)); err != nil || len(fails) != 0 {
			return ev, fmt.Errorf("initial install failed: %v %v", err, fails)
		}
	}
	var err error
	if ev.Initial, err = contents(r, sc.NIs); err != nil {
		return ev, err
	}

	var clock atomic.Int64
	var mu sync.Mutex
	ops := []Op{}
	record := func(o Op) { mu.Lock(); ops = append(ops, o); mu.Unlock() }
	var wg sync.WaitGroup
	var once sync.Once
	var ackedInPause atomic.Int64
	paused := atomic.Bool{}

	var running atomic.Int32
	startAdders := func() {
		for ai, prog := range sc.Progs {
			wg.Add(1)
			running.Add(1)
			go func(ai int, prog []Target) {
				defer wg.Done()
				defer running.Add(-1)
				for i, t := range prog {
					o := Op{K: "add", NIs: []string{}, NI: t.NI, Key: t.Key, Who: fmt.Sprintf("a%d.%d", ai+1, i+1)}
					if t.Flush != nil {
						o.K, o.NIs = "flush", t.Flush
						o.Inv = clock.Add(1)
						if err := r.Flush(t.Flush); err != nil {
							o.Fail = err.Error()
						}
						o.Ret = clock.Add(1)
					} else {
						id := atomic.AddUint64(&opid, 1)
						o.Inv = clock.Add(1)
						_, fails, err := r.AddEntry(t.NI, nhOp(id, t.NI, t.Key))
						o.Ret = clock.Add(1)
						if err != nil || len(fails) != 0 {
							o.Fail = fmt.Sprintf("%v %v", err, len(fails))
						}
					}
					if paused.Load() {
						ackedInPause.Add(1)
					}
					record(o)
				}
			}(ai, prog)
		}
	}

	var mmu sync.Mutex
	mirror := map[string]map[uint64]bool{}
	for ni, ks := range ev.Initial {
		mirror[ni] = map[uint64]bool{}
		for _, k := range ks {
			mirror[ni][k] = true
		}
	}
	r.SetPostChangeHook(func(op constants.OpType, _ int64, ni string, data ygot.ValidatedGoStruct) {
		if nh, ok := data.(*aft.Afts_NextHop); ok && nh != nil && nh.Index != nil {
			mmu.Lock()
			if mirror[ni] == nil {
				mirror[ni] = map[uint64]bool{}
			}
			switch op {
			case constants.Add:
				mirror[ni][*nh.Index] = true
			case constants.Delete:
				delete(mirror[ni], *nh.Index)
			}
			mmu.Unlock()
		}
		if op != constants.Delete || ni != sc.PauseNI {
			return
		}
		once.Do(func() {
			// in the middle of the Flush: let the adders run as far as they get
			paused.Store(true)
			startAdders()
			done := make(chan struct{})
			go func() { wg.Wait(); close(done) }()
			select {
			case <-done:
			case <-time.After(sc.Pause):
				// resume only when every adder that has not returned is parked on a lock of the RIB: none of them may be
				// between an install and its notification (the notification of an install is delivered after the lock
				// is released - see the directed scenario RunHookOrder)
				for dl := time.Now().Add(2 * time.Second); time.Now().Before(dl); time.Sleep(500 * time.Microsecond) {
					select {
					case <-done:
					default:
						if running.Load() == int32(lockWaiters()) {
							break
						}
						continue
					}
					break
				}
			}
			paused.Store(false)
		})
	})

	fl := Op{K: "flush", NIs: sc.FlushNIs, Who: "flush"}
	flushDone := make(chan struct{})
	go func() {
		fl.Inv = clock.Add(1)
		if err := r.Flush(sc.FlushNIs); err != nil {
			fl.Fail = err.Error()
		}
		fl.Ret = clock.Add(1)
		close(flushDone)
	}()
	all := make(chan struct{})
	go func() {
		<-flushDone
		once.Do(startAdders) // the pause instance had nothing to remove: run the adders after the Flush
		wg.Wait()
		close(all)
	}()
	select {
	case <-all:
		ev.Completed = true
	case <-time.After(15 * time.Second):
		return ev, nil // reported as a hang
	}
	record(fl)
	sort.Slice(ops, func(i, j int) bool { return ops[i].Inv < ops[j].Inv })
	ev.Ops = ops
	ev.Overlap = int(ackedInPause.Load())
	if ev.Final, err = contents(r, sc.NIs); err != nil {
		return ev, err
	}
	mmu.Lock()
	for _, ni := range sc.NIs {
		ks := []uint64{}
		for k := range mirror[ni] {
			ks = append(ks, k)
		}
		sort.Slice(ks, func(i, j int) bool { return ks[i] < ks[j] })
		ev.Mirror[ni] = ks
	}
	mmu.Unlock()
	return ev, nil
}

// Random draws a scenario.
func Random(rng *rand.Rand) Scenario {
	nis := []string{"DEFAULT", "vrf1", "vrf2"}
	fl := append([]string{}, nis...)
	switch rng.Intn(4) {
	case 0:
		rng.Shuffle(len(fl), func(i, j int) { fl[i], fl[j] = fl[j], fl[i] })
	case 1:
		fl = fl[:2]
	}
	sc := Scenario{NIs: nis, FlushNIs: fl, PauseNI: fl[rng.Intn(len(fl))], Pause: 15 * time.Millisecond}
	na := 1 + rng.Intn(2)
	key := uint64(100)
	for a := 0; a < na; a++ {
		prog := []Target{}
		for i, k := 0, 1+rng.Intn(2); i < k; i++ {
			key += 100
			prog = append(prog, Target{NI: nis[rng.Intn(len(nis))], Key: key})
		}
		sc.Progs = append(sc.Progs, prog)
	}
	return sc
}

// Directed returns the scenarios that probe every (already flushed, being flushed, not yet reached) combination.
func Directed() []Scenario {
	nis := []string{"DEFAULT", "vrf1", "vrf2"}
	out := []Scenario{}
	for _, pause := range nis {
		for _, first := range nis {
			for _, second := range nis {
				out = append(out, Scenario{NIs: nis, FlushNIs: nis, PauseNI: pause, Pause: 15 * time.Millisecond,
					Progs: [][]Target{{{NI: first, Key: 100}, {NI: second, Key: 200}}}})
			}
		}
	}
	// re-ADD of the key the Flush is removing (key 1 is installed in every instance): the notifications must tell the same story
	for _, pause := range nis {
		for _, target := range nis {
			out = append(out, Scenario{NIs: nis, FlushNIs: nis, PauseNI: pause, Pause: 15 * time.Millisecond,
				Progs: [][]Target{{{NI: target, Key: 1}}, {{NI: target, Key: 100}}}})
		}
	}
	// a second Flush of all instances issued while the first one is paused in each of them (lock order between Flushes)
	for _, pause := range nis {
		for rep := 0; rep < 3; rep++ {
			out = append(out, Scenario{NIs: nis, FlushNIs: nis, PauseNI: pause, Pause: 15 * time.Millisecond,
				Progs: [][]Target{{{Flush: nis}, {NI: nis[rep], Key: 100}}}})
		}
	}
	return out
}

// ---------------------------------------------------------------------------
// Get while an installed entry is being replaced: the entry is installed before the first Get starts and is
// never deleted (every REPLACE / re-ADD swaps its payload in one step), so every Get must return it.

// GetEvent is the record of one Get-vs-replace scenario.
type GetEvent struct {
	Ev       string `json:"ev"`
	N        int    `json:"n"`
	Kind     string `json:"kind"`
	Replaces int    `json:"replaces"`
	Gets     int    `json:"gets"`
	Missing  int    `json:"missing"` // Gets that did not return the entry
	Dup      int    `json:"dup"`     // Gets that returned it more than once
	Failed   string `json:"failed"`
}

func topOp(id uint64, kind string, typ spb.AFTOperation_Operation, variant uint64) *spb.AFTOperation {
	op := &spb.AFTOperation{Id: id, NetworkInstance: "DEFAULT", Op: typ}
	md := []byte{byte(variant)}
	switch kind {
	case "v4":
		op.Entry = &spb.AFTOperation_Ipv4{Ipv4: &aftpb.Afts_Ipv4EntryKey{Prefix: "10.9.0.0/24", Ipv4Entry: &aftpb.Afts_Ipv4Entry{
			NextHopGroup: &wpb.UintValue{Value: 1}, EntryMetadata: &wpb.BytesValue{Value: md}}}}
	case "v6":
		op.Entry = &spb.AFTOperation_Ipv6{Ipv6: &aftpb.Afts_Ipv6EntryKey{Prefix: "2001:db8:9::/48", Ipv6Entry: &aftpb.Afts_Ipv6Entry{
			NextHopGroup: &wpb.UintValue{Value: 1}, EntryMetadata: &wpb.BytesValue{Value: md}}}}
	case "mpls":
		op.Entry = &spb.AFTOperation_Mpls{Mpls: &aftpb.Afts_LabelEntryKey{Label: &aftpb.Afts_LabelEntryKey_LabelUint64{LabelUint64: 1009},
			LabelEntry: &aftpb.Afts_LabelEntry{NextHopGroup: &wpb.UintValue{Value: 1}, EntryMetadata: &wpb.BytesValue{Value: md}}}}
	case "nhg":
		op.Entry = &spb.AFTOperation_NextHopGroup{NextHopGroup: &aftpb.Afts_NextHopGroupKey{Id: 1, NextHopGroup: &aftpb.Afts_NextHopGroup{
			Color: &wpb.UintValue{Value: variant}, NextHop: []*aftpb.Afts_NextHopGroup_NextHopKey{{Index: 1, NextHop: &aftpb.Afts_NextHopGroup_NextHop{Weight: &wpb.UintValue{Value: 1 + variant%3}}}}}}}
	case "nh":
		op.Entry = &spb.AFTOperation_NextHop{NextHop: &aftpb.Afts_NextHopKey{Index: 1, NextHop: &aftpb.Afts_NextHop{
			IpAddress: &wpb.StringValue{Value: fmt.Sprintf("192.0.2.%d", 1+variant%200)}}}}
	}
	return op
}

func aftOf(kind string) spb.AFTType {
	return map[string]spb.AFTType{"v4": spb.AFTType_IPV4, "v6": spb.AFTType_IPV6, "mpls": spb.AFTType_MPLS, "nhg": spb.AFTType_NEXTHOP_GROUP, "nh": spb.AFTType_NEXTHOP}[kind]
}

func hasEntry(kind string, rs []*spb.GetResponse) int {
	n := 0
	for _, r := range rs {
		for _, e := range r.GetEntry() {
			switch kind {
			case "v4":
				if e.GetIpv4().GetPrefix() == "10.9.0.0/24" {
					n++
				}
			case "v6":
				if e.GetIpv6().GetPrefix() == "2001:db8:9::/48" {
					n++
				}
			case "mpls":
				if e.GetMpls().GetLabelUint64() == 1009 {
					n++
				}
			case "nhg":
				if e.GetNextHopGroup().GetId() == 1 {
					n++
				}
			case "nh":
				if e.GetNextHop().GetIndex() == 1 {
					n++
				}
			}
		}
	}
	return n
}

// RunGet executes one Get-vs-replace scenario.
func RunGet(n int, kind string, replaces int) GetEvent {
	ev := GetEvent{Ev: "linget", N: n, Kind: kind, Replaces: replaces}
	r := rib.New("DEFAULT")
	var id uint64
	for _, k := range []string{"nh", "nhg", kind} {
		id++
		if _, fails, err := r.AddEntry("DEFAULT", topOp(id, k, spb.AFTOperation_ADD, 0)); err != nil || len(fails) != 0 {
			ev.Failed = fmt.Sprintf("initial install of %s failed: %v %d", k, err, len(fails))
			return ev
		}
	}
	holder, _ := r.NetworkInstanceRIB("DEFAULT")
	done := make(chan struct{})
	go func() {
		defer close(done)
		for i := 1; i <= replaces; i++ {
			id++
			typ := spb.AFTOperation_REPLACE
			if i%2 == 0 {
				typ = spb.AFTOperation_ADD
			}
			if _, fails, err := r.AddEntry("DEFAULT", topOp(id, kind, typ, uint64(i))); err != nil || len(fails) != 0 {
				ev.Failed = fmt.Sprintf("replace %d failed: %v %d", i, err, len(fails))
				return
			}
		}
	}()
	get := func() int {
		msgCh := make(chan *spb.GetResponse)
		stop := make(chan struct{})
		var got []*spb.GetResponse
		fin := make(chan error, 1)
		go func() { fin <- holder.GetRIB(map[spb.AFTType]bool{aftOf(kind): true}, msgCh, stop) }()
		for {
			select {
			case m := <-msgCh:
				got = append(got, m)
			case <-fin:
				return hasEntry(kind, got)
			}
		}
	}
	deadline := time.Now().Add(20 * time.Second)
	for running := true; running && time.Now().Before(deadline); {
		select {
		case <-done:
			running = false
		default:
		}
		ev.Gets++
		gc := make(chan int, 1)
		go func() { gc <- get() }()
		select {
		case c := <-gc:
			switch {
			case c == 0:
				ev.Missing++
			case c > 1:
				ev.Dup++
			}
		case <-time.After(15 * time.Second):
			ev.Failed = fmt.Sprintf("hang: a Get concurrent with replaces did not return within 15 s (blocked: %v)", blockedInRib())
			return ev
		}
	}
	select {
	case <-done:
	case <-time.After(15 * time.Second):
		ev.Failed = fmt.Sprintf("hang: the replaces did not finish (blocked: %v)", blockedInRib())
	}
	return ev
}

// blockedInRib lists goroutines parked inside the rib package.
func blockedInRib() []string {
	buf := make([]byte, 1<<20)
	buf = buf[:runtime.Stack(buf, true)]
	out := []string{}
	for _, g := range strings.Split(string(buf), "\n\n") {
		if strings.Contains(g, "gribigo/rib.") && (strings.Contains(g, "sync.") || strings.Contains(g, "chan send") || strings.Contains(g, "chan receive")) {
			out = append(out, strings.SplitN(g, "\n", 2)[0])
			if len(out) >= 4 {
				break
			}
		}
	}
	return out
}

// ---------------------------------------------------------------------------
// DELETE of a referenced next-hop while the referring group is being re-sent: the group contains the next-hop
// before, during and after every replace, so every DELETE must be answered FAILED.

// RefEvent is the record of one delete-vs-replace scenario.
type RefEvent struct {
	Ev       string `json:"ev"`
	N        int    `json:"n"`
	Replaces int    `json:"replaces"`
	Deletes  int    `json:"deletes"`
	Accepted int    `json:"accepted"` // DELETEs of a referenced next-hop (or group) that were answered OK
	What     string `json:"what"`
	Failed   string `json:"failed"`
}

// RunRef executes one delete-vs-replace scenario; mode "nh": a group is re-sent while its members are deleted;
// mode "nhg": an IPv4 entry is re-sent while the group it points at is deleted.
func RunRef(n int, mode string, replaces int) RefEvent {
	ev := RefEvent{Ev: "linref", N: n, Replaces: replaces, What: mode}
	r := rib.New("DEFAULT")
	var id uint64
	const members = 8
	grp := func(variant uint64) *spb.AFTOperation {
		g := &aftpb.Afts_NextHopGroup{Color: &wpb.UintValue{Value: variant}}
		for i := uint64(1); i <= members; i++ {
			g.NextHop = append(g.NextHop, &aftpb.Afts_NextHopGroup_NextHopKey{Index: i, NextHop: &aftpb.Afts_NextHopGroup_NextHop{Weight: &wpb.UintValue{Value: 1 + variant%3}}})
		}
		id++
		typ := spb.AFTOperation_ADD
		if variant%2 == 1 {
			typ = spb.AFTOperation_REPLACE
		}
		return &spb.AFTOperation{Id: id, NetworkInstance: "DEFAULT", Op: typ, Entry: &spb.AFTOperation_NextHopGroup{NextHopGroup: &aftpb.Afts_NextHopGroupKey{Id: 1, NextHopGroup: g}}}
	}
	for i := uint64(1); i <= members; i++ {
		id++
		if _, fails, err := r.AddEntry("DEFAULT", nhOp(id, "DEFAULT", i)); err != nil || len(fails) != 0 {
			ev.Failed = "initial next-hop install failed"
			return ev
		}
	}
	if _, fails, err := r.AddEntry("DEFAULT", grp(0)); err != nil || len(fails) != 0 {
		ev.Failed = "initial group install failed"
		return ev
	}
	id++
	if _, fails, err := r.AddEntry("DEFAULT", topOp(id, "v4", spb.AFTOperation_ADD, 0)); err != nil || len(fails) != 0 {
		ev.Failed = "initial prefix install failed"
		return ev
	}
	var mu sync.Mutex // serialises id allocation only
	next := func() uint64 { mu.Lock(); defer mu.Unlock(); id++; return id }
	done := make(chan struct{})
	go func() {
		defer close(done)
		for i := 1; i <= replaces; i++ {
			var op *spb.AFTOperation
			if mode == "nh" {
				mu.Lock()
				op = grp(uint64(i))
				mu.Unlock()
			} else {
				typ := spb.AFTOperation_REPLACE
				if i%2 == 0 {
					typ = spb.AFTOperation_ADD
				}
				op = topOp(next(), "v4", typ, uint64(i))
			}
			if _, fails, err := r.AddEntry("DEFAULT", op); err != nil || len(fails) != 0 {
				ev.Failed = fmt.Sprintf("replace %d failed: %v %d", i, err, len(fails))
				return
			}
		}
	}()
	deadline := time.Now().Add(20 * time.Second)
	for k := uint64(0); time.Now().Before(deadline); k++ {
		select {
		case <-done:
			return ev
		default:
		}
		del := &spb.AFTOperation{Id: next(), NetworkInstance: "DEFAULT", Op: spb.AFTOperation_DELETE}
		if mode == "nh" {
			del.Entry = &spb.AFTOperation_NextHop{NextHop: &aftpb.Afts_NextHopKey{Index: 1 + k%members}}
		} else {
			del.Entry = &spb.AFTOperation_NextHopGroup{NextHopGroup: &aftpb.Afts_NextHopGroupKey{Id: 1}}
		}
		type dres struct {
			oks []*rib.OpResult
			err error
		}
		dc := make(chan dres, 1)
		go func() { o, _, e := r.DeleteEntry("DEFAULT", del); dc <- dres{o, e} }()
		var oks []*rib.OpResult
		var err error
		select {
		case x := <-dc:
			oks, err = x.oks, x.err
		case <-time.After(15 * time.Second):
			ev.Failed = fmt.Sprintf("hang: a DELETE concurrent with replaces did not return within 15 s (blocked: %v)", blockedInRib())
			return ev
		}
		ev.Deletes++
		if err == nil && len(oks) > 0 {
			ev.Accepted++
			<-done // the RIB is inconsistent from here on: one observation is enough
			return ev
		}
	}
	<-done
	return ev
}

// lockWaiters counts the goroutines of this package's adders that are parked acquiring a lock of the rib package.
func lockWaiters() int {
	buf := make([]byte, 1<<20)
	buf = buf[:runtime.Stack(buf, true)]
	n := 0
	for _, g := range strings.Split(string(buf), "\n\n") {
		if strings.Contains(g, "lindrv.Run.func") && strings.Contains(g, "gribigo/rib.") &&
			(strings.Contains(g, "sync.(*RWMutex).Lock") || strings.Contains(g, "sync.(*RWMutex).RLock") || strings.Contains(g, "sync.(*Mutex).Lock")) {
			n++
		}
	}
	return n
}

// ---------------------------------------------------------------------------
// The order of notifications between an install and a Flush: the notification of an install is delivered after the
// instance lock has been released, that of a Flush removal while it is held. A consumer whose ADD notification is in
// flight when a Flush of that instance runs sees DELETE k before ADD k, and ends with k although the RIB is empty.

// HookEvent is the record of the directed notification-order scenario.
type HookEvent struct {
	Ev     string   `json:"ev"`
	Mirror []uint64 `json:"mirror"`
	Final  []uint64 `json:"final"`
	Failed string   `json:"failed"`
}

// RunHookOrder executes the scenario.
func RunHookOrder() HookEvent {
	ev := HookEvent{Ev: "linhook", Mirror: []uint64{}, Final: []uint64{}}
	r := rib.New("DEFAULT")
	var mu sync.Mutex
	mirror := map[uint64]bool{}
	inAdd, release := make(chan struct{}), make(chan struct{})
	var once sync.Once
	r.SetPostChangeHook(func(op constants.OpType, _ int64, _ string, d ygot.ValidatedGoStruct) {
		n, ok := d.(*aft.Afts_NextHop)
		if !ok || n == nil || n.Index == nil {
			return
		}
		if op == constants.Add && *n.Index == 7 {
			once.Do(func() { close(inAdd); <-release }) // the consumer is slow to take this notification
		}
		mu.Lock()
		switch op {
		case constants.Add:
			mirror[*n.Index] = true
		case constants.Delete:
			delete(mirror, *n.Index)
		}
		mu.Unlock()
	})
	added := make(chan struct{})
	go func() { r.AddEntry("DEFAULT", nhOp(1, "DEFAULT", 7)); close(added) }()
	select {
	case <-inAdd:
	case <-time.After(5 * time.Second):
		ev.Failed = "the ADD notification was never delivered"
		return ev
	}
	fl := make(chan error, 1)
	go func() { fl <- r.Flush([]string{"DEFAULT"}) }()
	select {
	case err := <-fl:
		if err != nil {
			ev.Failed = "flush: " + err.Error()
		}
	case <-time.After(5 * time.Second):
		// the Flush waits for the notification to be taken: that order is consistent
	}
	close(release)
	<-added
	select {
	case <-fl:
	case <-time.After(5 * time.Second):
		ev.Failed = "the Flush did not return"
	default:
	}
	time.Sleep(2 * time.Millisecond)
	fin, err := contents(r, []string{"DEFAULT"})
	if err != nil {
		ev.Failed = err.Error()
		return ev
	}
	ev.Final = fin["DEFAULT"]
	mu.Lock()
	for k := range mirror {
		ev.Mirror = append(ev.Mirror, k)
	}
	mu.Unlock()
	sort.Slice(ev.Mirror, func(i, j int) bool { return ev.Mirror[i] < ev.Mirror[j] })
	return ev
}

// ---------------------------------------------------------------------------
// Get is a snapshot: a Get(ALL) whose consumer is slow is in progress while one goroutine issues two installs one
// after the other, W1 into a table that is dumped early and then W2 into a table that is dumped late. What the Get
// returns must be the contents at one moment: the base, the base with W1, or the base with W1 and W2 - never W2 without W1.

// SnapEvent is the record of one snapshot scenario.
type SnapEvent struct {
	Ev     string   `json:"ev"`
	N      int      `json:"n"`
	Base   []string `json:"base"`
	W1     string   `json:"w1"`
	W2     string   `json:"w2"`
	Got    []string `json:"got"`
	Failed string   `json:"failed"`
}

func snapKey(e *spb.AFTEntry) string {
	switch {
	case e.GetIpv4() != nil:
		return "v4:" + e.GetIpv4().GetPrefix()
	case e.GetIpv6() != nil:
		return "v6:" + e.GetIpv6().GetPrefix()
	case e.GetMpls() != nil:
		return fmt.Sprintf("mpls:%d", e.GetMpls().GetLabelUint64())
	case e.GetNextHopGroup() != nil:
		return fmt.Sprintf("nhg:%d", e.GetNextHopGroup().GetId())
	case e.GetNextHop() != nil:
		return fmt.Sprintf("nh:%d", e.GetNextHop().GetIndex())
	}
	return "?"
}

func snapOp(id uint64, key string) *spb.AFTOperation {
	op := &spb.AFTOperation{Id: id, NetworkInstance: "DEFAULT", Op: spb.AFTOperation_ADD}
	kind, k, _ := strings.Cut(key, ":")
	g := &wpb.UintValue{Value: 1}
	switch kind {
	case "v4":
		op.Entry = &spb.AFTOperation_Ipv4{Ipv4: &aftpb.Afts_Ipv4EntryKey{Prefix: k, Ipv4Entry: &aftpb.Afts_Ipv4Entry{NextHopGroup: g}}}
	case "v6":
		op.Entry = &spb.AFTOperation_Ipv6{Ipv6: &aftpb.Afts_Ipv6EntryKey{Prefix: k, Ipv6Entry: &aftpb.Afts_Ipv6Entry{NextHopGroup: g}}}
	case "mpls":
		var l uint64
		fmt.Sscan(k, &l)
		op.Entry = &spb.AFTOperation_Mpls{Mpls: &aftpb.Afts_LabelEntryKey{Label: &aftpb.Afts_LabelEntryKey_LabelUint64{LabelUint64: l}, LabelEntry: &aftpb.Afts_LabelEntry{NextHopGroup: g}}}
	case "nhg":
		var i uint64
		fmt.Sscan(k, &i)
		op.Entry = &spb.AFTOperation_NextHopGroup{NextHopGroup: &aftpb.Afts_NextHopGroupKey{Id: i, NextHopGroup: &aftpb.Afts_NextHopGroup{
			NextHop: []*aftpb.Afts_NextHopGroup_NextHopKey{{Index: 1, NextHop: &aftpb.Afts_NextHopGroup_NextHop{Weight: &wpb.UintValue{Value: 1}}}}}}}
	case "nh":
		var i uint64
		fmt.Sscan(k, &i)
		op.Entry = &spb.AFTOperation_NextHop{NextHop: &aftpb.Afts_NextHopKey{Index: i, NextHop: &aftpb.Afts_NextHop{IpAddress: &wpb.StringValue{Value: "192.0.2.7"}}}}
	}
	return op
}

// SnapVariants are the (W1, W2) pairs: W1's table is dumped before W2's (IPv4, IPv6, MPLS, groups, next-hops).
var SnapVariants = [][2]string{{"v4:10.9.3.0/24", "nh:3"}, {"v6:2001:db8:93::/48", "nhg:3"}, {"mpls:1093", "nh:4"}, {"v4:10.9.4.0/24", "v6:2001:db8:94::/48"}, {"nhg:4", "nh:5"}}

// RunSnap executes one snapshot scenario.
func RunSnap(n int, v [2]string) SnapEvent {
	ev := SnapEvent{Ev: "linsnap", N: n, Base: []string{}, W1: v[0], W2: v[1], Got: []string{}}
	r := rib.New("DEFAULT")
	var id uint64
	for _, k := range []string{"nh:1", "nh:2", "nhg:1", "nhg:2", "v4:10.9.0.0/24", "v4:10.9.1.0/24", "v6:2001:db8:9::/48", "v6:2001:db8:91::/48", "mpls:1009", "mpls:1010"} {
		id++
		if _, fails, err := r.AddEntry("DEFAULT", snapOp(id, k)); err != nil || len(fails) != 0 {
			ev.Failed = fmt.Sprintf("initial install of %s failed: %v %d", k, err, len(fails))
			return ev
		}
		ev.Base = append(ev.Base, k)
	}
	holder, _ := r.NetworkInstanceRIB("DEFAULT")
	msgCh := make(chan *spb.GetResponse)
	stop := make(chan struct{})
	fin := make(chan error, 1)
	go func() { fin <- holder.GetRIB(map[spb.AFTType]bool{spb.AFTType_ALL: true}, msgCh, stop) }()
	take := func() (bool, error) {
		select {
		case m := <-msgCh:
			for _, e := range m.GetEntry() {
				ev.Got = append(ev.Got, snapKey(e))
			}
			return true, nil
		case err := <-fin:
			return false, err
		case <-time.After(15 * time.Second):
			return false, fmt.Errorf("hang: the Get produced nothing for 15 s (blocked: %v)", blockedInRib())
		}
	}
	// the Get is under way (the producer holds what it holds while it offers the second response)
	if ok, err := take(); !ok {
		ev.Failed = fmt.Sprintf("the Get ended before its first response: %v", err)
		return ev
	}
	wdone := make(chan string, 1)
	go func() {
		for i, k := range v {
			if _, fails, err := r.AddEntry("DEFAULT", snapOp(100+uint64(i), k)); err != nil || len(fails) != 0 {
				wdone <- fmt.Sprintf("install of %s failed: %v %d", k, err, len(fails))
				return
			}
		}
		wdone <- ""
	}()
	// a slow consumer: the writer has time to queue up behind whatever the producer holds
	for {
		time.Sleep(2 * time.Millisecond)
		ok, err := take()
		if !ok {
			if err != nil {
				ev.Failed = fmt.Sprint(err)
			}
			break
		}
	}
	select {
	case msg := <-wdone:
		if msg != "" && ev.Failed == "" {
			ev.Failed = msg
		}
	case <-time.After(15 * time.Second):
		if ev.Failed == "" {
			ev.Failed = fmt.Sprintf("hang: the installs issued during the Get did not return after it (blocked: %v)", blockedInRib())
		}
	}
	sort.Strings(ev.Got)
	return ev
}

// ---------------------------------------------------------------------------
// Two Gets of one network instance at the same time, nothing being written: Get A (one table) is read slowly; after its
// first response Get B (another scope) is started and read to its end; then A is drained. Each returns exactly its scope.

// TwoGetEvent is the record of one such scenario.
type TwoGetEvent struct {
	Ev     string   `json:"ev"`
	N      int      `json:"n"`
	WantA  []string `json:"wantA"`
	WantB  []string `json:"wantB"`
	GotA   []string `json:"gotA"`
	GotB   []string `json:"gotB"`
	Failed string   `json:"failed"`
}

// TwoGetVariants are the (scope of A, scope of B) pairs.
var TwoGetVariants = [][2]spb.AFTType{{spb.AFTType_IPV4, spb.AFTType_NEXTHOP}, {spb.AFTType_IPV4, spb.AFTType_ALL}, {spb.AFTType_ALL, spb.AFTType_IPV6}, {spb.AFTType_NEXTHOP_GROUP, spb.AFTType_MPLS}}

// RunTwoGets executes one scenario.
func RunTwoGets(n int, v [2]spb.AFTType) TwoGetEvent {
	ev := TwoGetEvent{Ev: "lintwoget", N: n, WantA: []string{}, WantB: []string{}, GotA: []string{}, GotB: []string{}}
	r := rib.New("DEFAULT")
	var id uint64
	base := []string{"nh:1", "nh:2", "nh:3", "nh:4", "nhg:1", "nhg:2", "nhg:3", "v4:10.9.0.0/24", "v4:10.9.1.0/24", "v4:10.9.2.0/24", "v4:10.9.3.0/24",
		"v6:2001:db8:9::/48", "v6:2001:db8:91::/48", "mpls:1009", "mpls:1010", "mpls:1011"}
	for _, k := range base {
		id++
		if _, fails, err := r.AddEntry("DEFAULT", snapOp(id, k)); err != nil || len(fails) != 0 {
			ev.Failed = fmt.Sprintf("initial install of %s failed: %v %d", k, err, len(fails))
			return ev
		}
	}
	scope := func(t spb.AFTType) []string {
		pfx := map[spb.AFTType]string{spb.AFTType_IPV4: "v4:", spb.AFTType_IPV6: "v6:", spb.AFTType_MPLS: "mpls:", spb.AFTType_NEXTHOP_GROUP: "nhg:", spb.AFTType_NEXTHOP: "nh:"}[t]
		out := []string{}
		for _, k := range base {
			if t == spb.AFTType_ALL || strings.HasPrefix(k, pfx) {
				out = append(out, k)
			}
		}
		sort.Strings(out)
		return out
	}
	ev.WantA, ev.WantB = scope(v[0]), scope(v[1])
	holder, _ := r.NetworkInstanceRIB("DEFAULT")
	type get struct {
		ch  chan *spb.GetResponse
		fin chan error
		got *[]string
	}
	start := func(t spb.AFTType, got *[]string) *get {
		g := &get{ch: make(chan *spb.GetResponse), fin: make(chan error, 1), got: got}
		go func() { g.fin <- holder.GetRIB(map[spb.AFTType]bool{t: true}, g.ch, make(chan struct{})) }()
		return g
	}
	take := func(g *get) (bool, error) {
		select {
		case m := <-g.ch:
			for _, e := range m.GetEntry() {
				*g.got = append(*g.got, snapKey(e))
			}
			return true, nil
		case err := <-g.fin:
			return false, err
		case <-time.After(15 * time.Second):
			return false, fmt.Errorf("hang: a Get produced nothing for 15 s (blocked: %v)", blockedInRib())
		}
	}
	a := start(v[0], &ev.GotA)
	if ok, err := take(a); !ok {
		ev.Failed = fmt.Sprintf("Get A ended before its first response: %v", err)
		return ev
	}
	b := start(v[1], &ev.GotB)
	for {
		ok, err := take(b)
		if !ok {
			if err != nil {
				ev.Failed = "Get B: " + err.Error()
			}
			break
		}
	}
	for ev.Failed == "" {
		ok, err := take(a)
		if !ok {
			if err != nil {
				ev.Failed = "Get A: " + err.Error()
			}
			break
		}
	}
	sort.Strings(ev.GotA)
	sort.Strings(ev.GotB)
	return ev
}
