// Command vh is the Go side of the conformance checks: it replays input
// sequences emitted by TLC (and seeded random ones) into the real gribigo
// packages built from /repo with -tags verif and records traces for TLC.
package main

import (
	"flag"
	"fmt"
	"os"

	log "github.com/golang/glog"
)

var cmds = map[string]func(args []string) error{}

func main() {
	if len(os.Args) < 2 {
		fmt.Fprintln(os.Stderr, "usage: vh <command> [flags]")
		for c := range cmds {
			fmt.Fprintln(os.Stderr, "  ", c)
		}
		os.Exit(2)
	}
	// glog: nothing to /tmp
	logdir := os.Getenv("VH_LOGDIR")
	if logdir == "" {
		logdir = ".vhlogs"
	}
	os.MkdirAll(logdir, 0o755)
	flag.Set("log_dir", logdir)
	flag.Set("logtostderr", "false")
	flag.Set("alsologtostderr", "false")
	flag.Set("stderrthreshold", "FATAL")
	_ = log.V
	c, ok := cmds[os.Args[1]]
	if !ok {
		fmt.Fprintf(os.Stderr, "unknown command %q\n", os.Args[1])
		os.Exit(2)
	}
	if err := c(os.Args[2:]); err != nil {
		fmt.Fprintf(os.Stderr, "vh %s: %v\n", os.Args[1], err)
		os.Exit(2)
	}
}
