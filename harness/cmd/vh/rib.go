package main

import (
	"bufio"
	"encoding/json"
	"flag"
	"fmt"
	"math/rand"
	"os"
	"strings"

	"verif/harness/ribdrv"
)

func init() { cmds["rib-run"] = ribRun }

// readWalks reads input sequences: one JSON array per line, optionally
// prefixed by "@@" and wrapped in a JSON string (TLC PrintT output).
func readWalks(path string, fn func([]ribdrv.Input) error) (int, error) {
	f, err := os.Open(path)
	if err != nil {
		return 0, err
	}
	defer f.Close()
	sc := bufio.NewScanner(f)
	sc.Buffer(make([]byte, 1<<20), 1<<28)
	n := 0
	seen := map[string]bool{}
	for sc.Scan() {
		line := strings.TrimSpace(sc.Text())
		if strings.HasPrefix(line, "\"@@") {
			var s string
			if err := json.Unmarshal([]byte(line), &s); err != nil {
				return n, fmt.Errorf("bad quoted line: %v", err)
			}
			line = s
		}
		if !strings.HasPrefix(line, "@@") {
			continue
		}
		line = line[2:]
		if seen[line] {
			continue
		}
		seen[line] = true
		var ins []ribdrv.Input
		if err := json.Unmarshal([]byte(line), &ins); err != nil {
			return n, fmt.Errorf("bad walk %q: %v", line, err)
		}
		if err := fn(ins); err != nil {
			return n, err
		}
		n++
	}
	return n, sc.Err()
}

func ribRun(args []string) error {
	fs := flag.NewFlagSet("rib-run", flag.ExitOnError)
	in := fs.String("in", "", "file of TLC-emitted input sequences")
	out := fs.String("out", "", "trace file (NDJSON)")
	nrand := fs.Int("random", 0, "number of random sequences")
	rlen := fs.Int("len", 60, "length of random sequences")
	seed := fs.Int64("seed", 1, "seed")
	hookFirst := fs.Bool("hook-first", true, "register the post-change hook before creating the other instances")
	reuse := fs.Int("reuse", 0, "percentage of id reuse in random sequences")
	bad := fs.Int("bad", -1, "percentage of malformed operations in random sequences (-1 = default)")
	nochecks := fs.Int("nochecks", 0, "replay that many of the input sequences a second time on a RIB without reference checks (mirror oracle only)")
	small := fs.Int("small", 0, "percentage of random sequences over the small, state-aware alphabet")
	fs.Parse(args)
	w, err := os.Create(*out)
	if err != nil {
		return err
	}
	defer w.Close()
	bw := bufio.NewWriterSize(w, 1<<20)
	defer bw.Flush()
	sink := &ribdrv.WriterSink{W: bw}
	rn := &ribdrv.Runner{Sink: sink, HookBeforeNIs: *hookFirst}
	walks := 0
	if *in != "" {
		n, err := readWalks(*in, func(ins []ribdrv.Input) error { return rn.Run(ins) })
		if err != nil {
			return err
		}
		walks += n
	}
	rng := rand.New(rand.NewSource(*seed))
	for i := 0; i < *nrand; i++ {
		c := ribdrv.DefaultRandomCfg()
		if rng.Intn(100) < *small {
			c = ribdrv.SmallRandomCfg()
		}
		c.Len = *rlen
		if *bad >= 0 {
			c.BadPct = *bad
		}
		c.ReusePct = *reuse
		if err := rn.Run(ribdrv.Random(rng, c)); err != nil {
			return err
		}
		walks++
	}
	rn.Close()
	if *nochecks > 0 && *in != "" && rn.Hangs == 0 && rn.Panics == 0 {
		un := &ribdrv.Runner{Sink: ribdrv.UncheckedSink{To: sink}, HookBeforeNIs: *hookFirst, NoChecks: true}
		left := *nochecks
		if _, err := readWalks(*in, func(ins []ribdrv.Input) error {
			if left <= 0 {
				return nil
			}
			left--
			return un.Run(ins)
		}); err != nil {
			return err
		}
		un.Close()
		rn.Calls += un.Calls
		rn.Panics += un.Panics
		rn.Hangs += un.Hangs
	}
	fmt.Printf("{\"walks\":%d,\"calls\":%d,\"events\":%d,\"panics\":%d,\"hangs\":%d}\n", walks, rn.Calls, sink.N, rn.Panics, rn.Hangs)
	return nil
}
