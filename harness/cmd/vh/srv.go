package main

import (
	"bufio"
	"encoding/json"
	"flag"
	"fmt"
	"math/rand"
	"os"
	"strings"

	"verif/harness/ribdrv"
	"verif/harness/srvdrv"
)

func init() { cmds["srv-run"] = srvRun }

func readSrvWalks(path string, fn func([]srvdrv.Input) error) (int, error) {
	f, err := os.Open(path)
	if err != nil {
		return 0, err
	}
	defer f.Close()
	sc := bufio.NewScanner(f)
	sc.Buffer(make([]byte, 1<<20), 1<<28)
	n := 0
	seen := map[string]bool{}
	for sc.Scan() {
		line := strings.TrimSpace(sc.Text())
		if !strings.HasPrefix(line, "@@") {
			continue
		}
		line = line[2:]
		if seen[line] {
			continue
		}
		seen[line] = true
		var ins []srvdrv.Input
		if err := json.Unmarshal([]byte(line), &ins); err != nil {
			return n, fmt.Errorf("bad walk %q: %v", line, err)
		}
		if err := fn(ins); err != nil {
			return n, err
		}
		n++
	}
	return n, sc.Err()
}

func srvRun(args []string) error {
	fs := flag.NewFlagSet("srv-run", flag.ExitOnError)
	in := fs.String("in", "", "file of TLC-emitted input sequences")
	out := fs.String("out", "", "trace file (NDJSON)")
	nrand := fs.Int("random", 0, "number of random sequences")
	rlen := fs.Int("len", 40, "length of random sequences")
	seed := fs.Int64("seed", 1, "seed")
	profile := fs.String("profile", "mixed", "random profile: mixed | elec | fsm | ops | get | flush")
	getStall := fs.Duration("getstall", 0, "Gets marked stall (and one other Get of this run) are read by a consumer that stalls for this long after the first response")
	fs.Parse(args)
	w, err := os.Create(*out)
	if err != nil {
		return err
	}
	defer w.Close()
	bw := bufio.NewWriterSize(w, 1<<20)
	defer bw.Flush()
	sink := &ribdrv.WriterSink{W: bw}
	rn := &srvdrv.Runner{Sink: sink, GetStall: *getStall}
	if *getStall > 0 {
		rn.StallsLeft = 1
	}
	run := func(ins []srvdrv.Input) error {
		for i, x := range ins {
			if err := rn.Step(x); err != nil {
				return fmt.Errorf("step %d: %v", i, err)
			}
		}
		return nil
	}
	walks := 0
	if *in != "" {
		n, err := readSrvWalks(*in, run)
		if err != nil {
			return err
		}
		walks += n
	}
	rng := rand.New(rand.NewSource(*seed))
	for i := 0; i < *nrand; i++ {
		if err := run(srvdrv.Random(rng, *profile, *rlen)); err != nil {
			return err
		}
		walks++
	}
	rn.Close()
	fmt.Printf("{\"walks\":%d,\"steps\":%d,\"events\":%d,\"panics\":%d,\"hangs\":%d,\"slow_gets\":%d}\n", walks, rn.Steps, sink.N, rn.Panics, rn.Hangs, rn.Stalled)
	return nil
}
