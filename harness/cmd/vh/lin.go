package main

import (
	"bufio"
	"flag"
	"fmt"
	"math/rand"
	"os"

	"verif/harness/lindrv"
	"verif/harness/procdrv"
)

func init() { cmds["lin-run"] = linRun }

// lin-run records concurrent Flush / install histories of the real rib package.
func linRun(args []string) error {
	fs := flag.NewFlagSet("lin-run", flag.ExitOnError)
	out := fs.String("out", "", "trace file (NDJSON)")
	nrand := fs.Int("random", 50, "number of random scenarios")
	seed := fs.Int64("seed", 1, "seed")
	replaces := fs.Int("replaces", 400, "replaces per Get-vs-replace scenario")
	fs.Parse(args)
	w, err := os.Create(*out)
	if err != nil {
		return err
	}
	defer w.Close()
	bw := bufio.NewWriterSize(w, 1<<20)
	defer bw.Flush()
	sink := &procdrv.WriterSink{W: bw}
	rng := rand.New(rand.NewSource(*seed))
	scs := lindrv.Directed()
	for i := 0; i < *nrand; i++ {
		scs = append(scs, lindrv.Random(rng))
	}
	overlap, hangs := 0, 0
	for i, sc := range scs {
		ev, err := lindrv.Run(i+1, sc)
		if err != nil {
			return err
		}
		if !ev.Completed {
			hangs++
		}
		if ev.Overlap > 0 {
			overlap++
		}
		sink.Emit(ev)
		if hangs > 0 {
			break
		}
	}
	// Get while an installed entry is being replaced
	gets := 0
	if hangs == 0 {
		for i, kind := range []string{"v4", "v6", "mpls", "nhg", "nh"} {
			ev := lindrv.RunGet(i+1, kind, *replaces)
			gets += ev.Gets
			sink.Emit(ev)
		}
	}
	if hangs == 0 {
		sink.Emit(lindrv.RunHookOrder())
	}
	// two Gets of one instance at the same time
	if hangs == 0 {
		for i, v := range lindrv.TwoGetVariants {
			sink.Emit(lindrv.RunTwoGets(i+1, v))
		}
	}
	// Get is a snapshot
	if hangs == 0 {
		for i, v := range lindrv.SnapVariants {
			sink.Emit(lindrv.RunSnap(i+1, v))
		}
	}
	dels := 0
	if hangs == 0 {
		for i, mode := range []string{"nh", "nhg"} {
			ev := lindrv.RunRef(i+1, mode, *replaces)
			dels += ev.Deletes
			sink.Emit(ev)
		}
	}
	fmt.Printf("{\"scenarios\":%d,\"with_overlap\":%d,\"hangs\":%d,\"gets_during_replace\":%d,\"deletes_during_replace\":%d}\n", sink.N, overlap, hangs, gets, dels)
	return nil
}
