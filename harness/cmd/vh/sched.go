package main

import (
	"bufio"
	"encoding/json"
	"flag"
	"fmt"
	"os"
	"strings"

	"verif/harness/procdrv"
	"verif/harness/scheddrv"
)

func init() { cmds["sched-run"] = schedRun }

// sched-run replays session interleavings of GribiServerSched into the real server.
func schedRun(args []string) error {
	fs := flag.NewFlagSet("sched-run", flag.ExitOnError)
	in := fs.String("in", "", "file of TLC-emitted schedules (@@{...} per line)")
	out := fs.String("out", "", "trace file (NDJSON)")
	maxStalls := fs.Int("maxstalls", 3, "stop after that many stalled walks")
	fs.Parse(args)
	w, err := os.Create(*out)
	if err != nil {
		return err
	}
	defer w.Close()
	bw := bufio.NewWriterSize(w, 1<<20)
	defer bw.Flush()
	sink := &procdrv.WriterSink{W: bw}
	rn := &scheddrv.Runner{Sink: sink}
	f, err := os.Open(*in)
	if err != nil {
		return err
	}
	defer f.Close()
	sc := bufio.NewScanner(f)
	sc.Buffer(make([]byte, 1<<20), 1<<26)
	seen := map[string]bool{}
	skipped, unclean := 0, 0
	for sc.Scan() {
		line := strings.TrimSpace(sc.Text())
		if !strings.HasPrefix(line, "@@") || seen[line] {
			continue
		}
		seen[line] = true
		var wk scheddrv.Walk
		if err := json.Unmarshal([]byte(line[2:]), &wk); err != nil {
			return fmt.Errorf("bad schedule: %v", err)
		}
		if unclean > 0 || rn.Stalls >= *maxStalls {
			skipped++
			continue
		}
		if !rn.Run(wk) {
			unclean++
		}
	}
	if unclean == 0 {
		for i, b := range []int{1, 40, 150} {
			rn.RunPipe(i+1, b)
		}
		for i, v := range []string{"zeroElection", "paramsAgain", "twoFields"} {
			rn.RunBlocked(i+1, v)
		}
	}
	fmt.Printf("{\"walks\":%d,\"steps\":%d,\"events\":%d,\"stalls\":%d,\"unclean\":%d,\"skipped\":%d}\n", rn.Walks, rn.Steps, sink.N, rn.Stalls, unclean, skipped)
	return nil
}
