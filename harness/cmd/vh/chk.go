package main

import (
	"bufio"
	"encoding/json"
	"flag"
	"fmt"
	"math/rand"
	"os"
	"strings"

	"verif/harness/chkdrv"
)

func init() { cmds["chk-run"] = chkRun }

func chkRun(args []string) error {
	fs := flag.NewFlagSet("chk-run", flag.ExitOnError)
	in := fs.String("in", "", "file of TLC-emitted cases")
	out := fs.String("out", "", "trace file (NDJSON)")
	nrand := fs.Int("random", 0, "number of random cases")
	seed := fs.Int64("seed", 1, "seed")
	fs.Parse(args)
	w, err := os.Create(*out)
	if err != nil {
		return err
	}
	defer w.Close()
	bw := bufio.NewWriterSize(w, 1<<20)
	defer bw.Flush()
	rng := rand.New(rand.NewSource(*seed))
	n := 0
	emit := func(b []byte) error {
		raw, c, err := chkdrv.Decode(b)
		if err != nil {
			return fmt.Errorf("bad case %s: %v", b, err)
		}
		o, err := json.Marshal(chkdrv.Exec(raw, c, rng))
		if err != nil {
			return err
		}
		bw.Write(append(o, '\n'))
		n++
		return nil
	}
	if *in != "" {
		f, err := os.Open(*in)
		if err != nil {
			return err
		}
		sc := bufio.NewScanner(f)
		sc.Buffer(make([]byte, 1<<20), 1<<26)
		for sc.Scan() {
			line := strings.TrimSpace(sc.Text())
			if !strings.HasPrefix(line, "@@") {
				continue
			}
			if err := emit([]byte(line[2:])); err != nil {
				return err
			}
		}
		f.Close()
	}
	for i := 0; i < *nrand; i++ {
		b, _ := json.Marshal(chkdrv.Random(rng))
		if err := emit(b); err != nil {
			return err
		}
	}
	fmt.Printf("{\"walks\":%d,\"events\":%d}\n", n, n)
	return nil
}
