package main

import (
	"bufio"
	"encoding/json"
	"flag"
	"fmt"
	"math/rand"
	"os"
	"strings"

	"verif/harness/clientdrv"
	"verif/harness/ribdrv"
)

func init() { cmds["client-run"] = clientRun }

func clientRun(args []string) error {
	fs := flag.NewFlagSet("client-run", flag.ExitOnError)
	in := fs.String("in", "", "file of TLC-emitted input sequences")
	out := fs.String("out", "", "trace file (NDJSON)")
	nrand := fs.Int("random", 0, "number of random sequences")
	rlen := fs.Int("len", 40, "length of random sequences")
	seed := fs.Int64("seed", 1, "seed")
	nstorm := fs.Int("storm", 0, "number of large-batch sequences")
	fs.Parse(args)
	w, err := os.Create(*out)
	if err != nil {
		return err
	}
	defer w.Close()
	bw := bufio.NewWriterSize(w, 1<<20)
	defer bw.Flush()
	sink := &ribdrv.WriterSink{W: bw}
	rn := &clientdrv.Runner{Sink: sink}
	run := func(ins []clientdrv.Input) error {
		// an acknowledgement directly followed by a delivered response: every other one is replayed with AckResult held at
		// its gate while the receiver handles that response
		merged := []clientdrv.Input{}
		for i := 0; i < len(ins); i++ {
			x := ins[i]
			if x.A == "ack" && i+1 < len(ins) && ins[i+1].A == "deliver" && len(merged)%2 == 0 {
				x.Straddle, x.R = true, ins[i+1].R
				i++
			}
			merged = append(merged, x)
		}
		ins = merged
		for i, x := range ins {
			if err := rn.Step(x); err != nil {
				return fmt.Errorf("step %d: %v", i, err)
			}
		}
		return nil
	}
	n := 0
	if *in != "" {
		f, err := os.Open(*in)
		if err != nil {
			return err
		}
		sc := bufio.NewScanner(f)
		sc.Buffer(make([]byte, 1<<20), 1<<26)
		seen := map[string]bool{}
		for sc.Scan() {
			line := strings.TrimSpace(sc.Text())
			if !strings.HasPrefix(line, "@@") || seen[line] {
				continue
			}
			seen[line] = true
			var ins []clientdrv.Input
			if err := json.Unmarshal([]byte(line[2:]), &ins); err != nil {
				return fmt.Errorf("bad sequence: %v", err)
			}
			if err := run(ins); err != nil {
				return err
			}
			n++
		}
		f.Close()
	}
	rng := rand.New(rand.NewSource(*seed))
	for i := 0; i < *nrand; i++ {
		if err := run(clientdrv.Random(rng, *rlen)); err != nil {
			return err
		}
		n++
	}
	for i := 0; i < *nstorm; i++ {
		if err := run(clientdrv.Storm(rng, 4)); err != nil {
			return err
		}
		n++
	}
	fmt.Printf("{\"walks\":%d,\"steps\":%d,\"events\":%d,\"hangs\":%d,\"gate_missing\":%d,\"settle_timeouts\":%d}\n", n, rn.Steps, sink.N, rn.Hangs, rn.GateMissing, rn.SettleTimeouts)
	return nil
}
