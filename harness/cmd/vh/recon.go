package main

import (
	"bufio"
	"encoding/json"
	"flag"
	"fmt"
	"math/rand"
	"os"
	"strings"

	"verif/harness/recondrv"
	"verif/harness/ribdrv"
)

func init() { cmds["recon-run"] = reconRun }

func reconRun(args []string) error {
	fs := flag.NewFlagSet("recon-run", flag.ExitOnError)
	in := fs.String("in", "", "file of TLC-emitted cases")
	out := fs.String("out", "", "trace file (NDJSON)")
	nrand := fs.Int("random", 0, "number of random cases")
	seed := fs.Int64("seed", 1, "seed")
	fs.Parse(args)
	w, err := os.Create(*out)
	if err != nil {
		return err
	}
	defer w.Close()
	bw := bufio.NewWriterSize(w, 1<<20)
	defer bw.Flush()
	sink := &ribdrv.WriterSink{W: bw}
	rn := &ribdrv.Runner{Sink: sink, HookBeforeNIs: true}
	rng := rand.New(rand.NewSource(*seed))
	cases := 0
	if *in != "" {
		f, err := os.Open(*in)
		if err != nil {
			return err
		}
		sc := bufio.NewScanner(f)
		sc.Buffer(make([]byte, 1<<20), 1<<28)
		seen := map[string]bool{}
		for sc.Scan() {
			line := strings.TrimSpace(sc.Text())
			if !strings.HasPrefix(line, "@@") || seen[line] {
				continue
			}
			seen[line] = true
			var ins []recondrv.Input
			if err := json.Unmarshal([]byte(line[2:]), &ins); err != nil {
				return fmt.Errorf("bad case: %v", err)
			}
			if err := recondrv.Run(rn, ins, uint64(rng.Intn(1000))); err != nil {
				return err
			}
			cases++
		}
		f.Close()
	}
	for i := 0; i < *nrand; i++ {
		if err := recondrv.Run(rn, recondrv.Random(rng), uint64(rng.Intn(100000))); err != nil {
			return err
		}
		cases++
	}
	rn.Close()
	fmt.Printf("{\"walks\":%d,\"calls\":%d,\"events\":%d,\"panics\":%d,\"hangs\":%d}\n", cases, rn.Calls, sink.N, rn.Panics, rn.Hangs)
	return nil
}
