package main

import (
	"bufio"
	"encoding/json"
	"flag"
	"fmt"
	"os"
	"strings"

	"verif/harness/procdrv"
	"verif/harness/ribcsdrv"
)

func init() { cmds["ribcs-run"] = ribcsRun }

// ribcs-run replays interleavings of concurrent RIB calls (GribiRIBCS) into the real rib package.
func ribcsRun(args []string) error {
	fs := flag.NewFlagSet("ribcs-run", flag.ExitOnError)
	in := fs.String("in", "", "file of TLC-emitted schedules (@@{...} per line)")
	out := fs.String("out", "", "trace file (NDJSON)")
	viaServer := fs.Bool("viaserver", true, "also drive the dangling-entry scenario through the real server (two Modify sessions)")
	maxStalls := fs.Int("maxstalls", 3, "stop after that many stalled walks")
	fs.Parse(args)
	w, err := os.Create(*out)
	if err != nil {
		return err
	}
	defer w.Close()
	bw := bufio.NewWriterSize(w, 1<<20)
	defer bw.Flush()
	sink := &procdrv.WriterSink{W: bw}
	rn := &ribcsdrv.Runner{Sink: sink}
	f, err := os.Open(*in)
	if err != nil {
		return err
	}
	defer f.Close()
	sc := bufio.NewScanner(f)
	sc.Buffer(make([]byte, 1<<20), 1<<26)
	seen := map[string]bool{}
	skipped, unclean := 0, 0
	for sc.Scan() {
		line := strings.TrimSpace(sc.Text())
		if !strings.HasPrefix(line, "@@") || seen[line] {
			continue
		}
		seen[line] = true
		var wk ribcsdrv.Walk
		if err := json.Unmarshal([]byte(line[2:]), &wk); err != nil {
			return fmt.Errorf("bad schedule: %v", err)
		}
		if unclean > 0 || rn.Stalls >= *maxStalls {
			skipped++
			continue
		}
		if !rn.Run(wk) {
			unclean++
		}
	}
	if *viaServer {
		rn.RunViaServer()
	}
	fmt.Printf("{\"walks\":%d,\"steps\":%d,\"events\":%d,\"stalls\":%d,\"unclean\":%d,\"skipped\":%d,\"diverged\":%d}\n", rn.Walks, rn.Steps, sink.N, rn.Stalls, unclean, skipped, rn.Diverged)
	return nil
}
