package main

import (
	"bufio"
	"encoding/json"
	"flag"
	"fmt"
	"os"
	"strings"

	"github.com/openconfig/gribigo/compliance"

	"verif/harness/compdrv"
	"verif/harness/ribdrv"
)

func init() { cmds["comp-run"] = compRun }

func compRun(args []string) error {
	fs := flag.NewFlagSet("comp-run", flag.ExitOnError)
	out := fs.String("out", "", "trace file (NDJSON)")
	seed := fs.Int64("seed", 0, "permutation seed (0: suite order)")
	fault := fs.String("fault", "", "fault wrapper: dropFIB | staleGet | ignoreFlush | misreportElection | acceptRepeatedParams | failIdempotentDelete | programNonPrimary | dropErrorReason")
	base := fs.Uint64("base", 1, "starting election id")
	only := fs.String("only", "", "substring filter on test names (alternatives separated by |)")
	exact := fs.String("exact", "", "exact test name")
	order := fs.String("order", "", "JSON file with the exact list of test names to run")
	after := fs.String("after", "", "run this test before every other selected test (directed order)")
	budget := fs.Duration("budget", 0, "time budget of -after")
	defni := fs.String("defni", "", "name under which the suite and the wire know the default network instance")
	vrfn := fs.String("vrf", "", "name of the non-default VRF")
	each := fs.Bool("each", false, "run every selected test alone, as the first test of its own run")
	fs.Parse(args)
	w, err := os.Create(*out)
	if err != nil {
		return err
	}
	defer w.Close()
	bw := bufio.NewWriterSize(w, 1<<20)
	defer bw.Flush()
	sink := &ribdrv.WriterSink{W: bw}
	var pick func(*compliance.TestSpec) bool
	if *only != "" {
		subs := strings.Split(*only, "|")
		pick = func(t *compliance.TestSpec) bool {
			for _, x := range subs {
				if strings.Contains(t.In.ShortName, x) {
					return true
				}
			}
			return false
		}
	}
	if *exact != "" {
		pick = func(t *compliance.TestSpec) bool { return t.In.ShortName == *exact }
	}
	if *order != "" {
		b, err := os.ReadFile(*order)
		if err != nil {
			return err
		}
		if err := json.Unmarshal(b, &compdrv.Order); err != nil {
			return err
		}
	}
	compdrv.After, compdrv.AfterBudget = *after, *budget
	var vs []compdrv.Verdict
	if *each {
		// every (selected) test as the first and only test of a run: fresh servers, the election counter at -base
		for _, t := range compliance.TestSuite {
			if pick != nil && !pick(t) {
				continue
			}
			name := t.In.ShortName
			v, err := compdrv.RunSuite(sink, 0, *fault, *base, compdrv.Names{DefaultNI: *defni, VRF: *vrfn},
				func(x *compliance.TestSpec) bool { return x.In.ShortName == name })
			if err != nil {
				return err
			}
			vs = append(vs, v...)
		}
	} else {
		vs, err = compdrv.RunSuite(sink, *seed, *fault, *base, compdrv.Names{DefaultNI: *defni, VRF: *vrfn}, pick)
		if err != nil {
			return err
		}
	}
	pass, fail, skip := 0, 0, 0
	for _, v := range vs {
		switch {
		case v.Skipped:
			skip++
		case v.Pass:
			pass++
		default:
			fail++
			fmt.Fprintf(os.Stderr, "FAIL %s: %s\n", v.Name, v.Msg)
		}
	}
	probe := false
	switch *fault {
	case "rejectForwardRefs":
		var err error
		if probe, err = compdrv.ProbeRejectsForwardRefs(*fault); err != nil {
			return err
		}
	case "acceptRepeatedParams":
		var err error
		if probe, err = compdrv.ProbeAcceptsRepeatedParams(*fault); err != nil {
			return err
		}
	case "leakResults":
		var err error
		if probe, err = compdrv.ProbeLeaksResults(*fault); err != nil {
			return err
		}
	case "ignoreNamedFlush":
		var err error
		if probe, err = compdrv.ProbeIgnoresNamedFlush(*fault); err != nil {
			return err
		}
	}
	fmt.Printf("{\"walks\":%d,\"pass\":%d,\"fail\":%d,\"skip\":%d,\"events\":%d,\"probe_faulty\":%v}\n", len(vs), pass, fail, skip, sink.N, probe)
	return nil
}
