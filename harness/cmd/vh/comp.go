package main

import (
	"bufio"
	"encoding/json"
	"flag"
	"fmt"
	"os"
	"strings"

	"github.com/openconfig/gribigo/compliance"

	"verif/harness/compdrv"
	"verif/harness/ribdrv"
)

func init() { cmds["comp-run"] = compRun }

func compRun(args []string) error {
	fs := flag.NewFlagSet("comp-run", flag.ExitOnError)
	out := fs.String("out", "", "trace file (NDJSON)")
	seed := fs.Int64("seed", 0, "permutation seed (0: suite order)")
	fault := fs.String("fault", "", "fault wrapper: dropFIB | staleGet | ignoreFlush | misreportElection | acceptRepeatedParams")
	base := fs.Uint64("base", 1, "starting election id")
	only := fs.String("only", "", "substring filter on test names")
	exact := fs.String("exact", "", "exact test name")
	order := fs.String("order", "", "JSON file with the exact list of test names to run")
	after := fs.String("after", "", "run this test before every other selected test (directed order)")
	budget := fs.Duration("budget", 0, "time budget of -after")
	defni := fs.String("defni", "", "name under which the suite and the wire know the default network instance")
	vrfn := fs.String("vrf", "", "name of the non-default VRF")
	fs.Parse(args)
	w, err := os.Create(*out)
	if err != nil {
		return err
	}
	defer w.Close()
	bw := bufio.NewWriterSize(w, 1<<20)
	defer bw.Flush()
	sink := &ribdrv.WriterSink{W: bw}
	var pick func(*compliance.TestSpec) bool
	if *only != "" {
		pick = func(t *compliance.TestSpec) bool { return strings.Contains(t.In.ShortName, *only) }
	}
	if *exact != "" {
		pick = func(t *compliance.TestSpec) bool { return t.In.ShortName == *exact }
	}
	if *order != "" {
		b, err := os.ReadFile(*order)
		if err != nil {
			return err
		}
		if err := json.Unmarshal(b, &compdrv.Order); err != nil {
			return err
		}
	}
	compdrv.After, compdrv.AfterBudget = *after, *budget
	vs, err := compdrv.RunSuite(sink, *seed, *fault, *base, compdrv.Names{DefaultNI: *defni, VRF: *vrfn}, pick)
	if err != nil {
		return err
	}
	pass, fail, skip := 0, 0, 0
	for _, v := range vs {
		switch {
		case v.Skipped:
			skip++
		case v.Pass:
			pass++
		default:
			fail++
			fmt.Fprintf(os.Stderr, "FAIL %s: %s\n", v.Name, v.Msg)
		}
	}
	fmt.Printf("{\"walks\":%d,\"pass\":%d,\"fail\":%d,\"skip\":%d,\"events\":%d}\n", len(vs), pass, fail, skip, sink.N)
	return nil
}
