package main

import (
	"bufio"
	"encoding/json"
	"flag"
	"fmt"
	"os"
	"strings"

	"verif/harness/procdrv"
)

func init() { cmds["proc-run"] = procRun }

// proc-run replays goroutine-level schedules of GribiClientProc into the real client.
func procRun(args []string) error {
	fs := flag.NewFlagSet("proc-run", flag.ExitOnError)
	in := fs.String("in", "", "file of TLC-emitted schedules (@@{...} per line)")
	out := fs.String("out", "", "trace file (NDJSON)")
	maxStalls := fs.Int("maxstalls", 3, "stop after that many stalled walks")
	fs.Int("random", 0, "unused")
	fs.Int64("seed", 1, "unused")
	fs.Parse(args)
	w, err := os.Create(*out)
	if err != nil {
		return err
	}
	defer w.Close()
	bw := bufio.NewWriterSize(w, 1<<20)
	defer bw.Flush()
	sink := &procdrv.WriterSink{W: bw}
	rn := &procdrv.Runner{Sink: sink}
	f, err := os.Open(*in)
	if err != nil {
		return err
	}
	defer f.Close()
	sc := bufio.NewScanner(f)
	sc.Buffer(make([]byte, 1<<20), 1<<26)
	seen := map[string]bool{}
	skipped := 0
	for sc.Scan() {
		line := strings.TrimSpace(sc.Text())
		if !strings.HasPrefix(line, "@@") || seen[line] {
			continue
		}
		seen[line] = true
		var wk procdrv.Walk
		if err := json.Unmarshal([]byte(line[2:]), &wk); err != nil {
			return fmt.Errorf("bad schedule: %v", err)
		}
		if rn.Unclean > 0 || rn.Stalls >= *maxStalls {
			skipped++
			continue
		}
		rn.Run(wk)
	}
	fmt.Printf("{\"walks\":%d,\"steps\":%d,\"events\":%d,\"stalls\":%d,\"unclean\":%d,\"skipped\":%d,\"diverged\":%d}\n", rn.Walks, rn.Steps, sink.N, rn.Stalls, rn.Unclean, skipped, rn.Diverged)
	return nil
}
