package main

import (
	"bufio"
	"encoding/json"
	"flag"
	"fmt"
	"math/rand"
	"os"
	"strings"

	"verif/harness/fluentdrv"
	"verif/harness/ribdrv"
)

func init() { cmds["fluent-run"] = fluentRun }

func fluentRun(args []string) error {
	fs := flag.NewFlagSet("fluent-run", flag.ExitOnError)
	in := fs.String("in", "", "file of TLC-emitted programs")
	out := fs.String("out", "", "trace file (NDJSON)")
	nrand := fs.Int("random", 0, "number of random programs")
	rlen := fs.Int("len", 25, "length of random programs")
	seed := fs.Int64("seed", 1, "seed")
	fs.Parse(args)
	w, err := os.Create(*out)
	if err != nil {
		return err
	}
	defer w.Close()
	bw := bufio.NewWriterSize(w, 1<<20)
	defer bw.Flush()
	sink := &ribdrv.WriterSink{W: bw}
	rng := rand.New(rand.NewSource(*seed))
	n := 0
	if *in != "" {
		f, err := os.Open(*in)
		if err != nil {
			return err
		}
		sc := bufio.NewScanner(f)
		sc.Buffer(make([]byte, 1<<20), 1<<26)
		seen := map[string]bool{}
		for sc.Scan() {
			line := strings.TrimSpace(sc.Text())
			if !strings.HasPrefix(line, "@@") || seen[line] {
				continue
			}
			seen[line] = true
			var prog []fluentdrv.Step
			if err := json.Unmarshal([]byte(line[2:]), &prog); err != nil {
				return fmt.Errorf("bad program: %v", err)
			}
			if err := fluentdrv.Run(sink, prog); err != nil {
				return err
			}
			n++
		}
		f.Close()
	}
	for i := 0; i < *nrand; i++ {
		if err := fluentdrv.Run(sink, fluentdrv.Random(rng, *rlen)); err != nil {
			return err
		}
		n++
	}
	fmt.Printf("{\"walks\":%d,\"events\":%d}\n", n, sink.N)
	return nil
}
