package main

import (
	"bufio"
	"flag"
	"fmt"
	"os"

	"verif/harness/concdrv"
	"verif/harness/ribdrv"
)

func init() { cmds["conc-run"] = concRun }

func concRun(args []string) error {
	fs := flag.NewFlagSet("conc-run", flag.ExitOnError)
	out := fs.String("out", "", "trace file (NDJSON)")
	runs := fs.Int("runs", 10, "number of concurrent scenarios")
	seed := fs.Int64("seed", 1, "seed")
	fs.Parse(args)
	w, err := os.Create(*out)
	if err != nil {
		return err
	}
	defer w.Close()
	bw := bufio.NewWriterSize(w, 1<<20)
	defer bw.Flush()
	sink := &ribdrv.WriterSink{W: bw}
	hangs := 0
	for i := 0; i < *runs; i++ {
		c := concdrv.Cfg{Sessions: 2 + i%3, Rounds: 30, Readers: 1 + i%2, Flushers: 0, Seed: *seed*100 + int64(i)}
		if i%4 == 3 {
			c.Flushers = 1
		}
		if i%3 == 1 {
			c.CutSession = 1 + i%c.Sessions
		}
		if i%4 == 2 {
			c.Burst = true
		}
		if i%5 == 4 {
			c = concdrv.Cfg{Sessions: 6, Rounds: 120, Storm: true, Seed: c.Seed}
		}
		h, err := concdrv.Run(sink, c)
		if err != nil {
			return err
		}
		hangs += h
		if hangs > 0 {
			break // a wedged server leaves blocked goroutines behind: stop here, the trace says what hung
		}
	}
	fmt.Printf("{\"walks\":%d,\"events\":%d,\"hangs\":%d}\n", *runs, sink.N, hangs)
	return nil
}
