package main

import (
	"bufio"
	"flag"
	"fmt"
	"os"

	"verif/harness/procdrv"
	"verif/harness/ribcsdrv"
)

func init() { cmds["ribhammer-run"] = ribHammerRun }

// ribhammer-run: goroutines calling AddEntry / DeleteEntry on one rib.RIB freely (build with -race).
func ribHammerRun(args []string) error {
	fs := flag.NewFlagSet("ribhammer-run", flag.ExitOnError)
	out := fs.String("out", "", "trace file (NDJSON)")
	rounds := fs.Int("rounds", 8, "number of rounds (a fresh RIB each)")
	seed := fs.Int64("seed", 1, "seed")
	workers := fs.Int("workers", 4, "goroutines per round")
	per := fs.Int("per", 120, "calls per goroutine")
	fs.Parse(args)
	w, err := os.Create(*out)
	if err != nil {
		return err
	}
	defer w.Close()
	bw := bufio.NewWriterSize(w, 1<<20)
	defer bw.Flush()
	sink := &procdrv.WriterSink{W: bw}
	rn := &ribcsdrv.Runner{Sink: sink}
	hung := 0
	for i := 0; i < *rounds; i++ {
		if !rn.RunHammer(i+1, *seed*1000+int64(i), *workers, *per) {
			hung++
			break
		}
	}
	fmt.Printf("{\"rounds\":%d,\"events\":%d,\"hung\":%d}\n", *rounds, sink.N, hung)
	return nil
}
