---------------------------- MODULE GribiRIB_MC ----------------------------
(* Bounded instance of GribiRIB for TLC: an operation alphabet over small   *)
(* key sets, unique operation ids, and a history variable used to emit the  *)
(* input sequences that the Go harness replays into the real rib package.   *)
EXTENDS GribiRIB, Json

CONSTANTS
  InitNIs,    \* network instances existing from the start (DefaultNI among them)
  LateNIs,    \* network instances that AddNI may create later
  OpNIs,      \* values of the ni field of generated operations
  NHK, NHGK,  \* next-hop / next-hop-group indices
  NHLists,    \* set of sequences: the nhs lists of generated group operations
  BKs,        \* backup group values ("" = none)
  TopK,       \* set of <<kind, key>> of top-level entries
  GNIs,       \* values of the gni field
  PLs,        \* payload identities
  FwdModes,   \* subset of BOOLEAN: values of fwd at Init
  MaxOps,     \* number of calls (AddEntry/DeleteEntry/Flush/AddNI) per behaviour
  WithFlush,  \* BOOLEAN
  BadKinds,   \* kinds for which a malformed ADD is part of the alphabet
  EmitOn,     \* TRUE: print each complete input sequence as JSON
  Bias        \* TRUE: prefer operations that have an effect (used when emitting walks)

\* named constant values (a .cfg file cannot contain tuples)
L_1      == {<<"1">>}
L_1_12   == {<<"1">>, <<"1", "2">>}
L_dup    == {<<"1">>, <<"1", "1">>, <<"2">>}
L_all    == {<<"1">>, <<"2">>, <<"1", "2">>, <<"1", "1">>}
T_v4     == {<<"v4", "k1">>}
T_v4x2   == {<<"v4", "k1">>, <<"v4", "k2">>}
T_kinds  == {<<"v4", "k1">>, <<"v6", "k1">>, <<"mpls", "k1">>}

VARIABLES nid, hist
mcvars == <<vars, nid, hist>>

Base(id, n, t, kd, k) ==
  [id |-> id, ni |-> n, typ |-> t, kind |-> kd, key |-> k, pl |-> "", nhs |-> <<>>,
   bk |-> "", g |-> "", gni |-> "", bad |-> "", eid |-> <<0, 0>>, noeid |-> TRUE]

Ops(id) ==
       {[Base(id, n, t, "nh", k) EXCEPT !.pl = p] :
            n \in OpNIs, t \in {"ADD", "REPLACE"}, k \in NHK, p \in PLs}
  \cup {Base(id, n, "DELETE", "nh", k) : n \in OpNIs, k \in NHK}
  \cup {[Base(id, n, t, "nhg", k) EXCEPT !.pl = p, !.nhs = l, !.bk = b] :
            n \in OpNIs, t \in {"ADD", "REPLACE"}, k \in NHGK, p \in PLs, l \in NHLists, b \in BKs}
  \cup {Base(id, n, "DELETE", "nhg", k) : n \in OpNIs, k \in NHGK}
  \cup {[Base(id, n, t, kk[1], kk[2]) EXCEPT !.pl = p, !.g = g, !.gni = gn] :
            n \in OpNIs, t \in {"ADD", "REPLACE"}, kk \in TopK, p \in PLs, g \in NHGK, gn \in GNIs}
  \cup {Base(id, n, "DELETE", kk[1], kk[2]) : n \in OpNIs, kk \in TopK}
  \cup {[Base(id, DefaultNI, "ADD", kd, "1") EXCEPT !.bad = "malformed"] : kd \in BadKinds}
  \cup {[Base(id, DefaultNI, "DELETE", kd, "1") EXCEPT !.bad = "malformed"] : kd \in BadKinds}

\* an operation that has an effect in the current state; every fourth call is unconstrained
Interesting(op) ==
  \/ nid % 4 = 3
  \/ /\ ~Unroutable(op)
     /\ IF op.typ = "DELETE" \/ op.bad # "" THEN HasE(rib, op.ni, Tab(op), Key(op))
        ELSE Outcome(op) \in {"installed", "held"}

MCInit ==
  /\ \E f \in FwdModes : Init(InitNIs, f)
  /\ nid = 0
  /\ hist = << [a |-> "reset", nis |-> InitNIs, fwd |-> fwd] >>

Step(rec) == nid' = nid + 1 /\ hist' = Append(hist, rec)

MCNext ==
  \/ /\ nid < MaxOps
     /\ \E op \in Ops(nid + 1) :
          /\ (~Bias \/ Interesting(op))
          /\ \/ CallBegin(op)
             \/ Delete(op)
             \/ (op.bad = "" /\ CallErr(op))
          /\ Step([a |-> "op", op |-> op])
  \/ /\ \E e \in UNION Range(call.stack) : Try(e)
     /\ UNCHANGED <<nid, hist>>
  \/ CallEnd /\ UNCHANGED <<nid, hist>>
  \/ /\ WithFlush /\ nid < MaxOps /\ (~Bias \/ nid % 3 = 2)
     /\ \E S \in (SUBSET nis) \ {{}} : Flush(S) /\ Step([a |-> "flush", nis |-> S])
  \/ /\ nid < MaxOps
     /\ \E n \in LateNIs : AddNI(n) /\ Step([a |-> "addni", ni |-> n])

MCSpec == MCInit /\ [][MCNext]_mcvars

\* hide output-only and history variables from the fingerprint when only checking
View == <<fwd, nis, rib, pend, refNH, refNHG, call, pflush, nid>>

Complete == nid = MaxOps /\ Quiescent

Emit == (EmitOn /\ Complete) => PrintT("@@" \o ToJson(hist))
=============================================================================
