#!/usr/bin/env python3
"""show trace lines around N compactly: tools_show.py trace.ndjson N [ctx]"""
import sys,json
f,n=sys.argv[1],int(sys.argv[2]); ctx=int(sys.argv[3]) if len(sys.argv)>3 else 4
for i,l in enumerate(open(f),1):
    if i<n-ctx: continue
    if i>n+1: break
    e=json.loads(l); st=e.pop('st',None); rs=e.pop('rsnap',None)
    mark='>>' if i==n else '  '
    print(mark,i,json.dumps(e)[:400], '(rsnap)' if rs else '')
    if st and i>=n-1:
        if 'error' in st: print('      ERROR',st['error']); continue
        for ni,c in st['rib'].items():
            if c['nh'] or c['nhg'] or c['top']: print('      rib',ni,json.dumps(c))
        print('      pend',[(o['id'],o['typ'],o['kind'],o['key'],o['ni'],o['nhs'],o['g'],o['gni']) for o in st['pend']])
        print('      refNH',{k:v for k,v in st['refNH'].items() if v},'refNHG',{k:v for k,v in st['refNHG'].items() if v}, 'mirror==rib',st.get('mirror')==st['rib'])
