--------------------------- MODULE GribiClientTrace ---------------------------
(* Trace validation for the client library (C13, C14): every step the Go       *)
(* harness performed on the real client (through a scripted stub stream) is    *)
(* an action of GribiClient; the projected client state (pending operations,   *)
(* results, error counts, what reached the stream) is compared after every     *)
(* step, and the specification re-synchronises with the logged state.          *)
EXTENDS GribiClient, Json

CONSTANT TraceFile
TraceLog == ndJsonDeserialize(TraceFile)
VARIABLES l, dead
ctvars == <<cvars, l, dead>>

Ev == TraceLog[l]
IsEvent(e) == l <= Len(TraceLog) /\ TraceLog[l].ev = e /\ l' = l + 1
Flag(b, name) == IF b THEN {name} ELSE {}
Report(comps) == IF comps = {} THEN TRUE ELSE PrintT(<<"MISMATCH", l, Ev.ev, comps>>)

\* the logged state in specification form (pending ids are JSON object keys: match by the id inside handed)
LogPend(P) == [i \in {j \in handed' : ToString(j) \in DOMAIN P} |-> P[ToString(i)]]

StDiff(st) ==
       Flag(LogPend(st.pend) # pend' \/ Cardinality(DOMAIN st.pend) # Cardinality(DOMAIN pend'), "clientPending")
  \cup Flag(st.pendElec # pendElec' \/ st.pendParams # pendParams', "clientPendingSession")
  \cup Flag(st.results # results', "clientResults")
  \cup Flag(st.sendErrs # sendErrs', "clientSendErrs")
  \cup Flag(st.recvErrs # recvErrs', "clientRecvErrs")
  \cup Flag(st.sent # sent', "clientSent")

CTInit == CInit /\ l = 1 /\ dead = FALSE

TDead == dead /\ l <= Len(TraceLog) /\ TraceLog[l].ev # "cnew" /\ l' = l + 1 /\ UNCHANGED <<cvars, dead>>

TNew == IsEvent("cnew") /\ CNew(Ev.cfg) /\ dead' = FALSE

THang == ~dead /\ IsEvent("chang") /\ Report({"clientHang"}) /\ dead' = TRUE /\ UNCHANGED cvars

TConnect ==
  /\ ~dead /\ IsEvent("cconnect")
  /\ IF conn \in {"none", "closed"} THEN CConnect ELSE UNCHANGED cvars
  /\ Report(Flag(~Ev.ok, "clientConnect") \cup StDiff(Ev.st))
  /\ UNCHANGED dead

TQ == ~dead /\ IsEvent("cq") /\ CQ(Ev.m) /\ Report(StDiff(Ev.st)) /\ UNCHANGED dead
TBurst ==
  /\ ~dead /\ IsEvent("cburst")
  /\ IF Ev.returned # Len(Ev.ms)
     THEN Report({"clientQBlockedForever"}) /\ dead' = TRUE /\ UNCHANGED cvars
     ELSE /\ (IF conn = "up" /\ sending THEN CBurst(Ev.ms) ELSE UNCHANGED cvars)
          /\ Report(StDiff(Ev.st))
          /\ UNCHANGED dead
\* concurrent Q calls that carry one operation id: whatever their order, GribiClient registers the first and records an error for
\* each of the others (CQ on an id that is pending) - the driver counts the rounds in which the real client did otherwise
TDupQ ==
  /\ ~dead /\ IsEvent("cdupq")
  /\ Report(IF Ev.bad > 0 THEN {"clientDuplicateIdNotReported"} ELSE {})
  /\ dead' = TRUE /\ UNCHANGED cvars
TStart ==
  /\ ~dead /\ IsEvent("cstart")
  /\ IF conn = "up" /\ ~sending THEN CStart ELSE UNCHANGED cvars
  /\ Report(StDiff(Ev.st)) /\ UNCHANGED dead
TDeliver ==
  /\ ~dead /\ IsEvent("cdeliver")
  /\ IF receiver = "alive"
     THEN CDeliver(Ev.r) /\ Report(StDiff(Ev.st)
             \* Known finding: in FIB-ack mode a RIB_PROGRAMMED for an id that is not pending (never sent,
             \* or already completed) is accepted silently instead of surfacing as an error
             \cup Flag(Ev.r.k = "res" /\ cfg.fib /\ recvErrs' = recvErrs
                       /\ \E i \in DOMAIN Ev.r.results : Ev.r.results[i].st = "RIB" /\ Ev.r.results[i].id \notin DOMAIN pend
                            /\ ~\E j \in 1..(i - 1) : Ev.r.results[j].id = Ev.r.results[i].id,
                       "KF:clientRibAckForUnknownIdAccepted")
             \* every snapshot Status() returned while the receiver was working accounts for every
             \* operation handed over: pending, or present in the results (never lost in between)
             \cup Flag(\E i \in DOMAIN Ev.snaps : \E id \in handed \ acked :
                          id \notin {Ev.snaps[i].pend[j] : j \in DOMAIN Ev.snaps[i].pend}
                          /\ id \notin {Ev.snaps[i].res[j] : j \in DOMAIN Ev.snaps[i].res}, "clientSnapshotLosesOperation"))
     ELSE UNCHANGED cvars /\ Report({"clientDeliverToDeadReceiver"})
  /\ UNCHANGED dead
TRecvFail == ~dead /\ IsEvent("crecvfail") /\ (IF receiver = "alive" THEN CRecvFail ELSE UNCHANGED cvars) /\ Report(StDiff(Ev.st)) /\ UNCHANGED dead
TRecvEOF == ~dead /\ IsEvent("crecveof") /\ (IF receiver = "alive" THEN CRecvEOF ELSE UNCHANGED cvars) /\ Report(StDiff(Ev.st)) /\ UNCHANGED dead
TSendFail == ~dead /\ IsEvent("csendfail") /\ CSetSendFail(Ev.n) /\ UNCHANGED dead
\* AckResult: alone ("st" logged), or straddled by the receiver handling a response (then the state is compared at the
\* cdeliver event that follows)
TAck ==
  /\ ~dead /\ IsEvent("cack")
  /\ IF HasResultFor(Ev.id)
     THEN CAck(Ev.id) /\ Report(Flag(Ev.err, "clientAckError") \cup Flag("snapmut" \in DOMAIN Ev /\ Ev.snapmut, "clientResultsSnapshotMutated")
                               \cup (IF "st" \in DOMAIN Ev THEN StDiff(Ev.st) ELSE {}))
     ELSE UNCHANGED cvars /\ Report(Flag(~Ev.err, "clientAckOfNothing"))
  /\ UNCHANGED dead
TAwait ==
  /\ ~dead /\ IsEvent("cawait")
  /\ UNCHANGED <<cvars, dead>>
  /\ Report(Flag(Ev.res # AwaitResult, IF Ev.res = "ok" THEN "clientConvergedWrongly" ELSE "clientAwait") \cup StDiff(Ev.st))
\* Close / Reset return, signal Done when a goroutine had exited, and leave no sender or receiver behind
TClose ==
  /\ ~dead /\ IsEvent("cclose")
  /\ Report(Flag(Ev.goroutines > 0, "clientGoroutineLeft"))
  /\ IF conn = "up" THEN CClose ELSE UNCHANGED cvars
  /\ UNCHANGED dead
TReset ==
  /\ ~dead /\ IsEvent("creset")
  /\ CReset
  /\ Report(Flag(Ev.goroutines > 0, "clientGoroutineLeft")
            \cup Flag(Ev.st.results # <<>> \/ Cardinality(DOMAIN Ev.st.pend) # 0 \/ Ev.st.pendElec \/ Ev.st.pendParams
                      \/ Ev.st.sendErrs # 0 \/ Ev.st.recvErrs # 0, "clientNotFreshAfterReset"))
  /\ UNCHANGED dead

CTNext == TAck \/ TBurst \/ TDupQ \/ TDead \/ TNew \/ THang \/ TConnect \/ TQ \/ TStart \/ TDeliver \/ TRecvFail \/ TRecvEOF \/ TSendFail \/ TAwait \/ TClose \/ TReset
CTSpec == CTInit /\ [][CTNext]_ctvars

Matched == TLCGet("stats").diameter - 1
TraceAccepted ==
  /\ PrintT(<<"TRACE", "matched", Matched, "of", Len(TraceLog)>>)
  /\ Matched = Len(TraceLog)
=============================================================================
