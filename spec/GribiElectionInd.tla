-------------------------- MODULE GribiElectionInd --------------------------
(***************************************************************************)
(* The election core of GribiServer (runElection at message grain) with    *)
(* unbounded 128-bit ids modelled as pairs of naturals, written for        *)
(* Apalache: IndInv is an inductive invariant, i.e. ElecIsMax (C05: the    *)
(* learnt id is the maximum announced, compared high word first) and       *)
(* PrimaryAnnouncedIt hold after ANY number of announcements by ANY number *)
(* of the given sessions with ANY ids - not only within TLC's bounds.      *)
(* Announce is the election branch of GribiServer!MsgBegin (= StoreElec    *)
(* followed by ElecCAS of GribiServerCS without anything in between).      *)
(*   apalache-mc check --init=IndInit --inv=IndInv --length=1 (induction)  *)
(*   apalache-mc check --init=Init --inv=IndInv --length=0    (base case)  *)
(* The induction step starts from an arbitrary state with at most GenN     *)
(* announced ids (Gen needs a literal: the check substitutes it).          *)
(***************************************************************************)
EXTENDS Integers, FiniteSets, Apalache

CONSTANTS
  \* @type: Set(Str);
  Sess

VARIABLES
  \* @type: <<Int, Int>>;
  cur,
  \* @type: Str;
  master,
  \* @type: Set(<<Int, Int>>);
  ann,
  \* @type: Str -> Set(<<Int, Int>>);
  stored

\* @type: <<Int, Int>>;
NoId == <<0, 0>>
\* @type: (<<Int, Int>>, <<Int, Int>>) => Bool;
IdLT(a, b) == a[1] < b[1] \/ (a[1] = b[1] /\ a[2] < b[2])
\* @type: (<<Int, Int>>, <<Int, Int>>) => Bool;
IdLE(a, b) == a = b \/ IdLT(a, b)

CInit == Sess = {"s1", "s2", "s3"}

Init == cur = NoId /\ master = "" /\ ann = {} /\ stored = [s \in Sess |-> {}]

\* one election message: zero is rejected; otherwise the id is recorded and compared-and-set
Announce(s, hi, lo) ==
  LET \* @type: <<Int, Int>>;
      id == <<hi, lo>> IN
  /\ hi >= 0 /\ lo >= 0 /\ id # NoId
  /\ ann' = ann \union {id}
  /\ stored' = [stored EXCEPT ![s] = @ \union {id}]
  /\ IF IdLE(cur, id) THEN cur' = id /\ master' = s ELSE UNCHANGED <<cur, master>>

Next == \E s \in Sess : \E hi \in Int : \E lo \in Int : Announce(s, hi, lo)

TypeOK == /\ cur[1] >= 0 /\ cur[2] >= 0
          /\ \A x \in ann : x[1] >= 0 /\ x[2] >= 0 /\ x # NoId
          /\ master \in Sess \union {""}
          /\ DOMAIN stored = Sess

\* C05
ElecIsMax == /\ (ann = {} <=> cur = NoId)
             /\ (ann # {} => cur \in ann)
             /\ \A x \in ann : IdLE(x, cur)
PrimaryAnnouncedIt == cur # NoId => (master \in Sess /\ cur \in stored[master])
StoredIsAnn == \A s \in Sess : \A x \in stored[s] : x \in ann

IndInv == TypeOK /\ ElecIsMax /\ PrimaryAnnouncedIt /\ StoredIsAnn

\* an arbitrary state (up to 6 announced ids) that satisfies the invariant
IndInit ==
  /\ cur = Gen(1) /\ master = Gen(1) /\ ann = Gen(6) /\ stored = Gen(6)   \* GenN
  /\ IndInv
=============================================================================
