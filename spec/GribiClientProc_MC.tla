------------------------- MODULE GribiClientProc_MC -------------------------
(* Bounded instance of GribiClientProc: every interleaving of the application, *)
(* the sender, the receiver and the stream.  `hist` records the schedule       *)
(* (goroutine, label, choice) so that it can be replayed into the real client  *)
(* through its scheduler gates.                                                *)
EXTENDS GribiClientProc, Json

CONSTANTS EmitOn, MaxFaults,
          HoldModes   \* subset of BOOLEAN; TRUE = schedules in which the sender does not take a message from
                      \* the modify channel before the channel is full or the application is done queueing
VARIABLES hist, hold
mcvars == <<pvars, hist, hold>>

Lbl(p) == [p |-> p, l |-> pc[p]]
H(rec) == hist' = Append(hist, rec)

MCInit == PInit /\ faults <= MaxFaults /\ hist = <<>> /\ hold \in HoldModes
InQ == pc.app \in {"q.begin", "q.rlock", "q.check", "q.select", "q.runlock"}
Held == hold /\ InQ /\ Len(modCh) < Cap

MCNext ==
  \/ /\ App /\ H([p |-> "app", l |-> pc.app,
                  c |-> IF At("app", "q.select") THEN (IF Len(modCh') > Len(modCh) THEN "send" ELSE IF panicked' THEN "panic" ELSE "exit") ELSE ""])
  \/ /\ \E f \in BOOLEAN : SndSend(f) /\ H([p |-> "snd", l |-> "s.send", c |-> IF f THEN "fail" ELSE "ok"])
  \/ /\ (SndLoop \/ (SndRecv /\ ~Held) \/ SndRLock \/ SndRUnlock \/ SndExit1 \/ SndExit2 \/ SndExit3) /\ H([p |-> "snd", l |-> pc.snd, c |-> ""])
  \/ /\ Rcv /\ H([p |-> "rcv", l |-> pc.rcv, c |-> ""])
  \/ /\ \E m \in 1..NQ : EnvResp(m) /\ H([p |-> "env", l |-> "resp", c |-> ToString(m)])
  \/ /\ \E m \in 1..NQ : EnvRespBad(m) /\ H([p |-> "env", l |-> "respbad", c |-> ToString(m)])
  \/ /\ EnvRecvErr /\ H([p |-> "env", l |-> "err", c |-> ""])
  \/ /\ EnvBrokenRecv /\ H([p |-> "env", l |-> "err", c |-> "broken"])
  \/ /\ EnvEOF /\ H([p |-> "env", l |-> "eof", c |-> ""])

MCSpec == MCInit /\ [][MCNext /\ UNCHANGED hold]_mcvars

View == <<pvars, hold>>
Finished == At("app", "app.done") /\ ~ENABLED PNext
Emit == (EmitOn /\ Finished) => PrintT("@@" \o ToJson([nq |-> NQ, closer |-> Closer, maxAwait |-> MaxAwait, steps |-> hist]))
=============================================================================
