--------------------------- MODULE GribiRIBTrace ---------------------------
(***************************************************************************)
(* Trace validation for GribiRIB.  A trace recorded from the real rib      *)
(* package (one line per action of GribiRIB, written by the Go harness     *)
(* from the verif hooks; the complete projected state after every call)    *)
(* is checked against the specification, call by call:                     *)
(*                                                                         *)
(*  - every event must be a step of the corresponding GribiRIB action from *)
(*    the current state; the results and every component of the state the  *)
(*    specification computes are compared with what was logged;            *)
(*  - the properties are evaluated on the logged (real) state;             *)
(*  - a deviation is REPORTED (line, components) rather than ending the    *)
(*    run, and the specification state is then re-synchronised with the    *)
(*    logged state, so that one deviation cannot mask or fake another and  *)
(*    each deviation can be attributed to the property it concerns.        *)
(*                                                                         *)
(* The checker (verif/check) turns the reported components into verdicts.  *)
(***************************************************************************)
EXTENDS GribiRIB, Json

CONSTANT TraceFile
TraceLog == ndJsonDeserialize(TraceFile)

VARIABLES
  l,       \* next line of TraceLog
  skip,    \* a deviation occurred inside the current AddEntry: consume up to its end
  dead,    \* the segment was abandoned (panic, unusable state): consume up to the next reset
  known    \* operations that may be acknowledged by the current call: id -> op
tvars == <<vars, l, skip, dead, known>>

Ev == TraceLog[l]
IsEvent(e) == l <= Len(TraceLog) /\ TraceLog[l].ev = e /\ l' = l + 1

ToSet(s) == {s[i] : i \in DOMAIN s}
LogNHG(e) == [pl |-> e.pl, nhs |-> ToSet(e.nhs), bk |-> e.bk]
LogNI(x)  == [nh |-> x.nh, nhg |-> [k \in DOMAIN x.nhg |-> LogNHG(x.nhg[k])], top |-> x.top]
LogRib(r) == [n \in DOMAIN r |-> LogNI(r[n])]
LogPend(p) == [id \in {p[i].id : i \in DOMAIN p} |-> CHOOSE o \in ToSet(p) : o.id = id]

Flag(c, name) == IF c THEN {name} ELSE {}
Report(comps) == IF comps = {} THEN TRUE ELSE PrintT(<<"MISMATCH", l, Ev.ev, comps>>)

StateOK(st) == "error" \notin DOMAIN st

\* properties evaluated on a logged (real) state L = [rib, pend, refNH, refNHG, mirror]
\* with the reference fold R and the partial-flush flag pf
PendShapeOf(L, N) ==
  \A id \in DOMAIN L.pend :
    LET e == L.pend[id] IN
    e.ni \in N /\ e.bad = "" /\ e.typ \in {"ADD", "REPLACE"} /\ e.kind \in Kinds

HeldOutcomeOK(L, N, f) ==
  \A id \in {i \in DOMAIN L.pend : L.pend[i].ni \in N /\ L.pend[i].kind \in Kinds} :
    LET e == L.pend[id] IN
    ~( /\ e.bad = ""
       /\ ~(e.typ = "REPLACE" /\ ~HasE(L.rib, e.ni, Tab(e), Key(e)))
       /\ ~(e.kind \in TopKinds /\ e.gni # "" /\ e.gni \notin N)
       /\ CASE e.kind = "nh"  -> TRUE
            [] e.kind = "nhg" -> \A i \in Range(e.nhs) : i \in DOMAIN L.rib[e.ni].nh
            [] OTHER          -> e.g \in DOMAIN L.rib[TargetOf(e, e.ni)].nhg )

RealProps(L, R, pf, f) ==
  LET N == DOMAIN L.rib IN
       Flag(L.rib # R, "fold")                                           \* C01
  \cup Flag(~pf /\ ~NoDanglingOf(L.rib, N), "dangling")                  \* C02
  \cup Flag(~PendShapeOf(L, N), "pendShape")                             \* C02
  \cup Flag(~HeldOutcomeOK(L, N, f), "heldResolvable")                   \* C02
  \cup Flag(~f /\ L.pend # EmptyFn, "heldNoFwd")                         \* C02
  \cup Flag(~CountersExactOf(L.rib, N, L.refNH, L.refNHG), "counters")   \* C03
  \cup Flag(L.mirror # L.rib, "mirrorVsRib")                             \* C16

\* held operations the specification cannot interpret (flagged "pendShape") are not adopted
CleanPend(P, N) ==
  [id \in {i \in DOMAIN P : P[i].ni \in N /\ P[i].bad = "" /\ P[i].typ \in {"ADD", "REPLACE"}
                              /\ P[i].kind \in Kinds} |-> P[id]]

Logged(st) == [rib |-> LogRib(st.rib), pend |-> LogPend(st.pend), refNH |-> st.refNH,
               refNHG |-> st.refNHG, mirror |-> LogRib(st.mirror)]

\* adopt the logged state (re-synchronisation)
Adopt(L) ==
  /\ nis' = DOMAIN L.rib
  /\ rib' = L.rib /\ pend' = CleanPend(L.pend, DOMAIN L.rib) /\ refNH' = L.refNH /\ refNHG' = L.refNHG
  /\ mirror' = L.mirror

\* differences between what the specification computed (record C) and the log
Diff(C, L) ==
       Flag(C.rib # L.rib, "rib") \cup Flag(C.pend # L.pend, "pend")
  \* a held operation is gone although the specification still holds it: it will never be answered (C06, C02)
  \cup Flag(DOMAIN C.pend \ DOMAIN L.pend # {}, "heldLost")
  \cup Flag(C.refNH # L.refNH \/ C.refNHG # L.refNHG, "refs")
  \cup Flag(C.mirror # L.mirror, "mirror")

RECURSIVE FoldAcks(_, _, _)
FoldAcks(R, ids, K) ==
  IF ids = <<>> THEN R
  ELSE FoldAcks(IF Head(ids) \in DOMAIN K THEN RefApply(R, K[Head(ids)]) ELSE R, Tail(ids), K)

-----------------------------------------------------------------------------
TraceInit == Init({DefaultNI}, TRUE) /\ l = 1 /\ skip = FALSE /\ dead = FALSE /\ known = EmptyFn

TReset ==
  /\ IsEvent("reset")
  /\ Reset(ToSet(Ev.nis), Ev.fwd)
  /\ skip' = FALSE /\ dead' = FALSE /\ known' = EmptyFn

\* an event of an abandoned segment
TDead ==
  /\ dead /\ l <= Len(TraceLog) /\ TraceLog[l].ev # "reset" /\ l' = l + 1
  /\ UNCHANGED <<vars, skip, dead, known>>

TPanic ==
  /\ ~dead /\ l <= Len(TraceLog) /\ TraceLog[l].ev \in {"panic", "hang"} /\ l' = l + 1
  /\ Report({TraceLog[l].ev})
  /\ dead' = TRUE
  /\ UNCHANGED <<vars, skip, known>>

TAddBegin ==
  /\ ~dead /\ IsEvent("addbegin")
  /\ known' = Put(pend, Ev.op.id, Ev.op)
  /\ IF ~call.active /\ Ev.op.typ \in {"ADD", "REPLACE"} /\ ~Unroutable(Ev.op)
     THEN CallBegin(Ev.op) /\ skip' = FALSE
     ELSE Report({"begin"}) /\ skip' = TRUE /\ UNCHANGED vars
  /\ UNCHANGED dead

CanTry == ~skip /\ call.active /\ call.stack # <<>> /\
          \E e \in call.stack[Len(call.stack)] : e.id = Ev.id /\ e.id \notin call.done /\ Outcome(e) = Ev.out

\* a resolved-entry notification: announced exactly for installed top-level
\* entries, with a snapshot equal to the RIB right after the change (C16)
RsnapDiff(expected, typ, ni, kind, key, R) ==
  IF expected
  THEN IF "rsnap" \notin DOMAIN Ev THEN {"rsnapMissing"}
       ELSE Flag(Ev.rsnap.typ # typ \/ Ev.rsnap.ni # ni \/ Ev.rsnap.kind # kind, "rsnapTag")
            \* the announcement names the entry by the key under which it is installed (and appears in the snapshot)
            \cup Flag("key" \in DOMAIN Ev.rsnap /\ Ev.rsnap.key # key, "rsnapKey")
            \cup Flag(LogRib(Ev.rsnap.snap) # R, "rsnapContent")
  ELSE Flag("rsnap" \in DOMAIN Ev, "rsnapUnexpected")

TTry ==
  /\ ~dead /\ IsEvent("try")
  /\ IF CanTry
     THEN \E e \in call.stack[Len(call.stack)] :
            /\ e.id = Ev.id
            /\ Try(e)
            /\ Report(RsnapDiff(Ev.out = "installed" /\ e.kind \in TopKinds, "Add", e.ni, e.kind, e.key, rib'))
            /\ skip' = FALSE
     ELSE /\ (IF skip THEN TRUE ELSE Report({"try"}))
          /\ skip' = TRUE /\ UNCHANGED vars
  /\ UNCHANGED <<dead, known>>

TAddEnd ==
  /\ ~dead /\ IsEvent("addend")
  /\ IF ~StateOK(Ev.st)
     THEN Report({"stateError"}) /\ dead' = TRUE /\ UNCHANGED <<vars, skip, known>>
     ELSE LET L  == Logged(Ev.st)
              R2 == FoldAcks(ref, Ev.oks, known)
              C  == [rib |-> rib, pend |-> pend, refNH |-> refNH, refNHG |-> refNHG, mirror |-> mirror]
          IN
          /\ Report((IF skip \/ ~call.active THEN {}
                     ELSE Flag(call.stack # <<>>, "incomplete")
                          \cup Flag(call.oks # Ev.oks \/ call.fails # Ev.fails, "res")
                          \cup Flag(call.oks = <<>> /\ call.pre # <<L.rib, L.refNH, L.refNHG, L.mirror>>, "failedTrace")
                          \cup Diff(C, L))
                    \cup Flag(\E i \in DOMAIN Ev.oks : Ev.oks[i] \notin DOMAIN known, "foreignAck")
                    \cup Flag(\E i, j \in DOMAIN (Ev.oks \o Ev.fails) : i # j /\ (Ev.oks \o Ev.fails)[i] = (Ev.oks \o Ev.fails)[j], "answeredTwice")
                    \cup RealProps(L, R2, pflush, fwd))
          /\ Adopt(L)
          /\ ref' = R2
          /\ call' = IdleCall
          /\ out' = [kind |-> "add", oks |-> Ev.oks, fails |-> Ev.fails]
          /\ UNCHANGED <<fwd, pflush, dead>>
          /\ skip' = FALSE /\ known' = EmptyFn

TCallErr ==
  /\ ~dead /\ IsEvent("callerr")
  /\ IF ~StateOK(Ev.st)
     THEN Report({"stateError"}) /\ dead' = TRUE /\ UNCHANGED <<vars, skip, known>>
     ELSE LET L == Logged(Ev.st)
              C == [rib |-> rib, pend |-> pend, refNH |-> refNH, refNHG |-> refNHG, mirror |-> mirror]
          IN
          /\ Report(Flag(~(Unroutable(Ev.op) \/ Ev.op.bad # ""), "errUnexpected")
                    \cup (IF Ev.op.bad # "" THEN {x \o "AfterBad" : x \in Diff(C, L)} ELSE Diff(C, L))
                    \cup RealProps(L, ref, pflush, fwd))
          /\ Adopt(L)
          /\ out' = [kind |-> "err"]
          /\ UNCHANGED <<fwd, call, ref, pflush, skip, dead, known>>

TDelete ==
  /\ ~dead /\ IsEvent("delete")
  /\ IF ~StateOK(Ev.st)
     THEN Report({"stateError"}) /\ dead' = TRUE /\ UNCHANGED <<vars, skip, known>>
     ELSE LET L == Logged(Ev.st)
              ok == DeleteOK(Ev.op)
              n == DeleteNext(Ev.op)
              C == [rib |-> n.rib, pend |-> pend, refNH |-> n.refNH, refNHG |-> n.refNHG, mirror |-> n.mirror]
              acked == Ev.oks # <<>>
              R2 == IF acked THEN RefApply(ref, Ev.op) ELSE ref
              hadTop == ok /\ Ev.op.kind \in TopKinds /\ Ev.op.bad = "" /\ HasE(rib, Ev.op.ni, "top", Key(Ev.op))
              tag == IF Ev.op.bad # "" THEN "Bad" ELSE ""
          IN
          /\ Report((IF ~ok THEN {"deleteUnexpected"}
                     ELSE Flag(n.out.oks # Ev.oks \/ n.out.fails # Ev.fails, "delVerdict" \o tag)
                          \cup {x \o tag : x \in Diff(C, L)}
                          \cup RsnapDiff(hadTop, "Delete", Ev.op.ni, Ev.op.kind, Ev.op.key, n.rib))
                    \cup RealProps(L, R2, pflush, fwd))
          /\ Adopt(L)
          /\ ref' = R2
          /\ out' = [kind |-> "del", oks |-> Ev.oks, fails |-> Ev.fails]
          /\ UNCHANGED <<fwd, call, pflush, skip, dead, known>>

TFlush ==
  /\ ~dead /\ IsEvent("flush")
  /\ IF ~StateOK(Ev.st)
     THEN Report({"stateError"}) /\ dead' = TRUE /\ UNCHANGED <<vars, skip, known>>
     ELSE LET L == Logged(Ev.st)
              S == ToSet(Ev.nis)
              ok == FlushOK(S)
              n == FlushNext(S)
              C == [rib |-> n.rib, pend |-> pend, refNH |-> n.refNH, refNHG |-> n.refNHG, mirror |-> n.mirror]
              R2 == IF ok THEN n.ref ELSE ref
              pf == IF ok THEN n.pflush ELSE pflush
          IN
          /\ Report((IF ~ok THEN {"flushUnexpected"}
                     ELSE Flag(~Ev.ok, "flushResult") \cup {"flush:" \o x : x \in Diff(C, L)})
                    \cup RealProps(L, R2, pf, fwd))
          /\ Adopt(L)
          /\ ref' = R2 /\ pflush' = pf
          /\ out' = [kind |-> "flush", ok |-> Ev.ok]
          /\ UNCHANGED <<fwd, call, skip, dead, known>>

TAddNI ==
  /\ ~dead /\ IsEvent("addni")
  /\ IF ~StateOK(Ev.st)
     THEN Report({"stateError"}) /\ dead' = TRUE /\ UNCHANGED <<vars, skip, known>>
     ELSE LET L == Logged(Ev.st)
              ok == AddNIOK(Ev.ni)
              C == [rib |-> Put(rib, Ev.ni, EmptyNI), pend |-> pend, refNH |-> Put(refNH, Ev.ni, EmptyFn),
                    refNHG |-> Put(refNHG, Ev.ni, EmptyFn), mirror |-> Put(mirror, Ev.ni, EmptyNI)]
              R2 == IF ok THEN Put(ref, Ev.ni, EmptyNI) ELSE ref
          IN
          /\ Report((IF ~ok THEN {"addniUnexpected"} ELSE Flag(~Ev.ok, "addniResult") \cup Diff(C, L))
                    \cup RealProps(L, R2, pflush, fwd))
          /\ Adopt(L)
          /\ ref' = R2
          /\ out' = [kind |-> "addni"]
          /\ UNCHANGED <<fwd, call, pflush, skip, dead, known>>

\* end of a segment: every resolved-entry snapshot was delivered and is unchanged
TSnapCheck ==
  /\ ~dead /\ IsEvent("snapcheck")
  /\ Report(Flag(~Ev.same, "snapMutated") \cup Flag(Ev.delivered # Ev.n, "snapUndelivered"))
  /\ UNCHANGED <<vars, skip, dead, known>>

\* the consumer of the post-change hook is slow over the next notification: no step of the specification
THookStall ==
  /\ ~dead /\ IsEvent("hookstall")
  /\ UNCHANGED <<vars, skip, dead, known>>

\* a call on a RIB built without the reference checks (DisableRIBCheckFn): the specification does not
\* model what it holds; the logged state is adopted and only MirrorIsRib is evaluated on it (C16)
TUnchecked ==
  /\ ~dead /\ IsEvent("unchecked")
  /\ IF ~StateOK(Ev.st)
     THEN Report({"stateError"}) /\ dead' = TRUE /\ UNCHANGED <<vars, skip, known>>
     ELSE LET L == Logged(Ev.st) IN
          /\ Report(Flag(L.mirror # L.rib, "mirrorVsRib"))
          /\ Adopt(L)
          /\ ref' = L.rib /\ pflush' = FALSE
          /\ UNCHANGED <<fwd, call, out, skip, dead, known>>

TraceNext == TReset \/ TDead \/ TPanic \/ TAddBegin \/ TTry \/ TAddEnd \/ TCallErr \/ TDelete
             \/ TFlush \/ TAddNI \/ TSnapCheck \/ THookStall \/ TUnchecked

TraceSpec == TraceInit /\ [][TraceNext]_tvars

Matched == TLCGet("stats").diameter - 1
TraceAccepted ==
  /\ PrintT(<<"TRACE", "matched", Matched, "of", Len(TraceLog)>>)
  /\ Matched = Len(TraceLog)
=============================================================================
