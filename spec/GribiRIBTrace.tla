--------------------------- MODULE GribiRIBTrace ---------------------------
(* TraceLog validation: a trace recorded from the real rib package (one line   *)
(* per action of GribiRIB, written by the Go harness from the verif hooks)  *)
(* is accepted iff it is a behaviour of GribiRIB.  Every logged result and  *)
(* the complete projected state after every call are compared; every        *)
(* invariant of GribiRIB is evaluated in every state of the trace.          *)
EXTENDS GribiRIB, Json

CONSTANT TraceFile
TraceLog == ndJsonDeserialize(TraceFile)

VARIABLE l
tvars == <<vars, l>>

Ev == TraceLog[l]
IsEvent(e) == l <= Len(TraceLog) /\ TraceLog[l].ev = e /\ l' = l + 1

ToSet(s) == {s[i] : i \in DOMAIN s}
LogNHG(e) == [pl |-> e.pl, nhs |-> ToSet(e.nhs), bk |-> e.bk]
LogNI(x)  == [nh |-> x.nh, nhg |-> [k \in DOMAIN x.nhg |-> LogNHG(x.nhg[k])], top |-> x.top]
LogRib(r) == [n \in DOMAIN r |-> LogNI(r[n])]
LogPend(p) == [id \in {p[i].id : i \in DOMAIN p} |-> CHOOSE o \in ToSet(p) : o.id = id]

\* the complete projected state of the implementation equals the specification's
Match(st) ==
  /\ "error" \notin DOMAIN st
  /\ rib' = LogRib(st.rib)
  /\ pend' = LogPend(st.pend)
  /\ refNH' = st.refNH
  /\ refNHG' = st.refNHG
  /\ mirror' = LogRib(st.mirror)

\* a resolved-entry notification: announced at the right moment, with a
\* snapshot equal to the RIB right after the change (C16)
Resolved(typ, ni, kind) ==
  /\ "rsnap" \in DOMAIN Ev
  /\ Ev.rsnap.typ = typ /\ Ev.rsnap.ni = ni /\ Ev.rsnap.kind = kind
  /\ LogRib(Ev.rsnap.snap) = rib'
NotResolved == "rsnap" \notin DOMAIN Ev

TraceInit == Init({DefaultNI}, TRUE) /\ l = 1

TReset == IsEvent("reset") /\ Reset(ToSet(Ev.nis), Ev.fwd)

TAddBegin == IsEvent("addbegin") /\ CallBegin(Ev.op)

TTry ==
  /\ IsEvent("try")
  /\ \E e \in (IF call.active /\ call.stack # <<>> THEN call.stack[Len(call.stack)] ELSE {}) :
        /\ e.id = Ev.id
        /\ Outcome(e) = Ev.out
        /\ Try(e)
        /\ IF Ev.out = "installed" /\ e.kind \in TopKinds
           THEN Resolved("Add", e.ni, e.kind) ELSE NotResolved

TAddEnd ==
  /\ IsEvent("addend")
  /\ CallEnd
  /\ call.oks = Ev.oks /\ call.fails = Ev.fails
  /\ Match(Ev.st)

TCallErr == IsEvent("callerr") /\ CallErr(Ev.op) /\ Match(Ev.st)

TDelete ==
  /\ IsEvent("delete")
  /\ Delete(Ev.op)
  /\ out'.oks = Ev.oks /\ out'.fails = Ev.fails
  /\ Match(Ev.st)
  /\ IF Ev.op.kind \in TopKinds /\ Ev.op.bad = "" /\ HasE(rib, Ev.op.ni, "top", Key(Ev.op))
     THEN Resolved("Delete", Ev.op.ni, Ev.op.kind) ELSE NotResolved

TFlush == IsEvent("flush") /\ Flush(ToSet(Ev.nis)) /\ Ev.ok /\ Match(Ev.st)

TAddNI == IsEvent("addni") /\ AddNI(Ev.ni) /\ Ev.ok /\ Match(Ev.st)

\* end of a segment: every resolved-entry snapshot was delivered and is unchanged
TSnapCheck == IsEvent("snapcheck") /\ Ev.same /\ Ev.delivered = Ev.n /\ UNCHANGED vars

TraceNext == TReset \/ TAddBegin \/ TTry \/ TAddEnd \/ TCallErr \/ TDelete \/ TFlush \/ TAddNI \/ TSnapCheck

TraceSpec == TraceInit /\ [][TraceNext]_tvars

Matched == TLCGet("stats").diameter - 1
TraceAccepted ==
  /\ PrintT(<<"TRACE", "matched", Matched, "of", Len(TraceLog)>>)
  /\ Matched = Len(TraceLog)
=============================================================================
