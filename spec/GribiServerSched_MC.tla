------------------------- MODULE GribiServerSched_MC -------------------------
(* Bounded instance of GribiServerSched: two or three negotiated sessions that  *)
(* announce ids and send requests of one or two operations, a Flush caller, in  *)
(* every interleaving of their handlers' gate-to-gate segments.  `hist` is the  *)
(* schedule replayed into the real server through its gates (vh sched-run).     *)
EXTENDS GribiServerSched, Json

CONSTANTS Sess, LoVals, MaxMsgs, MaxOpsPerReq, WithFlush, WithClose, EmitOn,
          Prefix   \* "none": fresh sessions; "takeover": s1 announced <<0,1>> and was then superseded by s2 announcing the same id
VARIABLES hist, nmsg, nextid
mcvars == <<schedvars, hist, nmsg, nextid>>

Ids == {0} \X LoVals
OpOf(id, k, e) == [id |-> id, key |-> k, eid |-> e, typ |-> "ADD"]
\* a request: operations stamped with the session's own last id or with another id of the lattice
Reqs(s) ==
  LET Es == {sess[s].last, NoId} \cup Ids IN
       {<<OpOf(nextid, nextid, e)>> : e \in Es}
  \cup (IF MaxOpsPerReq >= 2 THEN {<<OpOf(nextid, nextid, e1), OpOf(nextid + 1, nextid + 1, e2)>> : e1 \in {sess[s].last}, e2 \in Es}
                                   \cup {<<OpOf(nextid, nextid, e1), OpOf(nextid + 1, nextid + 1, e2)>> : e1 \in Es, e2 \in {sess[s].last}}
        ELSE {})

One == <<0, 1>>
TakeoverInit ==
  /\ sess = [s \in Sess |-> [params |-> "p", set |-> TRUE, last |-> IF s \in {"s1", "s2"} THEN One ELSE NoId]]
  /\ cur = One /\ master = "s2" /\ versions = << <<NoId, "">>, <<One, "s1">>, <<One, "s2">> >>
  /\ seen = [s \in Sess |-> IF s = "s1" THEN 2 ELSE IF s = "s2" THEN 3 ELSE 1]
  /\ stored = [s \in Sess |-> IF s \in {"s1", "s2"} THEN {One} ELSE {}]
  /\ hpc = [s \in Sess |-> IdleH] /\ snap = [s \in Sess |-> NoSnap] /\ nh = {}
  /\ out = [s \in Sess |-> IF s \in {"s1", "s2"} THEN << [k |-> "elec", id |-> One, op |-> 0, st |-> ""] >> ELSE <<>>]
  /\ fl = [st |-> "idle", ok |-> FALSE]
  /\ hist = << [a |-> "annbegin", s |-> "s1", id |-> One], [a |-> "annend", s |-> "s1"],
               [a |-> "annbegin", s |-> "s2", id |-> One], [a |-> "annend", s |-> "s2"] >>
MCInit == (IF Prefix = "takeover" THEN TakeoverInit ELSE SchedInit(Sess) /\ hist = <<>>) /\ nmsg = 0 /\ nextid = 1
H(r) == hist' = Append(hist, r)

MCNext ==
  \/ /\ nmsg < MaxMsgs
     /\ \E s \in Sess : \E id \in Ids : AnnBegin(s, id) /\ H([a |-> "annbegin", s |-> s, id |-> id])
     /\ nmsg' = nmsg + 1 /\ UNCHANGED nextid
  \/ \E s \in Sess : AnnEnd(s) /\ H([a |-> "annend", s |-> s]) /\ UNCHANGED <<nmsg, nextid>>
  \/ /\ nmsg < MaxMsgs
     /\ \E s \in Sess : Live(s) /\ \E ops \in Reqs(s) : ModBegin(s, ops) /\ H([a |-> "modbegin", s |-> s, ops |-> ops]) /\ nextid' = nextid + Len(ops)
     /\ nmsg' = nmsg + 1
  \/ \E s \in Sess : SnapPass(s) /\ H([a |-> "snappass", s |-> s]) /\ UNCHANGED <<nmsg, nextid>>
  \/ \E s \in Sess : ModOp(s) /\ H([a |-> "modop", s |-> s]) /\ UNCHANGED <<nmsg, nextid>>
  \/ /\ WithFlush /\ nmsg < MaxMsgs
     /\ \E id \in Ids : FlushBegin(id) /\ H([a |-> "flushbegin", id |-> id])
     /\ nmsg' = nmsg + 1 /\ UNCHANGED nextid
  \/ FlushEnd /\ H([a |-> "flushend"]) /\ UNCHANGED <<nmsg, nextid>>
  \/ /\ WithClose /\ nmsg < MaxMsgs
     /\ \E s \in Sess : SessClose(s) /\ H([a |-> "close", s |-> s])
     /\ nmsg' = nmsg + 1 /\ UNCHANGED nextid

MCSpec == MCInit /\ [][MCNext]_mcvars
View == <<schedvars, nmsg, nextid>>
Complete == nmsg = MaxMsgs /\ (\A s \in Sess : hpc[s].st \in {"idle", "closed"}) /\ fl.st = "idle"
Emit == (EmitOn /\ Complete) => PrintT("@@" \o ToJson([sess |-> Sess, steps |-> hist]))
=============================================================================
