--------------------------- MODULE GribiFluentTrace ---------------------------
(* Trace validation for the fluent API (C18): every step of a program run on *)
(* the real fluent package is an action of GribiFluent; what EntryProto()    *)
(* yields for a builder when it is queued, and the complete sequence of      *)
(* ModifyRequests that reached the (recording) stream once sending started,  *)
(* are compared with the specification.                                      *)
EXTENDS GribiFluent, Json

CONSTANT TraceFile
TraceLog == ndJsonDeserialize(TraceFile)
VARIABLES l, bad
ftvars == <<fvars, l, bad>>

Ev == TraceLog[l]
IsEvent(e) == l <= Len(TraceLog) /\ TraceLog[l].ev = e /\ l' = l + 1
Flag(b, name) == IF b THEN {name} ELSE {}
Report(comps) == IF comps = {} THEN TRUE ELSE PrintT(<<"MISMATCH", l, Ev.ev, comps>>)

FTInit == FInit /\ l = 1 /\ bad = FALSE

TStart ==
  /\ IsEvent("fstart")
  /\ Report(Flag(~Ev.ok, "fluentStart"))
  /\ FStart(Ev.mode, Ev.init) /\ bad' = ~Ev.ok

TNew == IsEvent("fnew") /\ FNew(Ev.b, Ev.kind) /\ UNCHANGED bad

TCall ==
  /\ IsEvent("fcall")
  /\ Report(Flag("error" \in DOMAIN Ev, "fluentCallError"))
  /\ IF Ev.b \in DOMAIN builders /\ Ev.m \in Methods(builders[Ev.b].kind)
     THEN FCall(Ev.b, Ev.m, Ev.a) ELSE UNCHANGED fvars
  /\ UNCHANGED bad

TQueue ==
  /\ IsEvent("fq")
  /\ LET ok == \A i \in DOMAIN Ev.bs : Ev.bs[i] \in DOMAIN builders IN
     /\ Report(Flag(Ev.fatal \/ "panic" \in DOMAIN Ev, "fluentQueueFailed")
               \cup Flag(ok /\ \E i \in DOMAIN Ev.bs :
                            LET b == builders[Ev.bs[i]] IN
                            "error" \in DOMAIN Ev.entries[i] \/ Ev.entries[i] # [ni |-> b.ni, kind |-> b.kind, f |-> b.f], "fluentEntryProto"))
     /\ IF ok /\ ~Ev.fatal THEN FQueue(Ev.typ, Ev.bs) ELSE UNCHANGED fvars
  /\ UNCHANGED bad

TInject == IsEvent("finject") /\ FInject(Ev.ids) /\ UNCHANGED bad
TRestart == IsEvent("frestart") /\ FRestart /\ UNCHANGED bad
TUpdate == IsEvent("fupd") /\ FUpdate(Ev.id) /\ UNCHANGED bad
\* StartSending: changes nothing in what the program means (ids keep counting, the election id stays)
TSend == IsEvent("fsend") /\ UNCHANGED <<fvars, bad>>

TSent ==
  /\ IsEvent("fsent")
  /\ Report(IF bad THEN {} ELSE
            Flag(Len(Ev.msgs) # Len(Sent), "fluentSentCount")
            \cup Flag(Len(Ev.msgs) = Len(Sent) /\ Ev.msgs # Sent,
                      IF \E i \in DOMAIN Sent : Sent[i].k = "ops" /\ Ev.msgs[i].k = "ops" /\ Len(Sent[i].ops) = Len(Ev.msgs[i].ops)
                            /\ \E j \in DOMAIN Sent[i].ops : Sent[i].ops[j].id # Ev.msgs[i].ops[j].id
                      THEN "fluentIds" ELSE "fluentSent"))
  /\ UNCHANGED <<fvars, bad>>

FTNext == TStart \/ TNew \/ TCall \/ TQueue \/ TInject \/ TRestart \/ TUpdate \/ TSend \/ TSent
FTSpec == FTInit /\ [][FTNext]_ftvars

Matched == TLCGet("stats").diameter - 1
TraceAccepted ==
  /\ PrintT(<<"TRACE", "matched", Matched, "of", Len(TraceLog)>>)
  /\ Matched = Len(TraceLog)
=============================================================================
