---------------------------- MODULE GribiFluent_MC ----------------------------
(* Bounded program generation for the fluent API: TLC enumerates / samples   *)
(* programs of builder calls, queue calls and election updates and prints    *)
(* them for the Go harness.                                                  *)
EXTENDS GribiFluent, Json

CONSTANTS BKinds,    \* builder kinds used (at most one builder per kind plus a second next-hop)
          MaxSteps, MaxBuilders, Modes, EmitOn

VARIABLES n, hist
mcvars == <<fvars, n, hist>>

Ids == {<<"0", "1">>, <<"0", "2">>, <<"1", "1">>}
ArgSets(m) ==
  CASE m \in {"WithNetworkInstance", "WithNextHopNetworkInstance", "WithNextHopGroupNetworkInstance"} -> {<<"DEFAULT">>, <<"vrf1">>}
    [] m \in {"WithIndex", "WithID", "WithBackupNHG", "WithNextHopGroup"} -> {<<"1">>, <<"2">>}
    [] m = "WithLabel" -> {<<"100">>, <<"101">>}
    [] m = "WithElectionID" -> {<<"1", "0">>, <<"3", "1">>, <<"0", "0">>}   \* the last: an explicit all-zero id (still "its own")
    [] m = "WithIPAddress" -> {<<"192.0.2.1">>, <<"192.0.2.2">>}
    [] m = "WithInterfaceRef" -> {<<"eth0">>, <<"eth1">>}
    [] m = "WithSubinterfaceRef" -> {<<"eth0", "1">>, <<"eth1", "2">>}
    [] m = "WithMacAddress" -> {<<"00:11:22:33:44:55">>}
    [] m = "WithIPinIP" -> {<<"198.51.100.1", "198.51.100.2">>}
    [] m = "WithPopTopLabel" -> {<<>>}
    [] m \in {"WithPushedLabelStack", "WithPoppedLabelStack", "AddEncapHeaderMPLS"} -> {<<>>, <<"100">>, <<"100", "200">>}
    [] m \in {"WithDecapsulateHeader", "WithEncapsulateHeader"} -> {<<"IPinIP">>, <<"MPLS">>}
    [] m = "AddEncapHeaderUDPV6" -> {<<"1", "2001:db8::1", "2", "3", "2001:db8::2", "4">>}
    [] m = "AddNextHop" -> {<<"1", "1">>, <<"2", "0">>, <<"1", "3">>}
    [] m = "WithPrefix" -> {<<"10.0.0.0/24">>, <<"10.0.1.0/24">>}
    [] m = "WithMetadata" -> {<<"0102">>, <<"ff">>}
    [] OTHER -> {<<>>}

BName(i) == "b" \o ToString(i)

MCInit ==
  /\ FInit /\ n = 0 /\ hist = <<>>

H(rec) == hist' = Append(hist, rec) /\ n' = n + 1

MCNext ==
  \/ /\ ~started
     /\ \E md \in Modes : \E id \in Ids : FStart(md, id) /\ H([s |-> "start", mode |-> md, init |-> id])
  \/ /\ started /\ n < MaxSteps /\ Cardinality(DOMAIN builders) < MaxBuilders
     /\ \E kd \in BKinds : LET b == BName(Cardinality(DOMAIN builders) + 1) IN FNew(b, kd) /\ H([s |-> "new", b |-> b, kind |-> kd])
  \/ /\ started /\ n < MaxSteps
     /\ \E b \in DOMAIN builders : \E m \in Methods(builders[b].kind) : \E a \in ArgSets(m) :
          FCall(b, m, a) /\ H([s |-> "call", b |-> b, m |-> m, a |-> a])
  \/ /\ started /\ n < MaxSteps /\ DOMAIN builders # {}
     /\ \E typ \in {"ADD", "REPLACE", "DELETE"} : \E bs \in {<<b>> : b \in DOMAIN builders} \cup {<<b, c>> : b, c \in DOMAIN builders} :
          FQueue(typ, bs) /\ H([s |-> "q", typ |-> typ, bs |-> bs])
  \/ /\ started /\ n < MaxSteps
     /\ \E id \in Ids : FUpdate(id) /\ H([s |-> "upd", id |-> id])
  \* a pre-formed request with explicit ids (above and below each other, far from the automatic ones)
  \/ /\ started /\ n < MaxSteps /\ Cardinality(rawpos) < 2
     /\ \E ids \in {<<500>>, <<400>>, <<501, 450>>} : \E via \in {"inject", "enqueue"} :
          FInject(ids) /\ H([s |-> "inject", ids |-> ids, via |-> via])
  \* Stop + Start in the middle of a program (at most once, and before sending starts)
  \/ /\ started /\ n < MaxSteps /\ ~\E i \in DOMAIN hist : hist[i].s \in {"restart", "send"}
     /\ FRestart /\ H([s |-> "restart"])
  \* StartSending in the middle of a program (at most once): what was queued goes out, what is queued later follows
  \/ /\ started /\ n < MaxSteps /\ ~\E i \in DOMAIN hist : hist[i].s = "send"
     /\ UNCHANGED fvars /\ H([s |-> "send"])

MCSpec == MCInit /\ [][MCNext]_mcvars
View == <<started, mode, initId, curId, opCount, builders, queued, rawpos, base, n>>
Complete == n = MaxSteps
Emit == (EmitOn /\ Complete) => PrintT("@@" \o ToJson(hist))
=============================================================================
