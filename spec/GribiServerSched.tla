--------------------------- MODULE GribiServerSched ---------------------------
(***************************************************************************)
(* Concurrent Modify sessions (and a Flush caller) of one server at the    *)
(* grain of the points where their handlers can interleave.  It extends    *)
(* GribiServerCS (the lock-protected critical sections) with the request   *)
(* path of server/server.go:                                               *)
(*                                                                         *)
(*  runElection   StoreElec(s,id)  | gate elec.stored |  ElecCAS(s,id),    *)
(*                                                       reply = cur       *)
(*  doModify      snapshot of (master, cur, own last id), once per request *)
(*                | gate mod.snapshot |                                    *)
(*                per operation: | gate mod.op | checkElectionForModify    *)
(*                against THAT snapshot, then the RIB call, then the reply *)
(*  Flush         checkFlushRequest against cur | gate flush.checked |     *)
(*                rib.Flush                                                *)
(*                                                                         *)
(* A handler parked at a gate holds no lock; any other handler may run a   *)
(* whole critical section (or several) meanwhile.  The RIB is reduced to   *)
(* next-hop keys (what C04 needs: did the operation change the RIB).       *)
(***************************************************************************)
EXTENDS GribiServerCS

VARIABLES hpc,     \* session -> handler state [st : "idle" | "cas" | "snap" | "op" | "closed", id, ops]
          snap,    \* session -> the snapshot its current request took
          nh,      \* installed next-hop keys
          out,     \* session -> sequence of replies written so far: [k : "elec" | "res" | "end", id (election id), op (operation id), st]
          fl       \* the Flush caller: [st : "idle" | "checked" , ok]
schedvars == <<csvars, hpc, snap, nh, out, fl>>

NoSnap == [master |-> "", cur |-> NoId, last |-> NoId]
IdleH  == [st |-> "idle", id |-> NoId, ops |-> <<>>]

\* sessions are already negotiated (SINGLE_PRIMARY, PRESERVE, RIB ack)
SchedInit(S) ==
  /\ sess = [s \in S |-> [params |-> "p", set |-> TRUE, last |-> NoId]]
  /\ cur = NoId /\ master = "" /\ versions = << <<NoId, "">> >> /\ seen = [s \in S |-> 1] /\ stored = [s \in S |-> {}]
  /\ hpc = [s \in S |-> IdleH] /\ snap = [s \in S |-> NoSnap] /\ nh = {} /\ out = [s \in S |-> <<>>]
  /\ fl = [st |-> "idle", ok |-> FALSE]

Live(s) == s \in DOMAIN sess /\ hpc[s].st # "closed"

(* ---- election ---- *)
AnnBegin(s, id) ==
  /\ Live(s) /\ hpc[s].st = "idle" /\ id # NoId
  /\ StoreElec(s, id)
  /\ hpc' = [hpc EXCEPT ![s] = [st |-> "cas", id |-> id, ops |-> <<>>]]
  /\ UNCHANGED <<snap, nh, out, fl>>
AnnEnd(s) ==
  /\ hpc[s].st = "cas"
  /\ ElecCAS(s, hpc[s].id)
  /\ out' = [out EXCEPT ![s] = Append(@, [k |-> "elec", id |-> cur', op |-> 0, st |-> ""])]
  /\ hpc' = [hpc EXCEPT ![s] = IdleH]
  /\ UNCHANGED <<snap, nh, fl>>

(* ---- operations ---- *)
\* o = [id, key, eid, typ : "ADD" | "DELETE"]; eid = NoId: the operation carries no election id
ModBegin(s, ops) ==
  /\ Live(s) /\ hpc[s].st = "idle" /\ ops # <<>>
  /\ snap' = [snap EXCEPT ![s] = [master |-> master, cur |-> cur, last |-> sess[s].last]]
  /\ hpc' = [hpc EXCEPT ![s] = [st |-> "snap", id |-> NoId, ops |-> ops]]
  /\ seen' = Put(seen, s, Len(versions))
  /\ UNCHANGED <<sess, cur, master, versions, stored, nh, out, fl>>
SnapPass(s) ==
  /\ hpc[s].st = "snap"
  /\ hpc' = [hpc EXCEPT ![s].st = "op"]
  /\ UNCHANGED <<csvars, snap, nh, out, fl>>

\* checkElectionForModify on the request's snapshot
\* (the messages of one stream are processed in the order in which they arrive: the snapshot of a request reflects exactly the
\* announcements that preceded it on its own stream)
OpVerdictSn(sn, s, o) ==
  IF o.eid = NoId THEN [k |-> "err", code |-> "FailedPrecondition"]     \* the operation carries no election id
  ELSE IF sn.master = "" \/ sn.cur = NoId THEN [k |-> "err", code |-> "Internal"]
  ELSE IF sn.last = NoId THEN [k |-> "err", code |-> "FailedPrecondition"]
  ELSE IF s # sn.master THEN [k |-> "failed", code |-> ""]
  ELSE IF o.eid # sn.last THEN [k |-> "failed", code |-> ""]
  ELSE IF IdLT(sn.cur, o.eid) THEN [k |-> "err", code |-> "FailedPrecondition"]
  ELSE IF IdLT(o.eid, sn.cur) THEN [k |-> "failed", code |-> ""]
  ELSE [k |-> "rib", code |-> ""]
OpVerdict(s, o) == OpVerdictSn(snap[s], s, o)

ModOp(s) ==
  /\ hpc[s].st = "op"
  /\ LET o == Head(hpc[s].ops)
         v == OpVerdict(s, o)
         rest == Tail(hpc[s].ops)
     IN
     CASE v.k = "err" ->
            /\ out' = [out EXCEPT ![s] = Append(@, [k |-> "end", id |-> NoId, op |-> 0, st |-> v.code])]
            /\ hpc' = [hpc EXCEPT ![s] = [st |-> "closed", id |-> NoId, ops |-> <<>>]]
            /\ sess' = Del(sess, s)
            /\ UNCHANGED <<nh, cur, master, versions, seen, stored>>
       [] v.k = "failed" ->
            /\ out' = [out EXCEPT ![s] = Append(@, [k |-> "res", id |-> NoId, op |-> o.id, st |-> "FAILED"])]
            /\ hpc' = [hpc EXCEPT ![s] = IF rest = <<>> THEN IdleH ELSE [@ EXCEPT !.ops = rest]]
            /\ UNCHANGED <<nh, csvars>>
       [] OTHER ->
            /\ nh' = IF o.typ = "DELETE" THEN nh \ {o.key} ELSE nh \cup {o.key}
            /\ out' = [out EXCEPT ![s] = Append(@, [k |-> "res", id |-> NoId, op |-> o.id, st |-> "RIB"])]
            /\ hpc' = [hpc EXCEPT ![s] = IF rest = <<>> THEN IdleH ELSE [@ EXCEPT !.ops = rest]]
            /\ UNCHANGED csvars
  /\ UNCHANGED <<snap, fl>>

(* ---- Flush (election id given) ---- *)
FlushBegin(id) ==
  /\ fl.st = "idle"
  /\ fl' = [st |-> "checked", ok |-> (cur # NoId /\ id # NoId /\ IdLE(cur, id))]
  /\ UNCHANGED <<csvars, hpc, snap, nh, out>>
FlushEnd ==
  /\ fl.st = "checked"
  /\ nh' = IF fl.ok THEN {} ELSE nh
  /\ fl' = [st |-> "idle", ok |-> fl.ok]
  /\ UNCHANGED <<csvars, hpc, snap, out>>

(* ---- a session goes away (clean half-close while idle) ---- *)
SessClose(s) ==
  /\ Live(s) /\ hpc[s].st = "idle"
  /\ sess' = Del(sess, s) /\ hpc' = [hpc EXCEPT ![s].st = "closed"]
  /\ out' = [out EXCEPT ![s] = Append(@, [k |-> "end", id |-> NoId, op |-> 0, st |-> "OK"])]
  /\ UNCHANGED <<cur, master, versions, seen, stored, snap, nh, fl>>

-----------------------------------------------------------------------------
(* Properties *)
\* C05 / C11: the learnt id never decreases; at quiescence it is the maximum stored and its holder stored it
SchedMonotone == [][IdLE(cur, cur')]_schedvars
SchedQuiescent == (\A s \in DOMAIN hpc : hpc[s].st \in {"idle", "closed"}) => QuiescentOK
\* C05: every election reply carries the learnt id at the moment of the compare-and-set: never below the announced id
RepliesAtLeastAnnounced ==
  \A s \in DOMAIN out : \A i \in DOMAIN out[s] : out[s][i].k = "elec" => out[s][i].id # NoId
\* C04: an operation changes the RIB only under a snapshot in which its session is primary and the three ids agree
WriterOK(s) == snap[s].master = s /\ snap[s].last = snap[s].cur /\ snap[s].cur # NoId
OnlyPrimarySnapshotWrites ==
  [][\A s \in DOMAIN hpc : (nh' # nh /\ hpc[s].st = "op" /\ hpc'[s] # hpc[s]) => (WriterOK(s) /\ Head(hpc[s].ops).eid = snap[s].cur)]_schedvars
=============================================================================
