------------------------ MODULE GribiServerSchedTrace ------------------------
(* Trace validation of session interleavings (C04, C05, C06, C11): the Go      *)
(* harness replays schedules of GribiServerSched into one real server, one     *)
(* gate-to-gate segment of one handler per step, and logs after every step     *)
(* the learnt election id, the primary, every session's recorded id, the       *)
(* installed next-hops and the replies that the step produced.  Every step     *)
(* must be the specification's action and lead to the logged observation.      *)
EXTENDS GribiServerSched, Json

CONSTANT TraceFile
TraceLog == ndJsonDeserialize(TraceFile)
VARIABLE l
stvars == <<schedvars, l>>

Ev == TraceLog[l]
IsEvent(e) == l <= Len(TraceLog) /\ TraceLog[l].ev = e /\ l' = l + 1
Flag(b, name) == IF b THEN {name} ELSE {}
Report(comps) == IF comps = {} THEN TRUE ELSE PrintT(<<"MISMATCH", l, Ev.ev, comps>>)
ToSetOf(seq) == {seq[i] : i \in DOMAIN seq}

Act(e) ==
  CASE e.a = "annbegin"   -> AnnBegin(e.s, e.id)
    [] e.a = "annend"     -> AnnEnd(e.s)
    [] e.a = "modbegin"   -> ModBegin(e.s, e.ops)
    [] e.a = "snappass"   -> SnapPass(e.s)
    [] e.a = "modop"      -> ModOp(e.s)
    [] e.a = "flushbegin" -> FlushBegin(e.id)
    [] e.a = "flushend"   -> FlushEnd
    [] e.a = "close"      -> SessClose(e.s)
    [] OTHER -> FALSE

\* the replies the step added for its session, as logged
NewOut(s) == IF s \in DOMAIN out THEN SubSeq(out'[s], Len(out[s]) + 1, Len(out'[s])) ELSE <<>>
LoggedNew(e) == [i \in DOMAIN e.new |-> [k |-> e.new[i].k, id |-> e.new[i].id, op |-> e.new[i].op, st |-> e.new[i].st]]

StDiff(e) ==
       Flag(e.cur # cur', "schedCur") \cup Flag(e.master # master', "schedMaster")
  \cup Flag(\E s \in DOMAIN sess' : s \notin DOMAIN e.last \/ e.last[s] # sess'[s].last, "schedLast")
  \cup Flag(DOMAIN e.last # DOMAIN sess', "schedSessions")
  \cup Flag(ToSetOf(e.nh) # nh', "schedRib")
  \cup Flag(e.s # "" /\ LoggedNew(e) # NewOut(e.s), "schedReplies")
  \cup Flag(e.a = "flushend" /\ (e.flush = "OK") # fl'.ok, "schedFlushVerdict")

STInit == SchedInit({}) /\ l = 1

TStart ==
  /\ IsEvent("sstart")
  /\ LET S == ToSetOf(Ev.sess) IN
     /\ sess' = [s \in S |-> [params |-> "p", set |-> TRUE, last |-> NoId]]
     /\ cur' = NoId /\ master' = "" /\ versions' = << <<NoId, "">> >> /\ seen' = [s \in S |-> 1] /\ stored' = [s \in S |-> {}]
     /\ hpc' = [s \in S |-> IdleH] /\ snap' = [s \in S |-> NoSnap] /\ nh' = {} /\ out' = [s \in S |-> <<>>]
     /\ fl' = [st |-> "idle", ok |-> FALSE]
  /\ Report(Flag(~Ev.ready, "schedSetup"))

TStep ==
  /\ IsEvent("sstep")
  /\ IF ~Ev.ok THEN UNCHANGED schedvars /\ Report({"schedStall"})
     ELSE IF ENABLED Act(Ev) THEN Act(Ev) /\ Report(StDiff(Ev))
     ELSE UNCHANGED schedvars /\ Report({"schedNotEnabled"})

TEnd == IsEvent("send") /\ UNCHANGED schedvars /\ Report(Flag(~Ev.clean, "schedHang"))

\* a burst on one stream: many operations under the announced id <<0,1>>, one operation stamped <<0,2>>, then the announcement
\* of <<0,2>> - sent without waiting. The early operation is judged against the snapshot of its own request: the session is
\* primary, learnt and recorded id <<0,1>>.
TPipe ==
  /\ IsEvent("spipe")
  /\ UNCHANGED schedvars
  /\ LET v == OpVerdictSn([master |-> "s1", cur |-> <<0, 1>>, last |-> <<0, 1>>], "s1", [id |-> 999, key |-> 999, eid |-> <<0, 2>>, typ |-> "ADD"]) IN
     Report(Flag(~Ev.ok, "schedSetup")
            \cup Flag(Ev.ok /\ ((Ev.early = "RIB_PROGRAMMED") # (v.k = "rib") \/ Ev.earlyInstalled # (v.k = "rib")), "schedStreamOrder")
            \cup Flag(Ev.ok /\ Ev.elec # <<0, 2>>, "schedCur"))

\* a violation by a client that has stopped reading (the write of an earlier answer is held up): the RPC ends with the status
\* GribiServer assigns to the violation (zero election id, repeated parameters, two fields populated) and the session's footprint
\* goes - a later session negotiates another acknowledgement type
TBlocked ==
  /\ IsEvent("sblock")
  /\ UNCHANGED schedvars
  /\ LET want == CASE Ev.violation = "paramsAgain" -> "FailedPrecondition" [] OTHER -> "InvalidArgument" IN
     Report(Flag(~Ev.ok, "schedSetup")
            \cup Flag(Ev.ok /\ ~Ev.returned, "schedViolationNotEnded")
            \cup Flag(Ev.ok /\ Ev.returned /\ Ev.code # want, "schedViolationStatus")
            \cup Flag(Ev.ok /\ Ev.later # "negotiated", "schedFootprintLeft"))

STNext == TStart \/ TStep \/ TEnd \/ TPipe \/ TBlocked
STSpec == STInit /\ [][STNext]_stvars

Matched == TLCGet("stats").diameter - 1
TraceAccepted ==
  /\ PrintT(<<"TRACE", "matched", Matched, "of", Len(TraceLog)>>)
  /\ Matched = Len(TraceLog)
=============================================================================
