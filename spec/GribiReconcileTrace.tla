------------------------ MODULE GribiReconcileTrace ------------------------
(* Trace validation for the reconciler (C15).  A segment is: reset; the RIB  *)
(* calls that build the real target RIB (ordinary GribiRIBTrace events);     *)
(* "recon" - the operation sets the real reconciler.Reconcile produced for   *)
(* (intended, target), compared with Plan(intended, target) of              *)
(* GribiReconcile; the RIB calls that apply them to the real target in the  *)
(* documented order, each of which must be acknowledged at once; "reconend" *)
(* - the target must now equal the intended RIB.                            *)
EXTENDS GribiReconcile, GribiRIBTrace

VARIABLES applying,  \* the operations of a plan are being applied
          want,      \* the intended RIB
          nleft      \* operations of the plan not yet applied
rtvars == <<tvars, applying, want, nleft>>
RUnch == UNCHANGED <<applying, want, nleft>>

StripIds(S) == {[ni |-> x.ni, tab |-> x.tab, key |-> x.key, e |-> x.e, typ |-> x.typ] : x \in S}
LogItemE(x) == IF x.tab = "nhg" THEN LogNHG(x.e) ELSE x.e
LogItems(seq) == {[ni |-> seq[i].ni, tab |-> seq[i].tab, key |-> seq[i].key, e |-> LogItemE(seq[i]), typ |-> seq[i].typ] : i \in DOMAIN seq}
LogPlan(o) == [add |-> [nh |-> LogItems(o.add.nh), nhg |-> LogItems(o.add.nhg), top |-> LogItems(o.add.top)],
               rep |-> [nh |-> LogItems(o.rep.nh), nhg |-> LogItems(o.rep.nhg), top |-> LogItems(o.rep.top)],
               del |-> [nh |-> LogItems(o.del.nh), nhg |-> LogItems(o.del.nhg), top |-> LogItems(o.del.top)]]
PlanSize(P) == Cardinality(P.add.nh) + Cardinality(P.add.nhg) + Cardinality(P.add.top) + Cardinality(P.rep.nh)
               + Cardinality(P.rep.nhg) + Cardinality(P.rep.top) + Cardinality(P.del.nh) + Cardinality(P.del.nhg) + Cardinality(P.del.top)
LogCount(o) == Len(o.add.nh) + Len(o.add.nhg) + Len(o.add.top) + Len(o.rep.nh) + Len(o.rep.nhg) + Len(o.rep.top)
               + Len(o.del.nh) + Len(o.del.nhg) + Len(o.del.top)

RTraceInit == TraceInit /\ applying = FALSE /\ want = <<>> /\ nleft = 0

RTReset == TReset /\ applying' = FALSE /\ want' = <<>> /\ nleft' = 0

TRecon ==
  /\ ~dead /\ IsEvent("recon")
  /\ LET I == LogRib(Ev.intended)
         P == Plan(I, rib)
         L == LogPlan(Ev.ops)
     IN
     /\ Report(Flag("error" \in DOMAIN Ev, "reconError")
               \cup Flag(L.add # P.add, "reconAdd") \cup Flag(L.rep # P.rep, "reconReplace") \cup Flag(L.del # P.del, "reconDelete")
               \cup Flag(LogCount(Ev.ops) # PlanSize(L), "reconDuplicateOps")
               \cup Flag(Ev.ids # [i \in 1..Len(Ev.ids) |-> Ev.base + i], "reconIds")
               \cup Flag((\A n \in nis : NIof(I, n) = rib[n]) /\ LogCount(Ev.ops) # 0, "reconEqualNotEmpty")
               \cup Flag(pend # EmptyFn, "reconTargetHolds")
               \* the same target reached through reconciler.RemoteRIB (client.Get + rib.FromGetResponses) gives the same plan
               \cup Flag("remote" \in DOMAIN Ev /\ Ev.remote # "same", "reconRemote"))
     /\ want' = I /\ applying' = TRUE /\ nleft' = LogCount(Ev.ops)
  /\ UNCHANGED <<vars, skip, dead, known>>

RTAddEnd ==
  /\ l <= Len(TraceLog) /\ TraceLog[l].ev = "addend"
  /\ Report(Flag(applying /\ (Len(Ev.oks) # 1 \/ Ev.fails # <<>> \/ (StateOK(Ev.st) /\ Ev.st.pend # <<>>)), "reconOpNotAcked"))
  /\ TAddEnd
  /\ nleft' = IF applying THEN nleft - 1 ELSE nleft
  /\ UNCHANGED <<applying, want>>

RTDelete ==
  /\ l <= Len(TraceLog) /\ TraceLog[l].ev = "delete"
  /\ Report(Flag(applying /\ Ev.oks # <<Ev.op.id>>, "reconOpNotAcked"))
  /\ TDelete
  /\ nleft' = IF applying THEN nleft - 1 ELSE nleft
  /\ UNCHANGED <<applying, want>>

RTCallErr ==
  /\ l <= Len(TraceLog) /\ TraceLog[l].ev = "callerr"
  /\ Report(Flag(applying, "reconOpNotAcked"))
  /\ TCallErr /\ RUnch

TReconEnd ==
  /\ ~dead /\ IsEvent("reconend")
  /\ Report(Flag(\E n \in nis : rib[n] # NIof(want, n), "reconConverge") \cup Flag(nleft # 0, "reconIncomplete") \cup Flag(pend # EmptyFn, "reconHeld"))
  /\ applying' = FALSE /\ want' = <<>> /\ nleft' = 0
  /\ UNCHANGED <<vars, skip, dead, known>>

\* the same reconciler asked again once the RIBs are equal, with a lower counter: nothing, and the counter is left alone
TRecon2 ==
  /\ ~dead /\ IsEvent("recon2")
  /\ Report(Flag(Ev.error # "", "reconError") \cup Flag(Ev.error = "" /\ Ev.nops # 0, "reconEqualNotEmpty")
            \cup Flag(Ev.error = "" /\ Ev.after # Ev.base2 + Ev.nops, "reconIds"))
  /\ UNCHANGED <<vars, skip, dead, known, applying, want, nleft>>

RTraceNext == TRecon2 \/ (TFlush /\ RUnch) \/ RTReset \/ (TDead /\ RUnch) \/ (TPanic /\ RUnch) \/ (TAddBegin /\ RUnch) \/ (TTry /\ RUnch)
              \/ RTAddEnd \/ RTCallErr \/ RTDelete \/ (TSnapCheck /\ RUnch) \/ TRecon \/ TReconEnd

RTraceSpec == RTraceInit /\ [][RTraceNext]_rtvars
=============================================================================
