----------------------------- MODULE GribiRIBCS -----------------------------
(***************************************************************************)
(* The RIB (rib/rib.go) at the grain of its critical sections, for several *)
(* goroutines calling AddEntry / DeleteEntry / Flush at the same time.     *)
(* GribiRIB is the sequential meaning of one call; this module is what the *)
(* code does between two lock acquisitions, so that TLC can interleave the *)
(* segments of different callers:                                          *)
(*                                                                         *)
(*  AddEntry     [try]       exists? / retrieve the replaced entry /       *)
(*                           canResolve, each under a read lock            *)
(*               | gate add.checked |                                      *)
(*               [install]   doAddXXX under the instance's write lock,     *)
(*                           then the post-change hook                     *)
(*               | gate add.installed |                                    *)
(*               [count]     handleReferences against the entry retrieved  *)
(*                           in [try]; rmPending; result; resolved hook    *)
(*               | gate add.counted |                                      *)
(*               [walk]      getPending snapshot, then every held          *)
(*                           operation is tried again through the same     *)
(*                           segments (| gate add.try | per retry)         *)
(*  DeleteEntry  [check]     retrieve / canDelete (reference counters)     *)
(*               | gate del.checked |                                      *)
(*               [remove]    doDeleteXXX under the write lock, hook        *)
(*               | gate del.removed |                                      *)
(*               [uncount]   decrement the counters of what [check] saw    *)
(*  Flush        per instance: | gate flush.ni | Lock; decrement and       *)
(*               remove everything; the locks are released at the return   *)
(*               | gate flush.done |                                       *)
(*                                                                         *)
(* A goroutine parked at a gate holds no lock, except the Flush caller,    *)
(* which holds the write lock of every instance it has already emptied.    *)
(* Entries are reduced to what resolution and deletion protection look at: *)
(* next-hops (an index), groups (an id and a set of next-hop indices) and  *)
(* top-level entries (a key and the (instance, id) of their group).        *)
(*                                                                         *)
(* The code is NOT atomic per call: the invariants at the end of this      *)
(* module hold when calls do not overlap (Serial) and are violated by      *)
(* particular interleavings; which ones is the content of the check.       *)
(***************************************************************************)
EXTENDS Integers, Sequences, FiniteSets, TLC

CONSTANTS NIs,       \* network instances
          Serial     \* TRUE: a call starts only when no other call is in progress

VARIABLE scen        \* the scenario, fixed along a behaviour: [progs, fprog]
\*   progs : caller -> sequence of calls [id, typ : "ADD" | "REPLACE" | "DELETE", kind : "nh" | "nhg" | "v4" | "v6" | "mpls", ni, key, nhs, gni, g]
\*   fprog : sequence of instances one Flush call processes (<<>>: no Flush caller)
Progs == scen.progs
FlushProg == scen.fprog
Callers == DOMAIN Progs
K == UNCHANGED scen

VARIABLES nh,      \* ni -> set of installed next-hop indices
          nhg,     \* ni -> (id -> set of next-hop indices)
          ip,      \* ni -> (key -> [gni, g])
          refNH,   \* ni -> (index -> counter)   absent = 0
          refNHG,  \* ni -> (id -> counter)
          pend,    \* id -> held operation
          lockF,   \* instances whose write lock the Flush caller holds
          cpc,     \* caller -> [i, stk, done, oks, fails]
          fpc,     \* [st : "idle" | "run" | "end" | "done", i]
          rets     \* caller -> sequence of [id, oks, fails] (one per returned call)
ribvars == <<nh, nhg, ip, refNH, refNHG, pend>>
csvars == <<nh, nhg, ip, refNH, refNHG, pend, lockF, cpc, fpc, rets, scen>>

Put(f, k, v) == [x \in (DOMAIN f) \cup {k} |-> IF x = k THEN v ELSE f[x]]
Del(f, k) == [x \in (DOMAIN f) \ {k} |-> f[x]]
EmptyFn == [x \in {} |-> TRUE]
Cnt(f, k) == IF k \in DOMAIN f THEN f[k] ELSE 0
Inc(f, k) == Put(f, k, Cnt(f, k) + 1)
Dec(f, k) == IF Cnt(f, k) = 0 THEN f ELSE Put(f, k, f[k] - 1)     \* decXXXRefCount never goes below zero
RECURSIVE DecAll(_, _)
DecAll(f, S) == IF S = {} THEN f ELSE LET k == CHOOSE x \in S : TRUE IN DecAll(Dec(f, k), S \ {k})
RECURSIVE IncAll(_, _)
IncAll(f, S) == IF S = {} THEN f ELSE LET k == CHOOSE x \in S : TRUE IN IncAll(Inc(f, k), S \ {k})

None == [none |-> TRUE]
NoFrameOrig == None
Frame(op, st) == [op |-> op, st |-> st, orig |-> None, todo |-> {}]
IdleC == [i |-> 1, stk |-> <<>>, done |-> {}, oks |-> <<>>, fails |-> <<>>]

CSInit(sc, n0, g0, i0, rn0, rg0, p0) ==
  /\ scen = sc
  /\ nh = n0 /\ nhg = g0 /\ ip = i0 /\ refNH = rn0 /\ refNHG = rg0 /\ pend = p0
  /\ lockF = {} /\ cpc = [c \in Callers |-> IdleC] /\ fpc = [st |-> "idle", i |-> 1]
  /\ rets = [c \in Callers |-> <<>>]

InCall(c) == cpc[c].stk # <<>>
OthersIdle(c) == (\A d \in Callers \ {c} : ~InCall(d)) /\ fpc.st \in {"idle", "done"}
Top(c) == cpc[c].stk[Len(cpc[c].stk)]
SetTop(c, f) == [cpc[c] EXCEPT !.stk = [@ EXCEPT ![Len(@)] = f]]

\* ---- what the read-locked lookups of [try] return ----
TopKey(o) == o.kind \o ":" \o o.key
IsTop(o) == o.kind \notin {"nh", "nhg"}
Exists(o) == CASE o.kind = "nh"  -> o.key \in nh[o.ni]
               [] o.kind = "nhg" -> o.key \in DOMAIN nhg[o.ni]
               [] OTHER          -> TopKey(o) \in DOMAIN ip[o.ni]
Orig(o) == IF ~Exists(o) THEN None
           ELSE CASE o.kind = "nh"  -> [isnh |-> TRUE]
                  [] o.kind = "nhg" -> [nhs |-> nhg[o.ni][o.key]]
                  [] OTHER          -> ip[o.ni][TopKey(o)]
Resolvable(o) == CASE o.kind = "nh"  -> TRUE
                   [] o.kind = "nhg" -> o.nhs \subseteq nh[o.ni]
                   [] OTHER          -> o.g \in DOMAIN nhg[o.gni]
\* read locks a [try] / [check] segment takes
ReadNIs(o) == IF IsTop(o) /\ o.typ # "DELETE" THEN {o.ni, o.gni} ELSE {o.ni}

\* ---- leaving a frame: control goes back to the walk of the frame below, which takes the next held operation that this
\*      call has not dealt with, down to the return of the call.  `nxt` is the held operation the code picked (its choice:
\*      map order), None when the call returns.
RECURSIVE Unwind(_, _, _)
Unwind(stk, done, nxt) ==
  IF stk = <<>> THEN <<>>
  ELSE LET f == stk[Len(stk)]
           live == {e \in f.todo : e.id \notin done}
       IN IF f.st = "walk" /\ live # {}
          THEN (IF nxt \in live
                THEN Append([stk EXCEPT ![Len(stk)] = [f EXCEPT !.todo = live \ {nxt}]], Frame(nxt, "try"))
                ELSE stk \o << [bad |-> TRUE] >>)          \* the code picked something that is not there: never matches
          ELSE Unwind(SubSeq(stk, 1, Len(stk) - 1), done, nxt)
\* the candidates for `nxt` after popping down
RECURSIVE NextLive(_, _)
NextLive(stk, done) ==
  IF stk = <<>> THEN {None}
  ELSE LET f == stk[Len(stk)]
           live == {e \in f.todo : e.id \notin done}
       IN IF f.st = "walk" /\ live # {} THEN live ELSE NextLive(SubSeq(stk, 1, Len(stk) - 1), done)

\* finish the current segment of caller c with stack stk (top frame finished or turned into a walk)
Settle(c, stk, done, oks, fails, nxt) ==
  LET s2 == Unwind(stk, done, nxt) IN
  IF s2 = <<>>
  THEN /\ cpc' = [cpc EXCEPT ![c] = [i |-> cpc[c].i + 1, stk |-> <<>>, done |-> {}, oks |-> <<>>, fails |-> <<>>]]
       /\ rets' = [rets EXCEPT ![c] = Append(@, [id |-> Progs[c][cpc[c].i].id, oks |-> oks, fails |-> fails])]
  ELSE /\ cpc' = [cpc EXCEPT ![c] = [i |-> cpc[c].i, stk |-> s2, done |-> done, oks |-> oks, fails |-> fails]]
       /\ UNCHANGED rets

(* ------------------------------- AddEntry ------------------------------- *)
\* the harness starts the call: the goroutine runs up to the first gate (add.try)
AddBegin(c) ==
  /\ K
  /\ ~InCall(c) /\ cpc[c].i <= Len(Progs[c]) /\ Progs[c][cpc[c].i].typ \in {"ADD", "REPLACE"}
  /\ Serial => OthersIdle(c)
  /\ cpc' = [cpc EXCEPT ![c].stk = << Frame(Progs[c][cpc[c].i], "try") >>]
  /\ UNCHANGED <<ribvars, lockF, fpc, rets>>

\* [try]: fatal error / not resolvable (held) / passes the check
AddTry(c, nxt) ==
  /\ K
  /\ InCall(c) /\ Top(c).st = "try"
  /\ LET f == Top(c)  o == f.op  me == cpc[c] IN
     /\ ReadNIs(o) \cap lockF = {}
     /\ IF o.typ = "REPLACE" /\ ~Exists(o)
        THEN \* cannot replace, does not exist: terminal failure of this operation
             /\ pend' = Del(pend, o.id)
             /\ nxt \in NextLive(SubSeq(me.stk, 1, Len(me.stk) - 1), me.done \cup {o.id})
             /\ Settle(c, SubSeq(me.stk, 1, Len(me.stk) - 1), me.done \cup {o.id}, me.oks, Append(me.fails, o.id), nxt)
             /\ UNCHANGED <<nh, nhg, ip, refNH, refNHG>>
        ELSE IF ~Resolvable(o)
        THEN /\ pend' = Put(pend, o.id, o)
             /\ nxt \in NextLive(SubSeq(me.stk, 1, Len(me.stk) - 1), me.done)
             /\ Settle(c, SubSeq(me.stk, 1, Len(me.stk) - 1), me.done, me.oks, me.fails, nxt)
             /\ UNCHANGED <<nh, nhg, ip, refNH, refNHG>>
        ELSE /\ nxt = None
             /\ cpc' = [cpc EXCEPT ![c] = SetTop(c, [f EXCEPT !.st = "checked", !.orig = Orig(o)])]
             /\ UNCHANGED <<ribvars, rets>>
  /\ UNCHANGED <<lockF, fpc>>

\* [install]
AddInstall(c) ==
  /\ K
  /\ InCall(c) /\ Top(c).st \in {"checked", "wchecked"}
  /\ LET f == Top(c)  o == f.op IN
     /\ o.ni \notin lockF
     /\ CASE o.kind = "nh"  -> nh' = [nh EXCEPT ![o.ni] = @ \cup {o.key}] /\ UNCHANGED <<nhg, ip>>
          [] o.kind = "nhg" -> nhg' = [nhg EXCEPT ![o.ni] = Put(@, o.key, o.nhs)] /\ UNCHANGED <<nh, ip>>
          [] OTHER          -> ip' = [ip EXCEPT ![o.ni] = Put(@, TopKey(o), [gni |-> o.gni, g |-> o.g])] /\ UNCHANGED <<nh, nhg>>
     /\ cpc' = [cpc EXCEPT ![c] = SetTop(c, [f EXCEPT !.st = "installed"])]
  /\ UNCHANGED <<refNH, refNHG, pend, lockF, fpc, rets>>

\* [count]: handleReferences / handleNHGReferences with the entry [try] retrieved; then - a consumer of resolved-entry
\* announcements being registered - the announcement of a top-level entry copies every instance under its read lock
CountEffect(c, newst) ==
  LET f == Top(c)  o == f.op  me == cpc[c] IN
     /\ CASE o.kind = "nh" -> UNCHANGED <<refNH, refNHG>>
          [] o.kind = "nhg" ->
               /\ refNH' = [refNH EXCEPT ![o.ni] = DecAll(IncAll(@, o.nhs), IF f.orig = None THEN {} ELSE f.orig.nhs)]
               /\ UNCHANGED refNHG
          [] OTHER ->
               LET same == f.orig # None /\ f.orig.gni = o.gni /\ f.orig.g = o.g
                   r1 == IF f.orig # None /\ ~same THEN [refNHG EXCEPT ![f.orig.gni] = Dec(@, f.orig.g)] ELSE refNHG
               IN /\ refNHG' = IF same THEN refNHG ELSE [r1 EXCEPT ![o.gni] = Inc(@, o.g)]
                  /\ UNCHANGED refNH
     /\ pend' = Del(pend, o.id)
     /\ cpc' = [cpc EXCEPT ![c] = [SetTop(c, [f EXCEPT !.st = newst]) EXCEPT !.done = @ \cup {o.id}, !.oks = Append(@, o.id)]]
AddCount(c) ==
  /\ K
  /\ InCall(c) /\ Top(c).st = "installed"
  /\ IsTop(Top(c).op) => lockF = {}
  /\ CountEffect(c, "counted")
  /\ UNCHANGED <<nh, nhg, ip, lockF, fpc, rets>>
\* the same while the Flush caller holds some instance: the counting is done, the announcement waits for that instance's read lock
BlockCount(c) ==
  /\ K
  /\ InCall(c) /\ Top(c).st = "installed" /\ IsTop(Top(c).op) /\ lockF # {}
  /\ ~\E d \in Callers : InCall(d) /\ Top(d).st \in {"wchecked", "wdchecked", "wcounted", "wdone"}
  /\ CountEffect(c, "wcounted")
  /\ UNCHANGED <<nh, nhg, ip, lockF, fpc, rets>>
WakeCount(c) ==
  /\ K
  /\ InCall(c) /\ Top(c).st = "wcounted" /\ lockF = {}
  /\ cpc' = [cpc EXCEPT ![c] = SetTop(c, [Top(c) EXCEPT !.st = "counted"])]
  /\ UNCHANGED <<ribvars, lockF, fpc, rets>>

\* [walk]: snapshot of the held operations, then the first retry (or the return)
AddWalk(c, nxt) ==
  /\ K
  /\ InCall(c) /\ Top(c).st = "counted"
  /\ LET f == Top(c)  me == cpc[c]
         stk == [me.stk EXCEPT ![Len(me.stk)] = [f EXCEPT !.st = "walk", !.todo = {pend[k] : k \in DOMAIN pend}]]
     IN /\ nxt \in NextLive(stk, me.done)
        /\ Settle(c, stk, me.done, me.oks, me.fails, nxt)
  /\ UNCHANGED <<ribvars, lockF, fpc>>

\* A goroutine released from its gate while the Flush caller holds the write lock of the instance it is about to
\* change waits inside Lock(); it goes on by itself when the Flush returns.  One waiter at a time: which of several
\* waiters the runtime serves first cannot be forced.
Waiting(c) == InCall(c) /\ Top(c).st \in {"wchecked", "wdchecked", "wcounted", "wdone"}
\* what a waiter waits for: the write lock of its instance, or (an announcement) the read lock of any instance
WaitsFor(c) == IF Top(c).st \in {"wchecked", "wdchecked"} THEN {Top(c).op.ni} ELSE NIs
Block(c) ==
  /\ K
  /\ InCall(c) /\ Top(c).st \in {"checked", "dchecked"} /\ Top(c).op.ni \in lockF
  /\ ~\E d \in Callers : Waiting(d)
  /\ cpc' = [cpc EXCEPT ![c] = SetTop(c, [Top(c) EXCEPT !.st = "w" \o @])]
  /\ UNCHANGED <<ribvars, lockF, fpc, rets>>

(* ------------------------------ DeleteEntry ----------------------------- *)
Referenced(o) == CASE o.kind = "nhg" -> o.key \in DOMAIN nhg[o.ni] /\ Cnt(refNHG[o.ni], o.key) > 0
                   [] o.kind = "nh"  -> o.key \in nh[o.ni] /\ Cnt(refNH[o.ni], o.key) > 0
                   [] OTHER          -> FALSE
\* begin + [check]: straight through to del.checked, or answered FAILED
DelBegin(c) ==
  /\ K
  /\ ~InCall(c) /\ cpc[c].i <= Len(Progs[c]) /\ Progs[c][cpc[c].i].typ = "DELETE"
  /\ Serial => OthersIdle(c)
  /\ LET o == Progs[c][cpc[c].i] IN
     /\ o.ni \notin lockF
     /\ IF Referenced(o)
        THEN /\ cpc' = [cpc EXCEPT ![c].i = @ + 1]
             /\ rets' = [rets EXCEPT ![c] = Append(@, [id |-> o.id, oks |-> <<>>, fails |-> <<o.id>>])]
        ELSE /\ cpc' = [cpc EXCEPT ![c].stk = << [Frame(o, "dchecked") EXCEPT !.orig = Orig(o)] >>]
             /\ UNCHANGED rets
  /\ UNCHANGED <<ribvars, lockF, fpc>>

DelRemove(c) ==
  /\ K
  /\ InCall(c) /\ Top(c).st \in {"dchecked", "wdchecked"}
  /\ LET f == Top(c)  o == f.op IN
     /\ o.ni \notin lockF
     /\ CASE o.kind = "nh"  -> nh' = [nh EXCEPT ![o.ni] = @ \ {o.key}] /\ UNCHANGED <<nhg, ip>>
          [] o.kind = "nhg" -> nhg' = [nhg EXCEPT ![o.ni] = Del(@, o.key)] /\ UNCHANGED <<nh, ip>>
          [] OTHER          -> ip' = [ip EXCEPT ![o.ni] = Del(@, TopKey(o))] /\ UNCHANGED <<nh, nhg>>
     /\ cpc' = [cpc EXCEPT ![c] = SetTop(c, [f EXCEPT !.st = "dremoved"])]
  /\ UNCHANGED <<refNH, refNHG, pend, lockF, fpc, rets>>

UncountEffect(c) ==
  LET f == Top(c)  o == f.op IN
     CASE IsTop(o) /\ f.orig # None -> refNHG' = [refNHG EXCEPT ![f.orig.gni] = Dec(@, f.orig.g)] /\ UNCHANGED refNH
       [] o.kind = "nhg" /\ f.orig # None -> refNH' = [refNH EXCEPT ![o.ni] = DecAll(@, f.orig.nhs)] /\ UNCHANGED refNHG
       [] OTHER -> UNCHANGED <<refNH, refNHG>>
ReturnDel(c) ==
  /\ cpc' = [cpc EXCEPT ![c] = [i |-> cpc[c].i + 1, stk |-> <<>>, done |-> {}, oks |-> <<>>, fails |-> <<>>]]
  /\ rets' = [rets EXCEPT ![c] = Append(@, [id |-> Top(c).op.id, oks |-> <<Top(c).op.id>>, fails |-> <<>>])]
DelUncount(c) ==
  /\ K
  /\ InCall(c) /\ Top(c).st = "dremoved"
  /\ IsTop(Top(c).op) => lockF = {}
  /\ UncountEffect(c) /\ ReturnDel(c)
  /\ UNCHANGED <<nh, nhg, ip, pend, lockF, fpc>>
\* the counters are released, the DELETE announcement of a top-level entry waits for a read lock the Flush caller's write lock excludes
BlockUncount(c) ==
  /\ K
  /\ InCall(c) /\ Top(c).st = "dremoved" /\ IsTop(Top(c).op) /\ lockF # {}
  /\ ~\E d \in Callers : InCall(d) /\ Top(d).st \in {"wchecked", "wdchecked", "wcounted", "wdone"}
  /\ UncountEffect(c)
  /\ cpc' = [cpc EXCEPT ![c] = SetTop(c, [Top(c) EXCEPT !.st = "wdone"])]
  /\ UNCHANGED <<nh, nhg, ip, pend, lockF, fpc, rets>>
WakeDone(c) ==
  /\ K
  /\ InCall(c) /\ Top(c).st = "wdone" /\ lockF = {}
  /\ ReturnDel(c)
  /\ UNCHANGED <<ribvars, lockF, fpc>>

(* -------------------------- AddNetworkInstance -------------------------- *)
\* a writer of the instance map (nrMu): one segment, no gate; the new instance is empty and nothing refers to it
NiCall(c) ==
  /\ K
  /\ ~InCall(c) /\ cpc[c].i <= Len(Progs[c]) /\ Progs[c][cpc[c].i].typ = "ADDNI"
  /\ Serial => OthersIdle(c)
  /\ cpc' = [cpc EXCEPT ![c].i = @ + 1]
  /\ rets' = [rets EXCEPT ![c] = Append(@, [id |-> Progs[c][cpc[c].i].id, oks |-> <<>>, fails |-> <<>>])]
  /\ UNCHANGED <<ribvars, lockF, fpc>>

(* --------------------------------- Flush -------------------------------- *)
FlushBegin ==
  /\ K
  /\ fpc.st = "idle" /\ FlushProg # <<>>
  /\ Serial => \A c \in Callers : ~InCall(c)
  /\ fpc' = [st |-> "run", i |-> 1]
  /\ UNCHANGED <<ribvars, lockF, cpc, rets>>

\* decrement the counters of everything the instance's entries point at, remove the entries; the lock stays
RECURSIVE DecIPs(_, _, _)
DecIPs(r, tbl, keys) ==
  IF keys = {} THEN r
  ELSE LET k == CHOOSE x \in keys : TRUE IN DecIPs([r EXCEPT ![tbl[k].gni] = Dec(@, tbl[k].g)], tbl, keys \ {k})
RECURSIVE DecNHGs(_, _, _)
DecNHGs(r, tbl, keys) ==
  IF keys = {} THEN r ELSE LET k == CHOOSE x \in keys : TRUE IN DecNHGs(DecAll(r, tbl[k]), tbl, keys \ {k})
FlushNI ==
  /\ K
  /\ fpc.st = "run"
  /\ LET n == FlushProg[fpc.i] IN
     /\ n \notin lockF       \* a second occurrence of an instance in one Flush would self-deadlock
     /\ refNHG' = DecIPs(refNHG, ip[n], DOMAIN ip[n])
     /\ refNH' = [refNH EXCEPT ![n] = DecNHGs(@, nhg[n], DOMAIN nhg[n])]
     /\ ip' = [ip EXCEPT ![n] = EmptyFn] /\ nhg' = [nhg EXCEPT ![n] = EmptyFn] /\ nh' = [nh EXCEPT ![n] = {}]
     /\ lockF' = lockF \cup {n}
     /\ fpc' = IF fpc.i < Len(FlushProg) THEN [fpc EXCEPT !.i = @ + 1] ELSE [st |-> "end", i |-> fpc.i]
  /\ UNCHANGED <<pend, cpc, rets>>
FlushEnd ==
  /\ K
  /\ fpc.st = "end"
  /\ lockF' = {} /\ fpc' = [fpc EXCEPT !.st = "done"]
  /\ UNCHANGED <<ribvars, cpc, rets>>

-----------------------------------------------------------------------------
\* the gate at which the caller is after the step, from the specification's state
GateOf(me) ==
  IF me.stk = <<>> THEN "ret"
  ELSE LET st == me.stk[Len(me.stk)].st IN
       CASE st = "try" -> "add.try" [] st = "checked" -> "add.checked" [] st = "installed" -> "add.installed"
         [] st = "counted" -> "add.counted" [] st = "dchecked" -> "del.checked" [] st = "dremoved" -> "del.removed"
         [] st \in {"wchecked", "wdchecked", "wcounted", "wdone"} -> "blocked" [] OTHER -> "?"
GidOf(me) == IF me.stk # <<>> /\ me.stk[Len(me.stk)].st \in {"try", "counted"} THEN me.stk[Len(me.stk)].op.id ELSE 0
FGate(f) == CASE f.st = "run" -> "flush.ni" [] f.st = "end" -> "flush.done" [] OTHER -> "ret"

-----------------------------------------------------------------------------
Quiescent == (\A c \in Callers : ~InCall(c)) /\ fpc.st \in {"idle", "done"}
AllDone == Quiescent /\ (\A c \in Callers : cpc[c].i > Len(Progs[c])) /\ (FlushProg = <<>> \/ fpc.st = "done")

\* C02: no installed entry dangles
NoDanglingIn(N, G, I) ==
  /\ \A n \in NIs : \A k \in DOMAIN I[n] : I[n][k].gni \in NIs /\ I[n][k].g \in DOMAIN G[I[n][k].gni]
  /\ \A n \in NIs : \A g \in DOMAIN G[n] : G[n][g] \subseteq N[n]
NoDangling == NoDanglingIn(nh, nhg, ip)
\* C03: the counters are the numbers of installed referrers
RefsNHG(n, g) == Cardinality({<<m, k>> \in UNION {{<<m2, k2>> : k2 \in DOMAIN ip[m2]} : m2 \in NIs} : ip[m][k].gni = n /\ ip[m][k].g = g})
RefsNH(n, i) == Cardinality({g \in DOMAIN nhg[n] : i \in nhg[n][g]})
CountersExact ==
  /\ \A n \in NIs : \A g \in DOMAIN nhg[n] : Cnt(refNHG[n], g) = RefsNHG(n, g)
  /\ \A n \in NIs : \A i \in nh[n] : Cnt(refNH[n], i) = RefsNH(n, i)
\* C06: an operation is acknowledged at most once over all calls
Pos == UNION {UNION {{<<c, j, q>> : q \in DOMAIN rets[c][j].oks} : j \in DOMAIN rets[c]} : c \in Callers}
IdAt(x) == rets[x[1]][x[2]].oks[x[3]]
AckedOnce == \A x, y \in Pos : x # y => IdAt(x) # IdAt(y)
\* whatever the interleaving, no call's operation is lost: at quiescence every ADD / REPLACE that returned has been
\* acknowledged or failed (by its own call or by the call whose walk retried it) or is held; every DELETE acknowledged or failed
AllOkIds == {IdAt(x) : x \in Pos}
AllFailIds == UNION {UNION {{rets[c][j].fails[q] : q \in DOMAIN rets[c][j].fails} : j \in DOMAIN rets[c]} : c \in Callers}
Accounted == Quiescent => \A c \in Callers : \A j \in DOMAIN rets[c] :
               Progs[c][j].typ = "ADDNI" \/ rets[c][j].id \in AllOkIds \cup AllFailIds \cup DOMAIN pend

\* C02 completeness: nothing resolvable is left held
NothingResolvableHeld == \A k \in DOMAIN pend : ~Resolvable(pend[k])

QuiescentConsistent == Quiescent => (NoDangling /\ CountersExact /\ NothingResolvableHeld /\ AckedOnce)
=============================================================================
