---------------------------- MODULE GribiRIBConc ----------------------------
(***************************************************************************)
(* The RIB's per-network-instance locks (rib/rib.go RIBHolder.mu) at the   *)
(* grain at which a Flush of several network instances interleaves with    *)
(* concurrent installs:                                                    *)
(*                                                                         *)
(*   Flush(<<n1, .., nk>>)  for each ni in order: Lock(ni); remove every   *)
(*                          entry of ni - the locks are released only when *)
(*                          the whole Flush returns (`defer` in the loop)  *)
(*   Add(ni, key)           doAddXXX: Lock(ni); install; Unlock(ni)        *)
(*                                                                         *)
(* Every call is stamped with a logical time at invocation and at return.  *)
(* The property (C01 under concurrency, C08, C11): the installed entries   *)
(* at quiescence are the fold of the acknowledged operations in SOME order *)
(* that respects real time (an operation that returned before another was  *)
(* invoked comes first) - in particular an install acknowledged before a   *)
(* Flush of its network instance was acknowledged, and not invoked after   *)
(* the Flush removed that instance, must not survive the Flush.            *)
(*                                                                         *)
(* HoldToEnd = FALSE is the design in which each lock is released as soon  *)
(* as its instance is flushed; TLC shows that it is not linearizable.      *)
(***************************************************************************)
EXTENDS Integers, Sequences, FiniteSets, TLC

CONSTANTS FlushNIs,    \* sequence of network instances the Flush processes, in order
          Progs,       \* adder -> sequence of [ni, key]: the installs an adder performs one after the other
          HoldToEnd    \* TRUE: the code; FALSE: release each lock when its instance is done

Adders == DOMAIN Progs
NISet == {FlushNIs[i] : i \in DOMAIN FlushNIs} \cup UNION {{Progs[a][i].ni : i \in DOMAIN Progs[a]} : a \in Adders}

VARIABLES lock,     \* ni -> "" | "flush" | adder
          rib,      \* ni -> set of keys
          fpc,      \* flusher: [st : "idle" | "lock" | "clear" | "unlock" | "done", i]
          apc,      \* adder -> [st : "idle" | "lock" | "add" | "unlock" | "done", i]
          clock, hist   \* hist: op -> [inv, ret] ; op = <<"flush">> or <<adder, i>>
lvars == <<lock, rib, fpc, apc, clock, hist>>

Put(f, k, v) == [x \in (DOMAIN f) \cup {k} |-> IF x = k THEN v ELSE f[x]]
EmptyFn == [x \in {} |-> TRUE]

LInit(initial) ==
  /\ lock = [n \in NISet |-> ""] /\ rib = initial
  /\ fpc = [st |-> "idle", i |-> 1] /\ apc = [a \in Adders |-> [st |-> "idle", i |-> 1]]
  /\ clock = 1 /\ hist = EmptyFn

FlushRec == [k |-> "flush", nis |-> {FlushNIs[i] : i \in DOMAIN FlushNIs}, ni |-> "", key |-> 0]
AddRec(a, i) == [k |-> "add", nis |-> {}, ni |-> Progs[a][i].ni, key |-> Progs[a][i].key]
RecOf(op) == IF op = <<"flush">> THEN FlushRec ELSE AddRec(op[1], op[2])
Stamp(op, fld) == /\ hist' = Put(hist, op, IF fld = "inv" THEN [inv |-> clock, ret |-> 0, o |-> RecOf(op)] ELSE [hist[op] EXCEPT !.ret = clock])
                  /\ clock' = clock + 1

(* ------------------------------ the flusher ------------------------------ *)
FInvoke == /\ fpc.st = "idle" /\ fpc' = [st |-> "lock", i |-> 1] /\ Stamp(<<"flush">>, "inv") /\ UNCHANGED <<lock, rib, apc>>
FLock   == /\ fpc.st = "lock" /\ lock[FlushNIs[fpc.i]] = ""
           /\ lock' = [lock EXCEPT ![FlushNIs[fpc.i]] = "flush"] /\ fpc' = [fpc EXCEPT !.st = "clear"]
           /\ UNCHANGED <<rib, apc, clock, hist>>
FClear  == /\ fpc.st = "clear"
           /\ rib' = [rib EXCEPT ![FlushNIs[fpc.i]] = {}]
           /\ lock' = IF HoldToEnd THEN lock ELSE [lock EXCEPT ![FlushNIs[fpc.i]] = ""]
           /\ fpc' = IF fpc.i < Len(FlushNIs) THEN [st |-> "lock", i |-> fpc.i + 1] ELSE [st |-> "unlock", i |-> fpc.i]
           /\ UNCHANGED <<apc, clock, hist>>
FReturn == /\ fpc.st = "unlock"
           /\ lock' = [n \in NISet |-> IF lock[n] = "flush" THEN "" ELSE lock[n]]
           /\ fpc' = [fpc EXCEPT !.st = "done"] /\ Stamp(<<"flush">>, "ret") /\ UNCHANGED <<rib, apc>>

(* ------------------------------- an adder -------------------------------- *)
Cur(a) == Progs[a][apc[a].i]
AInvoke(a) == /\ apc[a].st = "idle" /\ apc[a].i <= Len(Progs[a])
              /\ apc' = [apc EXCEPT ![a].st = "lock"] /\ Stamp(<<a, apc[a].i>>, "inv") /\ UNCHANGED <<lock, rib, fpc>>
ALock(a)   == /\ apc[a].st = "lock" /\ lock[Cur(a).ni] = ""
              /\ lock' = [lock EXCEPT ![Cur(a).ni] = a] /\ apc' = [apc EXCEPT ![a].st = "add"]
              /\ UNCHANGED <<rib, fpc, clock, hist>>
AAdd(a)    == /\ apc[a].st = "add"
              /\ rib' = [rib EXCEPT ![Cur(a).ni] = @ \cup {Cur(a).key}]
              /\ lock' = [lock EXCEPT ![Cur(a).ni] = ""] /\ apc' = [apc EXCEPT ![a].st = "unlock"]
              /\ UNCHANGED <<fpc, clock, hist>>
AReturn(a) == /\ apc[a].st = "unlock"
              /\ apc' = [apc EXCEPT ![a] = [st |-> IF apc[a].i < Len(Progs[a]) THEN "idle" ELSE "done", i |-> apc[a].i + 1]]
              /\ Stamp(<<a, apc[a].i>>, "ret") /\ UNCHANGED <<lock, rib, fpc>>

LNext == FInvoke \/ FLock \/ FClear \/ FReturn \/ \E a \in Adders : AInvoke(a) \/ ALock(a) \/ AAdd(a) \/ AReturn(a)

-----------------------------------------------------------------------------
(* Linearizability of a completed history against the sequential meaning   *)
(* of the operations (the fold of GribiRIB restricted to these entries).   *)
\* H : operation id -> [inv, ret, o], o = [k : "flush" | "add", nis, ni, key]
ApplyRec(R, o) == IF o.k = "flush" THEN [n \in DOMAIN R |-> IF n \in o.nis THEN {} ELSE R[n]]
                  ELSE [R EXCEPT ![o.ni] = @ \cup {o.key}]
RECURSIVE FoldSeq(_, _, _)
FoldSeq(R, s, H) == IF s = <<>> THEN R ELSE FoldSeq(ApplyRec(R, H[Head(s)].o), Tail(s), H)

Perms(S) == {s \in [1..Cardinality(S) -> S] : \A i, j \in 1..Cardinality(S) : i # j => s[i] # s[j]}
RespectsTime(s, H) == \A i, j \in DOMAIN s : (H[s[j]].ret < H[s[i]].inv) => j < i
LinearizableTo(initial, H, final) ==
  \E s \in Perms(DOMAIN H) : RespectsTime(s, H) /\ FoldSeq(initial, s, H) = final

Quiescent == fpc.st = "done" /\ \A a \in Adders : apc[a].st = "done"
=============================================================================
