--------------------------- MODULE GribiServerCS_MC ---------------------------
(* All interleavings of the store / compare-and-set critical sections of      *)
(* several sessions announcing ids (each announcement = two critical          *)
(* sections, with other sessions running in between): once every announcement *)
(* has completed the learnt id is the maximum and its announcer is primary.   *)
EXTENDS GribiServerCS

CONSTANTS Sess, HiVals, LoVals, MaxAnn
VARIABLES pc,   \* label -> [st : "idle" | "cas", id]: "cas" = the session stored id and has yet to run the compare-and-set
          left  \* label -> announcements left
mcvars == <<csvars, pc, left>>
Ids == HiVals \X LoVals

MCInit ==
  /\ sess = [s \in Sess |-> [params |-> "p", set |-> TRUE, last |-> NoId]]
  /\ cur = NoId /\ master = "" /\ versions = << <<NoId, "">> >> /\ seen = [s \in Sess |-> 1] /\ stored = [s \in Sess |-> {}]
  /\ pc = [s \in Sess |-> [st |-> "idle", id |-> NoId]] /\ left = [s \in Sess |-> MaxAnn]

MCNext ==
  \E s \in Sess :
    \/ /\ pc[s].st = "idle" /\ left[s] > 0
       /\ \E id \in Ids : StoreElec(s, id) /\ pc' = [pc EXCEPT ![s] = [st |-> "cas", id |-> id]]
       /\ left' = [left EXCEPT ![s] = @ - 1]
    \/ /\ pc[s].st = "cas"
       /\ ElecCAS(s, pc[s].id) /\ pc' = [pc EXCEPT ![s] = [st |-> "idle", id |-> NoId]]
       /\ UNCHANGED left
MCSpec == MCInit /\ [][MCNext]_mcvars

Quiescent == \A s \in Sess : pc[s].st = "idle"
QuiescentConsistent == Quiescent => QuiescentOK
Monotone == [][IdLE(cur, cur')]_mcvars
=============================================================================
