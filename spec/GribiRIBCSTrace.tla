-------------------------- MODULE GribiRIBCSTrace --------------------------
(* Trace validation of concurrent RIB calls (C02, C03, C06, C11): the Go      *)
(* harness replays schedules of GribiRIBCS_MC into one real rib.RIB, one      *)
(* gate-to-gate segment of one calling goroutine per step, and logs after     *)
(* every step the gate the goroutine reached, the installed entries, the      *)
(* reference counters, the held operations and the result of a call that      *)
(* returned.  Every step must be the specification's action for that caller   *)
(* and lead to the logged observation.  At the end of a walk the invariants   *)
(* of GribiRIBCS are evaluated: where the specification itself (which is the  *)
(* code's grain of atomicity, not the intended one) violates them the         *)
(* component is a known finding (KF:...), anything else is a deviation.       *)
EXTENDS GribiRIBCS, Json

CONSTANT TraceFile
TraceLog == ndJsonDeserialize(TraceFile)
VARIABLE l
ctvars == <<csvars, l>>

Ev == TraceLog[l]
IsEvent(e) == l <= Len(TraceLog) /\ TraceLog[l].ev = e /\ l' = l + 1
Flag(b, name) == IF b THEN {name} ELSE {}
Report(comps) == IF comps = {} THEN TRUE ELSE PrintT(<<"MISMATCH", l, Ev.ev, comps>>)
ToSetOf(seq) == {seq[i] : i \in DOMAIN seq}

\* ---- the scenario, from JSON ----
OpOf(j) == [id |-> j.id, typ |-> j.typ, kind |-> j.kind, ni |-> j.ni, key |-> j.key, nhs |-> ToSetOf(j.nhs), gni |-> j.gni, g |-> j.g]
SeqOps(s) == [i \in DOMAIN s |-> OpOf(s[i])]
ProgsOf(p) == [c \in DOMAIN p |-> SeqOps(p[c])]
NhOf(j) == [n \in NIs |-> ToSetOf(j[n])]
NhgOf(j) == [n \in NIs |-> [g \in DOMAIN j[n] |-> ToSetOf(j[n][g])]]
IpOf(j) == [n \in NIs |-> [k \in DOMAIN j[n] |-> [gni |-> j[n][k].gni, g |-> j[n][k].g]]]
\* the counters a sequential set-up leaves
InitRefNH(g0, n0) == [n \in NIs |-> [i \in {x \in n0[n] : \E g \in DOMAIN g0[n] : x \in g0[n][g]} |-> Cardinality({g \in DOMAIN g0[n] : i \in g0[n][g]})]]
AllTop(i0) == UNION {{<<m, k>> : k \in DOMAIN i0[m]} : m \in NIs}
InitRefNHG(g0, i0) == [n \in NIs |-> [g \in {y \in DOMAIN g0[n] : \E x \in AllTop(i0) : i0[x[1]][x[2]].gni = n /\ i0[x[1]][x[2]].g = y} |->
                                      Cardinality({x \in AllTop(i0) : i0[x[1]][x[2]].gni = n /\ i0[x[1]][x[2]].g = g})]]
PendOf(s) == LET ops == {OpOf(s[i]) : i \in DOMAIN s} IN [k \in {o.id : o \in ops} |-> CHOOSE o \in ops : o.id = k]

CTInit ==
  /\ CSInit([progs |-> <<>>, fprog |-> <<>>, scn |-> 0], [n \in NIs |-> {}], [n \in NIs |-> EmptyFn], [n \in NIs |-> EmptyFn],
            [n \in NIs |-> EmptyFn], [n \in NIs |-> EmptyFn], EmptyFn)
  /\ l = 1

TStart ==
  /\ IsEvent("cstart")
  /\ LET n0 == NhOf(Ev.init.nh)  g0 == NhgOf(Ev.init.nhg)  i0 == IpOf(Ev.init.ip) IN
     /\ scen' = [progs |-> ProgsOf(Ev.progs), fprog |-> Ev.fprog, scn |-> Ev.scn]
     /\ nh' = n0 /\ nhg' = g0 /\ ip' = i0 /\ refNH' = InitRefNH(g0, n0) /\ refNHG' = InitRefNHG(g0, i0) /\ pend' = PendOf(Ev.init.pend)
     /\ lockF' = {} /\ cpc' = [c \in DOMAIN Ev.progs |-> IdleC] /\ fpc' = [st |-> "idle", i |-> 1]
     /\ rets' = [c \in DOMAIN Ev.progs |-> <<>>]
  /\ Report(Flag(~Ev.ready, "ribcsSetup"))

\* ---- one step of caller c ----
CandOf(c, gid) ==
  LET cs == {x \in ({pend[k] : k \in DOMAIN pend} \cup UNION {cpc[c].stk[i].todo : i \in DOMAIN cpc[c].stk}) : x.id = gid}
  IN IF cs = {} THEN None ELSE CHOOSE x \in cs : TRUE
CStep(c, nxt) ==
  \/ AddBegin(c) \/ AddTry(c, nxt) \/ AddInstall(c) \/ AddCount(c) \/ AddWalk(c, nxt)
  \/ DelBegin(c) \/ DelRemove(c) \/ DelUncount(c) \/ NiCall(c) \/ Block(c) \/ BlockCount(c) \/ BlockUncount(c) \/ WakeCount(c) \/ WakeDone(c)
FStep == FlushBegin \/ FlushNI \/ FlushEnd
\* logged state
LNh(st) == [n \in NIs |-> DOMAIN st.rib[n].nh]
LNhg(st) == [n \in NIs |-> [g \in DOMAIN st.rib[n].nhg |-> ToSetOf(st.rib[n].nhg[g].nhs)]]
LIp(st) == [n \in NIs |-> [k \in DOMAIN st.rib[n].top |-> [gni |-> st.rib[n].top[k].gni, g |-> st.rib[n].top[k].g]]]
SameCnt(f, logged) == \A k \in (DOMAIN f) \cup (DOMAIN logged) : Cnt(f, k) = Cnt(logged, k)
StDiff(e) ==
       Flag(e.full /\ (LNh(e.st) # nh' \/ LNhg(e.st) # nhg' \/ LIp(e.st) # ip'), "ribcsTables")
  \cup Flag(\E n \in NIs : ~SameCnt(refNH'[n], e.st.refNH[n]) \/ ~SameCnt(refNHG'[n], e.st.refNHG[n]), "ribcsCounters")
  \cup Flag(ToSetOf(e.st.pend) # DOMAIN pend', "ribcsPending")
CallerDiff(e) ==
  LET me == cpc'[e.c] IN
       Flag(e.site # GateOf(me) \/ (e.site = "add.try" /\ e.gid # GidOf(me)), "ribcsGate")
  \cup Flag(e.returned # (me.stk = <<>>), "ribcsReturn")
  \cup Flag(e.returned /\ me.stk = <<>> /\ Len(rets'[e.c]) > 0 /\
            LET r == rets'[e.c][Len(rets'[e.c])] IN e.ret.err # "" \/ e.ret.id # r.id \/ e.ret.oks # r.oks \/ e.ret.fails # r.fails, "ribcsResult")
FlushDiff(e) == Flag(e.site # FGate(fpc'), "ribcsGate") \cup Flag(e.returned /\ e.ret.err # "", "ribcsFlushError")

TStep ==
  /\ IsEvent("cstep")
  /\ IF ~Ev.ok THEN UNCHANGED csvars /\ Report(IF Ev.blocked = <<>> THEN {"ribcsSlow"} ELSE {"ribcsStall"})
     ELSE IF Ev.c = "F"
     THEN IF ENABLED FStep THEN FStep /\ Report(StDiff(Ev) \cup FlushDiff(Ev)) ELSE UNCHANGED csvars /\ Report({"ribcsNotEnabled"})
     ELSE LET nxt == CandOf(Ev.c, Ev.gid) IN
          IF Ev.c \in Callers /\ ENABLED CStep(Ev.c, nxt) THEN CStep(Ev.c, nxt) /\ Report(StDiff(Ev) \cup CallerDiff(Ev))
          ELSE UNCHANGED csvars /\ Report({"ribcsNotEnabled"})

\* the end of a walk: what the specification's own state (= the implementation's, unless a step deviated) violates
TEnd ==
  /\ IsEvent("cend")
  /\ UNCHANGED csvars
  /\ Report(Flag(~Ev.clean /\ Ev.left # <<>>, "ribcsHang") \cup Flag(~Ev.clean /\ Ev.left = <<>>, "ribcsSlow")
            \cup Flag(Ev.clean /\ Quiescent /\ ~NoDangling, "KF:ribConcurrentCallsDangling")
            \cup Flag(Ev.clean /\ Quiescent /\ ~CountersExact, "KF:ribConcurrentCallsCounterDrift")
            \cup Flag(Ev.clean /\ Quiescent /\ ~AckedOnce, "KF:ribConcurrentCallsDoubleAck")
            \cup Flag(Ev.clean /\ Quiescent /\ ~NothingResolvableHeld, "KF:ribConcurrentCallsResolvableHeld"))

\* the dangling-entry scenario driven through the real server by two Modify sessions (no specification state involved: the
\* invariant is evaluated on the recorded RIB)
TSrv ==
  /\ IsEvent("csrv")
  /\ UNCHANGED csvars
  /\ Report(Flag(~Ev.ok /\ Ev.blocked # <<>>, "ribcsHang") \cup Flag(~Ev.ok /\ Ev.blocked = <<>>, "ribcsSetup")
            \cup Flag(Ev.ok /\ ~NoDanglingIn(LNh(Ev.st), LNhg(Ev.st), LIp(Ev.st)), "KF:ribConcurrentCallsDangling"))

\* the free-running hammer (several goroutines calling AddEntry / DeleteEntry on one RIB at once, race detector on): the
\* quiescent accounting of GribiRIBCS.Accounted on the recorded answers
UnionOf(cs, fld) == UNION {ToSetOf(cs[i][fld]) : i \in DOMAIN cs}
THammer ==
  /\ IsEvent("chammer")
  /\ UNCHANGED csvars
  /\ LET answered == UnionOf(Ev.calls, "oks") \cup UnionOf(Ev.calls, "fails") \cup ToSetOf(Ev.pend)
         lost == {i \in DOMAIN Ev.calls : ~Ev.calls[i].err /\ Ev.calls[i].id \notin answered}
     IN Report(Flag(Ev.hung # <<>>, "ribcsHang") \cup Flag(Ev.hung = <<>> /\ Ev.err # "", "ribcsSlow")
               \cup Flag(Ev.hung = <<>> /\ Ev.err = "" /\ lost # {}, "ribcsLost"))

CTNext == TStart \/ TStep \/ TEnd \/ TSrv \/ THammer
CTSpec == CTInit /\ [][CTNext]_ctvars

Matched == TLCGet("stats").diameter - 1
TraceAccepted ==
  /\ PrintT(<<"TRACE", "matched", Matched, "of", Len(TraceLog)>>)
  /\ Matched = Len(TraceLog)
=============================================================================
