-------------------------- MODULE GribiServerTrace --------------------------
(***************************************************************************)
(* Trace validation for GribiServer (message grain).  The Go harness drives *)
(* the real server.Server through in-process streams, one message at a     *)
(* time, and records: msgbegin; for every operation that reached the RIB   *)
(* the events of GribiRIBTrace (addbegin/try/addend, delete, callerr) with *)
(* the projected RIB state; one opdone per ModifyResponse carrying         *)
(* results; msgend with the other responses, the RPC's final status if it  *)
(* ended, and the projected election/session/RIB state.  Deviations are    *)
(* reported by component and the specification state is re-synchronised    *)
(* with the logged state (see GribiRIBTrace).                              *)
(***************************************************************************)
EXTENDS GribiServer, GribiRIBTrace

VARIABLES
  rc,     \* RIB call of the operation at the head of req.ops: "none" | "done" | "err"
  sentby, \* operation id -> label of the session that (last) sent an operation with that id
  kids,   \* ids of the operations that were held when the last RIB call began
  lost    \* a response of this request never reached the stream (allowed only if the RPC then ends)
stvars == <<allvars, l, skip, dead, known, rc, sentby, kids, lost>>

SUnch == UNCHANGED <<svars, rc, sentby, kids, lost>>

\* logged server state
LogSess(ss) == [s \in DOMAIN ss |-> [params |-> ss[s].params, set |-> ss[s].set, last |-> ss[s].last,
                                      got |-> IF s \in DOMAIN sess THEN sess[s].got ELSE FALSE]]
SessView(S) == [s \in DOMAIN S |-> [params |-> S[s].params, set |-> S[s].set]]
LastView(S) == [s \in DOMAIN S |-> S[s].last]

\* compare the specification's election/session state C = [sess, cur, master] with the log, then adopt the log
SDiff(C, sst) ==
       Flag(SessView(C.sess) # SessView(LogSess(sst.sess)), "sst:sess")
  \cup Flag(DOMAIN C.sess = DOMAIN sst.sess /\ LastView(C.sess) # LastView(LogSess(sst.sess)), "sst:last")
  \cup Flag(C.cur # sst.cur, "sst:cur")
  \cup Flag(C.master # sst.master, "sst:master")
  \cup Flag(sst.cur # (IF ann = {} THEN NoId ELSE CHOOSE m \in ann : \A x \in ann : IdLE(x, m)), "elecNotMax")

SAdopt(sst) ==
  /\ sess' = LogSess(sst.sess) /\ cur' = sst.cur /\ master' = sst.master

RibC == [rib |-> rib, pend |-> pend, refNH |-> refNH, refNHG |-> refNHG, mirror |-> mirror]
RibUnchangedDiff(st, tag) == {tag \o ":" \o x : x \in Diff(RibC, Logged(st))}

-----------------------------------------------------------------------------
STraceInit == Init({DefaultNI}, TRUE) /\ SInit /\ l = 1 /\ skip = FALSE /\ dead = FALSE /\ known = EmptyFn /\ rc = "none"
              /\ sentby = EmptyFn /\ kids = {} /\ lost = FALSE

TSReset ==
  /\ IsEvent("sreset")
  /\ Reset(ToSet(Ev.nis), Ev.fwd) /\ SReset
  /\ skip' = FALSE /\ dead' = FALSE /\ known' = EmptyFn /\ rc' = "none" /\ sentby' = EmptyFn /\ kids' = {} /\ lost' = FALSE

TSDead ==
  /\ dead /\ l <= Len(TraceLog) /\ TraceLog[l].ev # "sreset" /\ l' = l + 1
  /\ UNCHANGED <<allvars, skip, dead, known, rc, sentby, kids, lost>>

TSAbort ==   \* hang / panic / stray events: no action of the specification
  /\ ~dead /\ l <= Len(TraceLog) /\ TraceLog[l].ev \in {"hang", "panic", "strayrib"} /\ l' = l + 1
  /\ Report({TraceLog[l].ev})
  /\ dead' = (TraceLog[l].ev # "strayrib")
  /\ UNCHANGED <<allvars, skip, known, rc, sentby, kids, lost>>

TSOpen ==
  /\ ~dead /\ IsEvent("open")
  /\ LET ok == Idle /\ Ev.s \notin DOMAIN sess
         C  == [sess |-> IF ok THEN Put(sess, Ev.s, NewSess) ELSE sess, cur |-> cur, master |-> master]
     IN
     /\ Report(Flag(~ok, "openUnexpected") \cup Flag(Ev.end # NoEnd, "openEnd") \cup SDiff(C, Ev.sst)
               \cup RibUnchangedDiff(Ev.st, "open"))
     /\ SAdopt(Ev.sst)
  /\ sout' = [kind |-> "open", s |-> Ev.s]
  /\ UNCHANGED <<vars, req, ann, sf, skip, dead, known, rc, sentby, kids, lost>>

TSClose ==
  /\ ~dead /\ IsEvent("close")
  /\ LET ok == Idle /\ Ev.s \in DOMAIN sess
         C  == [sess |-> IF ok THEN Del(sess, Ev.s) ELSE sess, cur |-> cur, master |-> master]
     IN
     /\ Report(Flag(~ok, "closeUnexpected") \cup Flag(Ev.end # End(CloseCode(Ev.mode), ""), "closeEnd")
               \cup {"close:" \o x : x \in SDiff(C, Ev.sst)} \cup RibUnchangedDiff(Ev.st, "close"))
     /\ SAdopt(Ev.sst)
  /\ sout' = [kind |-> "close", s |-> Ev.s, end |-> Ev.end]
  /\ UNCHANGED <<vars, req, ann, sf, skip, dead, known, rc, sentby, kids, lost>>

TSMsgBegin ==
  /\ ~dead /\ IsEvent("msgbegin")
  /\ IF Idle /\ Ev.s \in DOMAIN sess
     THEN MsgBegin(Ev.s, Ev.m, Ev.sendfail) /\ skip' = FALSE
     ELSE Report({"msgUnexpected"}) /\ skip' = TRUE /\ UNCHANGED allvars
  /\ rc' = "none"
  /\ sentby' = IF Ev.m.k = "ops"
               THEN [i \in DOMAIN sentby \cup {Ev.m.ops[j].id : j \in DOMAIN Ev.m.ops} |->
                       IF \E j \in DOMAIN Ev.m.ops : Ev.m.ops[j].id = i THEN Ev.s ELSE sentby[i]]
               ELSE sentby
  /\ lost' = FALSE
  /\ UNCHANGED <<dead, known, kids>>

\* an operation reaches rib.AddEntry: it must be the head operation and pass the server's checks
RibCallOK(o) == req.active /\ req.end = NoEnd /\ req.ops # <<>> /\ ~call.active /\ rc = "none"
                /\ HeadOp = o /\ OpPre(HeadOp).k = "rib"

\* ... and when the server's own checks demanded that the RPC end with an error instead (C09)
RibCallFlags(o) == Flag(~RibCallOK(o), "ribCallUnexpected")
                   \cup Flag(req.active /\ req.ops # <<>> /\ HeadOp = o /\ OpPre(HeadOp).k = "err", "ribCallInsteadOfError")
                   \* history oracle (C04), independent of the adopted election state: an operation that reaches the RIB
                   \* carries the highest election id validly announced so far in this history
                   \cup Flag(~o.noeid /\ \E x \in ann : IdLT(o.eid, x), "ribCallStaleId")

TSAddBegin ==
  /\ ~dead /\ IsEvent("addbegin")
  /\ Report(RibCallFlags(Ev.op))
  /\ known' = Put(pend, Ev.op.id, Ev.op)
  /\ IF ~call.active /\ Ev.op.typ \in {"ADD", "REPLACE"} /\ ~Unroutable(Ev.op)
     THEN CallBegin(Ev.op) /\ skip' = FALSE
     ELSE Report({"begin"}) /\ skip' = TRUE /\ UNCHANGED vars
  /\ kids' = DOMAIN pend
  /\ UNCHANGED <<svars, dead, rc, sentby, lost>>

TSTry == TTry /\ SUnch
TSAddEnd == TAddEnd /\ UNCHANGED <<svars, sentby, kids, lost>> /\ rc' = "done"
TSDelete ==
  /\ ~dead /\ l <= Len(TraceLog) /\ TraceLog[l].ev = "delete"
  /\ Report(RibCallFlags(Ev.op))
  /\ TDelete /\ UNCHANGED <<svars, sentby, lost>> /\ rc' = "done" /\ kids' = {}
TSCallErr ==
  /\ ~dead /\ l <= Len(TraceLog) /\ TraceLog[l].ev = "callerr"
  /\ Report(RibCallFlags(Ev.op))
  /\ TCallErr /\ UNCHANGED <<svars, sentby, lost>> /\ rc' = "err" /\ kids' = {}

\* one ModifyResponse carrying results: the answer to the head operation
TSOpDone ==
  /\ ~dead /\ IsEvent("opdone")
  /\ IF skip \/ ~req.active \/ req.ops = <<>> \/ req.end # NoEnd
     THEN /\ Report(Flag(~skip, "extraResp"))
          /\ UNCHANGED <<allvars, rc>>
     ELSE LET p == OpPre(HeadOp)
              expected == IF rc = "done" THEN OpResp(out.oks, out.fails, req.fib)
                          ELSE OpResp(<<>>, <<HeadOp.id>>, req.fib)
          IN
          /\ Report(Flag(rc = "none" /\ p.k = "rib", "ribCallMissing")
                    \cup Flag(rc = "none" /\ p.k = "err", "respInsteadOfError")
                    \cup Flag(rc = "err", "respAfterRibError")
                    \cup Flag(Ev.resp # expected, "opResp")
                    \* C01 at the server: the ids acknowledged as programmed on the stream are exactly the ids the RIB call
                    \* installed (an entry that is installed but never acknowledged, or acknowledged but not installed)
                    \cup (LET AckIds(r) == IF r.k = "res" THEN {r.results[i].id : i \in {j \in DOMAIN r.results : r.results[j].st = "RIB"}} ELSE {}
                          IN Flag(AckIds(Ev.resp) # AckIds(expected), "ackedNotInstalled"))
                    \cup Flag(Ev.id # HeadOp.id, "opOrder")
                    \cup (LET foreign == (IF Ev.resp.k = "res" THEN {Ev.resp.results[i].id : i \in DOMAIN Ev.resp.results} ELSE {})
                                         \ {i \in DOMAIN sentby : sentby[i] = req.s}
                          IN Flag(foreign \ kids # {}, "foreignResult")
                             \cup Flag(foreign # {} /\ foreign \subseteq kids, "KF:heldOpAnsweredToOtherSession")))
          /\ req' = [req EXCEPT !.ops = Tail(@), !.resp = Append(@, Ev.resp)]
          /\ rc' = "none"
          /\ UNCHANGED <<vars, sess, cur, master, sout, ann, sf>>
  /\ UNCHANGED <<skip, dead, known, sentby, kids, lost>>

\* the RIB call of the head operation completed but its response never reached the
\* stream: legal only if this request ends the RPC (checked at msgend)
TSOpLost ==
  /\ ~dead /\ IsEvent("oplost")
  /\ IF ~skip /\ req.active /\ req.ops # <<>> /\ Ev.id = HeadOp.id
        /\ (rc = "done" \/ (rc = "none" /\ OpPre(HeadOp).k = "failed"))
     THEN req' = [req EXCEPT !.ops = Tail(@)] /\ lost' = TRUE /\ rc' = "none"
     ELSE Report({"opsUnanswered"}) /\ UNCHANGED <<req, lost, rc>>
  /\ UNCHANGED <<vars, sess, cur, master, sout, ann, sf, skip, dead, known, sentby, kids>>

NonOpResp(rs) == SelectSeq(rs, LAMBDA r : r.k # "res")

TSMsgEnd ==
  /\ ~dead /\ IsEvent("msgend")
  /\ IF skip \/ ~req.active
     THEN /\ Report(Flag(~skip, "msgendUnexpected"))
          /\ SAdopt(Ev.sst)
     ELSE LET \* the response to the operation processed just before a fatal error can be
              \* lost (the result pump stops when the handler returns): C06 excuses it
              lostOne == /\ Ev.end # NoEnd /\ req.end = NoEnd /\ Len(req.ops) >= 2
                         /\ (rc = "done" \/ (rc = "none" /\ OpPre(HeadOp).k = "failed"))
                         /\ OpPre(req.ops[2]).k = "err"
              ops2 == IF lostOne THEN Tail(req.ops) ELSE req.ops
              rc2  == IF lostOne THEN "none" ELSE rc
              sendfail == sf
              headErr == IF req.end # NoEnd THEN req.end
                         ELSE IF sendfail /\ (req.resp # <<>> \/ lost \/
                                              (req.ops # <<>> /\ (rc = "done" \/ (rc = "none" /\ OpPre(HeadOp).k = "failed"))))
                              THEN End("Internal", "")
                         ELSE IF ops2 = <<>> THEN NoEnd
                         ELSE IF rc2 = "err" THEN End("Unimplemented", "")
                         ELSE IF rc2 = "none" /\ OpPre(Head(ops2)).k = "err" THEN OpPre(Head(ops2)).end
                         ELSE End("?", "unanswered")
              gone == headErr # NoEnd
              C == [sess |-> IF gone THEN Del(sess, req.s) ELSE sess, cur |-> cur, master |-> master]
          IN
          /\ Report(Flag(headErr.code = "?" \/ (lost /\ Ev.end = NoEnd /\ ~sendfail), "opsUnanswered")
                    \cup Flag(headErr.code # "?" /\ Ev.end # headErr
                              \* after a failed write the straggling next operation may report its own
                              \* fatal error first (two goroutines race to end the RPC)
                              /\ ~(sendfail /\ lost /\ req.ops # <<>> /\ rc = "none" /\ OpPre(HeadOp).k = "err"
                                    /\ Ev.end = OpPre(HeadOp).end)
                              /\ ~(sendfail /\ lost /\ rc = "err" /\ Ev.end = End("Unimplemented", ""))
                              /\ ~(sendfail /\ lostOne /\ Ev.end = OpPre(req.ops[2]).end), "end")
                    \cup Flag(NonOpResp(Ev.resp) # Ev.resp, "extraResp")
                    \cup Flag(~sendfail /\ NonOpResp(req.resp) # NonOpResp(Ev.resp),
                              IF Len(NonOpResp(req.resp)) > 0 /\ NonOpResp(req.resp)[1].k = "elec" THEN "resp:elec" ELSE "resp")
                    \cup SDiff(C, Ev.sst)
                    \cup RibUnchangedDiff(Ev.st, "msgend"))
          /\ SAdopt(Ev.sst)
  /\ req' = IdleReq
  /\ sout' = [kind |-> "msg", s |-> Ev.s, resp |-> Ev.resp, end |-> Ev.end]
  /\ rc' = "none" /\ skip' = FALSE /\ lost' = FALSE /\ sf' = FALSE
  /\ UNCHANGED <<vars, ann, dead, known, sentby, kids>>

TSFlushRPC ==
  /\ ~dead /\ IsEvent("flushrpc")
  /\ IF ~StateOK(Ev.st)
     THEN Report({"stateError"}) /\ dead' = TRUE /\ UNCHANGED <<allvars, skip, known, rc, sentby, kids, lost>>
     ELSE LET L == Logged(Ev.st)
              v == FlushFinal(Ev.r)
              go == Idle /\ v = NoEnd
              n == FlushNext(FlushSet(Ev.r))
              C == IF go THEN [rib |-> n.rib, pend |-> pend, refNH |-> n.refNH, refNHG |-> n.refNHG, mirror |-> n.mirror]
                   ELSE RibC
              R2 == IF go THEN n.ref ELSE ref
              pf == IF go THEN n.pflush ELSE pflush
              expEnd == IF v = NoEnd THEN End("OK", "") ELSE v
          IN
          /\ Report(Flag(~Idle, "flushUnexpected")
                    \cup Flag(Ev.end # expEnd, IF v = NoEnd THEN "flushResult" ELSE "flushGate")
                    \cup {(IF go THEN "flush:" ELSE "flushGate:") \o x : x \in Diff(C, L)}
                    \cup {"flush:" \o x : x \in SDiff([sess |-> sess, cur |-> cur, master |-> master], Ev.sst)}
                    \cup RealProps(L, R2, pf, fwd))
          /\ Adopt(L) /\ SAdopt(Ev.sst)
          /\ ref' = R2 /\ pflush' = pf
          /\ out' = [kind |-> "flush", ok |-> Ev.end.code = "OK"]
          /\ sout' = [kind |-> "flush", end |-> Ev.end]
          /\ UNCHANGED <<fwd, call, req, ann, sf, skip, dead, known, rc, sentby, kids, lost>>

\* Get: exactly the installed entries of the scope, tagged and payload-faithful (C07)
\* Known finding (C07): the ygot protomap library cannot map boolean leaves back to
\* protobuf, so Get drops pop-top-label.  The harness names such a payload
\* "<pl>~nobool" and also logs plq, the identity with that loss undone.
LogGetEntryQ(x) ==
  IF x.kind = "nh" THEN [ni |-> x.ni, kind |-> "nh", key |-> x.key, e |-> [pl |-> x.plq]]
  ELSE IF x.kind = "nhg" THEN [ni |-> x.ni, kind |-> "nhg", key |-> x.key, e |-> [pl |-> x.pl, nhs |-> ToSet(x.nhs), bk |-> x.bk]]
  ELSE [ni |-> x.ni, kind |-> "top", key |-> x.key, e |-> [pl |-> x.pl, g |-> x.g, gni |-> x.gni, kd |-> x.kind]]

LogGetEntry(x) ==
  IF x.kind = "nh" THEN [ni |-> x.ni, kind |-> "nh", key |-> x.key, e |-> [pl |-> x.pl]]
  ELSE IF x.kind = "nhg" THEN [ni |-> x.ni, kind |-> "nhg", key |-> x.key, e |-> [pl |-> x.pl, nhs |-> ToSet(x.nhs), bk |-> x.bk]]
  ELSE [ni |-> x.ni, kind |-> "top", key |-> x.key, e |-> [pl |-> x.pl, g |-> x.g, gni |-> x.gni, kd |-> x.kind]]

\* the RIB rebuilt from the responses: the entries of the scope, per instance
ExpectedRebuild(g) ==
  LET E == GetEntries(g)
      N == {x.ni : x \in E} \cup {DefaultNI}
      tab(n, kd) == [k \in {x.key : x \in {y \in E : y.ni = n /\ y.kind = kd}} |->
                        (CHOOSE y \in E : y.ni = n /\ y.kind = kd /\ y.key = k).e]
  IN [n \in N |-> [nh |-> tab(n, "nh"), nhg |-> tab(n, "nhg"), top |-> tab(n, "top")]]

\* the entries of a scope in an arbitrary RIB value (used with the fold of the acknowledged operations)
GetEntriesIn(R, g) ==
  LET N == IF g.ni = "*" THEN DOMAIN R ELSE {g.ni} \cap DOMAIN R IN
  UNION {
     {[ni |-> n, kind |-> "nh", key |-> k, e |-> R[n].nh[k]] : k \in IF "nh" \in GetKinds(g) THEN DOMAIN R[n].nh ELSE {}}
     \cup {[ni |-> n, kind |-> "nhg", key |-> k, e |-> R[n].nhg[k]] : k \in IF "nhg" \in GetKinds(g) THEN DOMAIN R[n].nhg ELSE {}}
     \cup {[ni |-> n, kind |-> "top", key |-> k, e |-> R[n].top[k]] :
              k \in {t \in DOMAIN R[n].top : R[n].top[t].kd \in GetKinds(g)}}
     : n \in N}

TSGet ==
  /\ ~dead /\ IsEvent("get")
  /\ LET ok == GetOK(Ev.g)
         failing == "failafter" \in DOMAIN Ev
         got == {LogGetEntry(Ev.entries[i]) : i \in DOMAIN Ev.entries}
         gotQ == {LogGetEntryQ(Ev.entries[i]) : i \in DOMAIN Ev.entries}
         rebOK(r) == IF "error" \in DOMAIN r THEN FALSE ELSE LogRib(r) = ExpectedRebuild(Ev.g)
     IN
     Report(IF failing
            THEN Flag(Ev.end.code = "OK" /\ Cardinality(GetEntries(Ev.g)) > Ev.failafter, "getEndAfterSendFailure")
                 \cup Flag(~(gotQ \subseteq GetEntries(Ev.g)), "getForeignEntry")
            ELSE Flag(Ev.end.code # (IF ok THEN "OK" ELSE "Internal"), "getEnd")
                 \cup Flag("bad" \in DOMAIN Ev, "getBadEntry")
                 \cup Flag(ok /\ Len(Ev.entries) # Cardinality(got), "getDuplicate")
                 \cup Flag(ok /\ gotQ # GetEntries(Ev.g), "getEntries")
                 \* faithful to the RIB, but the RIB is not what was last programmed (fold of the acknowledged operations)
                 \cup Flag(ok /\ ~pflush /\ gotQ = GetEntries(Ev.g) /\ gotQ # GetEntriesIn(ref, Ev.g), "getNotLastProgrammed")
                 \cup Flag(ok /\ gotQ = GetEntries(Ev.g) /\ got # gotQ, "KF:getBoolLeafDropped")
                 \cup Flag(ok /\ Ev.end.code = "OK" /\ ~rebOK(Ev.rebuildq), "getRebuild")
                 \cup Flag(ok /\ Ev.end.code = "OK" /\ rebOK(Ev.rebuildq) /\ ~rebOK(Ev.rebuild), "KF:getBoolLeafDropped"))
  /\ UNCHANGED <<allvars, skip, dead, known, rc, sentby, kids, lost>>

\* the compliance driver uses two long-lived servers (with / without forward references): continue with the other one
TSSwitch ==
  /\ ~dead /\ IsEvent("sswitch")
  /\ LET L == Logged(Ev.st) IN
     /\ Adopt(L) /\ SAdopt(Ev.sst)
     /\ fwd' = Ev.fwd /\ ref' = L.rib /\ pflush' = TRUE /\ call' = IdleCall /\ out' = NoOut
  /\ req' = IdleReq /\ sout' = NoSOut /\ sf' = FALSE
  /\ ann' = IF Ev.sst.cur = NoId THEN {} ELSE {Ev.sst.cur}
  /\ skip' = FALSE /\ known' = EmptyFn /\ rc' = "none" /\ sentby' = EmptyFn /\ kids' = {} /\ lost' = FALSE
  /\ UNCHANGED dead

TSTestBegin == IsEvent("ctestbegin") /\ UNCHANGED <<allvars, skip, dead, known, rc, sentby, kids, lost>>
\* a test of the compliance suite finished: against a conformant server it must have passed
TSTest ==
  /\ IsEvent("ctest")
  /\ Report(Flag(Ev.fault = "" /\ ~Ev.pass /\ ~Ev.skipped, "compTestFailed"))
  /\ dead' = FALSE /\ skip' = FALSE
  /\ UNCHANGED <<allvars, known, rc, sentby, kids, lost>>

STraceNext == TSSwitch \/ TSTestBegin \/ TSTest \/ TSReset \/ TSDead \/ TSAbort \/ TSOpen \/ TSClose \/ TSMsgBegin \/ TSAddBegin \/ TSTry \/ TSAddEnd
              \/ TSDelete \/ TSCallErr \/ TSOpDone \/ TSOpLost \/ TSMsgEnd \/ TSFlushRPC \/ TSGet
              \/ (TSnapCheck /\ SUnch)
              \/ (TAddNI /\ SUnch)      \* Server.AddNetworkInstance while the server runs

STraceSpec == STraceInit /\ [][STraceNext]_stvars
=============================================================================
