------------------------ MODULE GribiClientProcTrace ------------------------
(* Trace validation at goroutine grain (C14, C13): the Go harness replays      *)
(* schedules of GribiClientProc into the real client through its scheduler     *)
(* gates and logs, after every step, where each goroutine is parked and the    *)
(* observable state (modify channel length, pending operations, recorded       *)
(* errors, what reached the stream, shut flag, done token, half-close,         *)
(* verdict of AwaitConverged).  Every logged step must be the specification's  *)
(* action of that goroutine at that label, enabled in the specification's      *)
(* current state, and must lead to the logged observation.  A step the         *)
(* specification enables but the implementation did not take (the goroutine    *)
(* was blocked, or parked at another gate) is logged with ok = FALSE.          *)
EXTENDS GribiClientProc, Json

CONSTANT TraceFile
TraceLog == ndJsonDeserialize(TraceFile)
VARIABLES l
ptvars == <<pvars, l>>

Ev == TraceLog[l]
IsEvent(e) == l <= Len(TraceLog) /\ TraceLog[l].ev = e /\ l' = l + 1
Flag(b, name) == IF b THEN {name} ELSE {}
Report(comps) == IF comps = {} THEN TRUE ELSE PrintT(<<"MISMATCH", l, Ev.ev, comps>>)

Act(p, lb, c) ==
  CASE lb = "q.begin"   -> QBegin
    [] lb = "q.rlock"   -> QRLock
    [] lb = "q.check"   -> QCheck
    [] lb = "q.select" /\ c = "exit" -> QSelectExit
    [] lb = "q.select"  -> QSelectSend
    [] lb = "q.runlock" -> QRUnlock
    [] lb = "aw.lock"   -> AwLock
    [] lb = "aw.locked" -> AwLocked
    [] lb = "aw.check"  -> AwCheck
    [] lb = "aw.unlock" -> AwUnlock
    [] lb = "dc.check"  -> DcCheck
    [] lb = "dc.close"  -> DcClose
    [] lb = "dc.wait"   -> DcWait
    [] lb = "rs.clear"  -> RsClear
    [] lb = "s.loop"    -> SndLoop
    [] lb = "s.recv"    -> SndRecv
    [] lb = "s.rlock"   -> SndRLock
    [] lb = "s.send"    -> SndSend(c = "fail")
    [] lb = "s.runlock" -> SndRUnlock
    [] lb = "s.exit1"   -> SndExit1
    [] lb = "s.exit2"   -> SndExit2
    [] lb = "s.exit3"   -> SndExit3
    [] lb = "r.loop"    -> RcvLoop
    [] lb = "r.recv"    -> RcvRecv
    [] lb = "r.rlock"   -> RcvRLock
    [] lb = "r.handle"  -> RcvHandle
    [] lb = "r.runlock" -> RcvRUnlock
    [] lb = "r.exit"    -> RcvExit
    [] p = "env" /\ lb = "resp" -> EnvResp(CHOOSE m \in 1..NQ : ToString(m) = c)
    [] p = "env" /\ lb = "respbad" -> EnvRespBad(CHOOSE m \in 1..NQ : ToString(m) = c)
    [] p = "env" /\ lb = "err" /\ c = "broken" -> EnvBrokenRecv
    [] p = "env" /\ lb = "err" -> EnvRecvErr
    [] p = "env" /\ lb = "eof" -> EnvEOF
    [] OTHER -> FALSE

\* where the harness sees a goroutine, given where the specification has it
SeenApp(real) == IF pc'.app = "aw.locked" THEN real \in {"", "aw.check"} ELSE real = pc'.app
SeenSnd(real) == IF pc'.snd = "s.done" THEN real = "" ELSE real = pc'.snd
SeenRcv(real) == IF pc'.rcv = "r.done" THEN real = "" ELSE real = pc'.rcv

StDiff(st) ==
       Flag(~SeenApp(st.app) \/ ~SeenSnd(st.snd) \/ ~SeenRcv(st.rcv), "procPc")
  \cup Flag(st.shut # shut', "procShut")
  \cup Flag(st.modLen # Len(modCh'), "procModLen")
  \cup Flag(st.doneLen # doneTok', "procDone")
  \cup Flag(st.pend # Cardinality(pend'), "procPend")
  \cup Flag(st.sendErrs # sendErr' \/ st.recvErrs # recvErr', "procErrs")
  \cup Flag(st.sent # sent', "procSent")
  \cup Flag(st.halfClosed # halfClosed', "procHalfClosed")
  \cup Flag(st.await # (IF pc'.app \in {"aw.lock", "aw.locked", "aw.check", "aw.unlock"} THEN "" ELSE awaitRes'),
            IF st.await = "ok" THEN "procConvergedWrongly" ELSE "procAwait")

PTInit == PInit /\ faults = 1 /\ l = 1

TPreset ==
  /\ IsEvent("preset")
  /\ Report(Flag(Ev.nq # NQ \/ Ev.closer # Closer \/ Ev.maxAwait # MaxAwait, "procConstants"))
  /\ pc' = [app |-> "q.begin", snd |-> "s.loop", rcv |-> "r.loop"]
  /\ qn' = 0 /\ modCh' = <<>> /\ modClosed' = FALSE /\ exitTok' = 0 /\ exitClosed' = FALSE /\ shut' = FALSE
  /\ rwR' = 0 /\ rwW' = FALSE /\ rwWait' = 0 /\ wg' = 2 /\ pend' = {} /\ sendErr' = 0 /\ recvErr' = 0 /\ doneTok' = 0
  /\ sent' = <<>> /\ dropped' = {} /\ inbox' = <<>> /\ broken' = FALSE /\ halfClosed' = FALSE /\ ended' = FALSE
  /\ faults' = 1 /\ cont' = [snd |-> TRUE, rcv |-> TRUE] /\ cur' = [snd |-> 0, rcv |-> <<"", 0>>]
  /\ awaitN' = 0 /\ awaitRes' = "" /\ panicked' = FALSE

TStep ==
  /\ IsEvent("pstep")
  /\ IF ~Ev.ok
     THEN UNCHANGED pvars /\ Report({"procStall"})
     ELSE IF ENABLED Act(Ev.p, Ev.l, Ev.c)
          THEN Act(Ev.p, Ev.l, Ev.c) /\ Report(StDiff(Ev.st) \cup Flag(panicked', "procPanic"))
          ELSE UNCHANGED pvars /\ Report({"procNotEnabled"})

\* end of a walk: the goroutines of the client could be collected
TEnd ==
  /\ IsEvent("pend")
  /\ UNCHANGED pvars
  /\ Report(Flag(~Ev.clean, "procGoroutineLeft"))

PTNext == TPreset \/ TStep \/ TEnd
PTSpec == PTInit /\ [][PTNext]_ptvars

Matched == TLCGet("stats").diameter - 1
TraceAccepted ==
  /\ PrintT(<<"TRACE", "matched", Matched, "of", Len(TraceLog)>>)
  /\ Matched = Len(TraceLog)
=============================================================================
