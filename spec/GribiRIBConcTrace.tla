------------------------- MODULE GribiRIBConcTrace -------------------------
(* Validation of concurrent histories recorded from the real rib package     *)
(* (vh lin-run): a Flush of several network instances is paused in the       *)
(* middle (the post-change hook blocks on a chosen removal) while adder      *)
(* goroutines install entries; every call is stamped at invocation and at    *)
(* return.  Each recorded history, with the RIB contents before and after,   *)
(* must be linearizable in the sense of GribiRIBConc.                        *)
EXTENDS Integers, Sequences, FiniteSets, TLC, Json

CONSTANT TraceFile
TraceLog == ndJsonDeserialize(TraceFile)
VARIABLE l

INSTANCE GribiRIBConc WITH FlushNIs <- <<>>, Progs <- [x \in {} |-> <<>>], HoldToEnd <- TRUE,
                           lock <- l, rib <- l, fpc <- l, apc <- l, clock <- l, hist <- l

Ev == TraceLog[l]
ToSetOf(seq) == {seq[i] : i \in DOMAIN seq}
RibOf(m) == [n \in DOMAIN m |-> ToSetOf(m[n])]
HistOf(ops) == [i \in DOMAIN ops |-> [inv |-> ops[i].inv, ret |-> ops[i].ret,
                                      o |-> [k |-> ops[i].k, nis |-> ToSetOf(ops[i].nis), ni |-> ops[i].ni, key |-> ops[i].key]]]

LTInit == l = 1
LTNext ==
  /\ l <= Len(TraceLog) /\ l' = l + 1
  /\ IF Ev.ev = "linget"
     \* Get while an installed entry is replaced over and over: installed before the first Get started and never
     \* deleted (a replace swaps the payload in one step), so every Get returns it - exactly once (C07, C11)
     THEN (IF Ev.failed # "" THEN PrintT(<<"MISMATCH", l, "linget", {"lingetFailed"}>>)
           ELSE IF Ev.missing > 0 THEN PrintT(<<"MISMATCH", l, "linget", {"getMissedInstalledEntry"}>>)
           ELSE IF Ev.dup > 0 THEN PrintT(<<"MISMATCH", l, "linget", {"getDuplicateDuringReplace"}>>)
           ELSE TRUE)
     ELSE IF Ev.ev = "lintwoget"
     \* two Gets of one instance in progress at the same time (nothing is written): each returns exactly the entries of its own scope (C07, C11)
     THEN (IF Ev.failed # "" THEN PrintT(<<"MISMATCH", l, "lintwoget", {"lintwogetFailed"}>>)
           ELSE IF Ev.gotA # Ev.wantA \/ Ev.gotB # Ev.wantB THEN PrintT(<<"MISMATCH", l, "lintwoget", {"getInterference"}>>)
           ELSE TRUE)
     ELSE IF Ev.ev = "linsnap"
     \* Get is a snapshot (C07, C11): with W1 acknowledged before W2 was issued, a Get in progress returns the contents of one moment
     THEN (IF Ev.failed # "" THEN PrintT(<<"MISMATCH", l, "linsnap", {"linsnapFailed"}>>)
           ELSE IF ToSetOf(Ev.got) \notin {ToSetOf(Ev.base), ToSetOf(Ev.base) \cup {Ev.w1}, ToSetOf(Ev.base) \cup {Ev.w1, Ev.w2}} \/ Len(Ev.got) # Cardinality(ToSetOf(Ev.got))
                THEN PrintT(<<"MISMATCH", l, "linsnap", {"getNotSnapshot"}>>)
           ELSE TRUE)
     ELSE IF Ev.ev = "linhook"
     \* Open finding (C16): the ADD notification of an install is delivered after the instance lock is released and can be
     \* overtaken by the DELETE notification of a Flush; the consumer then holds an entry the RIB does not
     THEN (IF Ev.failed # "" THEN PrintT(<<"MISMATCH", l, "linhook", {"linhookSetup"}>>)
           ELSE IF Ev.mirror # Ev.final THEN PrintT(<<"MISMATCH", l, "linhook", {"KF:postChangeOrderModifyVsFlush"}>>)
           ELSE TRUE)
     ELSE IF Ev.ev = "linref"
     \* DELETE of a next-hop (group) while the group (prefix) that refers to it is re-sent over and over: it is
     \* referenced before, during and after every replace, so every DELETE is answered FAILED (C03, C11)
     THEN (IF Ev.failed # "" THEN PrintT(<<"MISMATCH", l, "linref", {"linrefFailed"}>>)
           ELSE IF Ev.accepted > 0 THEN PrintT(<<"MISMATCH", l, "linref", {"refDeletedWhileReferenced"}>>)
           ELSE TRUE)
     ELSE IF Ev.ev # "lin" THEN TRUE
     ELSE IF ~Ev.completed THEN PrintT(<<"MISMATCH", l, "lin", {"linHang"}>>)
     ELSE IF ~LinearizableTo(RibOf(Ev.initial), HistOf(Ev.ops), RibOf(Ev.final)) THEN PrintT(<<"MISMATCH", l, "lin", {"notLinearizable"}>>)
     \* C16 under concurrency: folding the ADD / DELETE notifications gives the installed entries at quiescence
     ELSE IF RibOf(Ev.mirror) # RibOf(Ev.final) THEN PrintT(<<"MISMATCH", l, "lin", {"mirrorDiffersAtQuiescence"}>>)
     ELSE TRUE
LTSpec == LTInit /\ [][LTNext]_l

Matched == TLCGet("stats").diameter - 1
TraceAccepted ==
  /\ PrintT(<<"TRACE", "matched", Matched, "of", Len(TraceLog)>>)
  /\ Matched = Len(TraceLog)
=============================================================================
