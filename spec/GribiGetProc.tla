----------------------------- MODULE GribiGetProc -----------------------------
(***************************************************************************)
(* The Get RPC at goroutine grain (server/server.go Get / doGet,           *)
(* rib/rib.go RIBHolder.GetRIB): a producer walks the network instances,   *)
(* holding the instance's READ lock while it hands one response at a time  *)
(* to the RPC handler over an unbuffered channel; the handler writes each  *)
(* response to the stream and may leave at any response (send failure,     *)
(* cancelled client).  A writer (Modify / Flush) needs the WRITE lock.     *)
(*                                                                         *)
(*   consumer  c.select  select { doneCh ; errCh ; r := <-msgCh }          *)
(*             c.send    stream.Send(r)  (may fail: the client went away)  *)
(*             c.ret     return; deferred close(stopCh)                    *)
(*   producer  p.lock    RLock(ni)                                         *)
(*             p.offer   select { msgCh <- r ; <-stopCh }                  *)
(*             p.unlock  RUnlock(ni)  ;  p.done   doneCh <- {} (buffered)  *)
(*   writer    w.lock    Lock(ni) ; w.unlock                               *)
(*                                                                         *)
(* C10: however the client goes away, the producer terminates and every    *)
(* read lock is released, so a later writer is served.  StopByClose =      *)
(* FALSE is the design before fix ec12300 (the stop signal polled before a *)
(* blocking hand-over): TLC shows the producer blocked forever holding the *)
(* read lock.                                                              *)
(***************************************************************************)
EXTENDS Integers, Sequences, FiniteSets, TLC

CONSTANTS NNI,          \* number of network instances the Get walks
          PerNI,        \* responses per instance
          StopByClose   \* TRUE: the code (closed stop channel in every select)

VARIABLES pcC, pcP, pcW, ni, k, readers, writer, offered, doneBuf, stopped, sent, faultsLeft
gvars == <<pcC, pcP, pcW, ni, k, readers, writer, offered, doneBuf, stopped, sent, faultsLeft>>

GInit ==
  /\ pcC = "c.select" /\ pcP = "p.lock" /\ pcW = "w.idle" /\ ni = 1 /\ k = 0
  /\ readers = [n \in 1..NNI |-> 0] /\ writer = [n \in 1..NNI |-> FALSE]
  /\ offered = FALSE /\ doneBuf = 0 /\ stopped = FALSE /\ sent = 0 /\ faultsLeft \in {0, 1}

(* ------------------------------- producer -------------------------------- *)
PLock ==
  /\ pcP = "p.lock"
  /\ IF ni > NNI THEN pcP' = "p.done" /\ UNCHANGED readers
     ELSE ~writer[ni] /\ readers' = [readers EXCEPT ![ni] = @ + 1] /\ pcP' = "p.offer"
  /\ k' = 0 /\ UNCHANGED <<pcC, pcW, ni, writer, offered, doneBuf, stopped, sent, faultsLeft>>
\* nothing (more) to send in this instance
PNext ==
  /\ pcP = "p.offer" /\ k >= PerNI /\ ~offered
  /\ pcP' = "p.unlock" /\ UNCHANGED <<pcC, pcW, ni, k, readers, writer, offered, doneBuf, stopped, sent, faultsLeft>>
\* the hand-over becomes visible to the consumer's select
POffer ==
  /\ pcP = "p.offer" /\ k < PerNI /\ ~offered
  /\ (StopByClose \/ ~stopped)           \* old design: the stop signal is polled first and, when seen, ends the walk
  /\ offered' = TRUE /\ UNCHANGED <<pcC, pcP, pcW, ni, k, readers, writer, doneBuf, stopped, sent, faultsLeft>>
\* the stop signal wins the select (code), or is seen by the poll (old design, only when not yet blocked in the hand-over)
PStop ==
  /\ pcP = "p.offer" /\ stopped /\ (StopByClose \/ ~offered)
  /\ offered' = FALSE /\ pcP' = "p.unlock.stop"
  /\ UNCHANGED <<pcC, pcW, ni, k, readers, writer, doneBuf, stopped, sent, faultsLeft>>
PUnlock ==
  /\ pcP \in {"p.unlock", "p.unlock.stop"}
  /\ readers' = [readers EXCEPT ![ni] = @ - 1] /\ ni' = ni + 1 /\ pcP' = "p.lock"
  /\ UNCHANGED <<pcC, pcW, k, writer, offered, doneBuf, stopped, sent, faultsLeft>>
PDone ==
  /\ pcP = "p.done" /\ doneBuf' = 1 /\ pcP' = "p.end"
  /\ UNCHANGED <<pcC, pcW, ni, k, readers, writer, offered, stopped, sent, faultsLeft>>

(* ------------------------------- consumer -------------------------------- *)
CTake ==
  /\ pcC = "c.select" /\ offered
  /\ offered' = FALSE /\ k' = k + 1 /\ pcC' = "c.send"
  /\ UNCHANGED <<pcP, pcW, ni, readers, writer, doneBuf, stopped, sent, faultsLeft>>
CSend(fail) ==
  /\ pcC = "c.send" /\ fail \in (IF faultsLeft > 0 THEN BOOLEAN ELSE {FALSE})
  /\ IF fail THEN pcC' = "c.ret" /\ faultsLeft' = faultsLeft - 1 /\ UNCHANGED sent
     ELSE pcC' = "c.select" /\ sent' = sent + 1 /\ UNCHANGED faultsLeft
  /\ UNCHANGED <<pcP, pcW, ni, k, readers, writer, offered, doneBuf, stopped>>
CDone ==
  /\ pcC = "c.select" /\ doneBuf = 1
  /\ doneBuf' = 0 /\ pcC' = "c.ret"
  /\ UNCHANGED <<pcP, pcW, ni, k, readers, writer, offered, stopped, sent, faultsLeft>>
CRet ==
  /\ pcC = "c.ret" /\ stopped' = TRUE /\ pcC' = "c.end"
  /\ UNCHANGED <<pcP, pcW, ni, k, readers, writer, offered, doneBuf, sent, faultsLeft>>

(* -------------------------------- writer --------------------------------- *)
WStart == pcW = "w.idle" /\ pcW' = "w.lock" /\ UNCHANGED <<pcC, pcP, ni, k, readers, writer, offered, doneBuf, stopped, sent, faultsLeft>>
WLock(n) ==
  /\ pcW = "w.lock" /\ readers[n] = 0 /\ ~writer[n]
  /\ writer' = [writer EXCEPT ![n] = TRUE] /\ pcW' = "w.unlock"
  /\ UNCHANGED <<pcC, pcP, ni, k, readers, offered, doneBuf, stopped, sent, faultsLeft>>
WUnlock ==
  /\ pcW = "w.unlock"
  /\ writer' = [n \in DOMAIN writer |-> FALSE] /\ pcW' = "w.end"
  /\ UNCHANGED <<pcC, pcP, ni, k, readers, offered, doneBuf, stopped, sent, faultsLeft>>

Producer == PLock \/ PNext \/ POffer \/ PStop \/ PUnlock \/ PDone
Consumer == CTake \/ (\E f \in BOOLEAN : CSend(f)) \/ CDone \/ CRet
Writer == WStart \/ WLock(1) \/ WUnlock
GNext == Producer \/ Consumer \/ Writer
GSpec == GInit /\ [][GNext]_gvars /\ WF_gvars(Producer) /\ WF_gvars(Consumer) /\ WF_gvars(Writer)

-----------------------------------------------------------------------------
LocksBalanced == \A n \in DOMAIN readers : readers[n] \in {0, 1}
\* liveness (C10): the producer ends and releases every read lock; the writer is served
ProducerEnds == <>(pcP = "p.end")
LocksReleased == <>[](\A n \in DOMAIN readers : readers[n] = 0)
WriterServed == <>(pcW = "w.end")
\* a Get that was not cut delivers everything
NoFaultDeliversAll == [](pcC = "c.end" /\ faultsLeft = 1 => sent = NNI * PerNI)
=============================================================================
