SPECIFICATION MCSpec
CONSTANTS
  DefaultNI = "DEFAULT"
  InitNIs = {"DEFAULT"}
  LateNIs = {}
  OpNIs = {"DEFAULT"}
  NHK = {"1","2"}
  NHGK = {"1"}
  NHLists <- L_1_12
  BKs = {""}
  TopK <- T_v4
  GNIs = {""}
  PLs = {"a","b"}
  FwdModes = {TRUE, FALSE}
  MaxOps = 3
  WithFlush = TRUE
  BadKinds = {}
  EmitOn = FALSE
  Bias = FALSE
VIEW View
INVARIANTS InstalledIsFold NoDangling NothingResolvableHeld NoFwdMeansNoHeld CountersExact MirrorIsRib AnswerOnce PendShape FailedLeavesNoTrace
CHECK_DEADLOCK FALSE
