--------------------------- MODULE GribiRIBCS_MC ---------------------------
(* Bounded instances of GribiRIBCS: a catalogue of scenarios (initial RIB,    *)
(* the calls of two or three goroutines, optionally a Flush caller), every   *)
(* interleaving of their gate-to-gate segments.  `hist` is the schedule that *)
(* vh ribcs-run replays into the real rib package through its gates.         *)
EXTENDS GribiRIBCS, Json

CONSTANTS Scns,     \* the scenarios of the catalogue that are explored (one per behaviour)
          EmitOn
VARIABLE hist
mcvars == <<csvars, hist>>

D == "DEFAULT"
V == "vrf1"
O(id, typ, kind, ni, key, nhs, gni, g) == [id |-> id, typ |-> typ, kind |-> kind, ni |-> ni, key |-> key, nhs |-> nhs, gni |-> gni, g |-> g]
NH(id, typ, ni, key) == O(id, typ, "nh", ni, key, {}, "", "")
NHG(id, typ, ni, key, nhs) == O(id, typ, "nhg", ni, key, nhs, "", "")
TOP(id, typ, kind, ni, key, gni, g) == O(id, typ, kind, ni, key, {}, gni, g)

NoTbl == [n \in NIs |-> EmptyFn]
NoNH == [n \in NIs |-> {}]
One == {"1"}

\* every pair of calls from a small alphabet against one RIB (next-hops 1 2, groups 1 {1} and 2 {2}, v4:k1 -> group 1,
\* held: v6:k2 -> group 3): scenarios 100 + (a - 1) * NAlpha + (b - 1)
Alpha(id) == << NH(id, "ADD", D, "3"), NH(id, "DELETE", D, "1"), NH(id, "DELETE", D, "2"),
               NHG(id, "ADD", D, "1", {"2"}), NHG(id, "ADD", D, "3", {"1", "2"}), NHG(id, "REPLACE", D, "2", {"1"}), NHG(id, "DELETE", D, "1", {}), NHG(id, "DELETE", D, "2", {}),
               TOP(id, "ADD", "v4", D, "k1", D, "2"), TOP(id, "REPLACE", "v4", D, "k1", D, "1"), TOP(id, "DELETE", "v4", D, "k1", "", ""),
               TOP(id, "ADD", "mpls", V, "k1", D, "2") >>
NAlpha == Len(Alpha(0))
PairScenario(a, b) ==
  [nh |-> [NoNH EXCEPT ![D] = {"1", "2"}], nhg |-> [NoTbl EXCEPT ![D] = [x \in {"1", "2"} |-> {x}]],
   ip |-> [NoTbl EXCEPT ![D] = [x \in {"v4:k1"} |-> [gni |-> D, g |-> "1"]]], pend |-> << TOP(90, "ADD", "v6", D, "k2", D, "3") >>,
   progs |-> [c \in {"A", "B"} |-> IF c = "A" THEN << Alpha(1)[a] >> ELSE << Alpha(2)[b] >>], fprog |-> <<>>]

\* [nh, nhg, ip, pend (sequence of held operations), progs, fprog]
Scenario(Scn) ==
  CASE Scn = 1 ->   \* a top-level entry is installed while the group it points at is deleted
         [nh |-> [NoNH EXCEPT ![D] = One], nhg |-> [NoTbl EXCEPT ![D] = [x \in {"1"} |-> One]], ip |-> NoTbl, pend |-> <<>>,
          progs |-> [c \in {"A", "B"} |-> IF c = "A" THEN << TOP(1, "ADD", "v4", D, "k1", D, "1") >> ELSE << NHG(2, "DELETE", D, "1", {}) >>], fprog |-> <<>>]
    [] Scn = 2 ->   \* two implicit replaces of one entry towards different groups
         [nh |-> [NoNH EXCEPT ![D] = One], nhg |-> [NoTbl EXCEPT ![D] = [x \in {"1", "2", "3"} |-> One]],
          ip |-> [NoTbl EXCEPT ![D] = [x \in {"v4:k1"} |-> [gni |-> D, g |-> "1"]]], pend |-> <<>>,
          progs |-> [c \in {"A", "B"} |-> IF c = "A" THEN << TOP(1, "ADD", "v4", D, "k1", D, "2") >> ELSE << TOP(2, "ADD", "v4", D, "k1", D, "3") >>], fprog |-> <<>>]
    [] Scn = 3 ->   \* two installs, each of which makes the same held group resolvable
         [nh |-> [NoNH EXCEPT ![D] = One], nhg |-> NoTbl, ip |-> NoTbl, pend |-> << NHG(90, "ADD", D, "1", {"1", "2"}) >>,
          progs |-> [c \in {"A", "B"} |-> IF c = "A" THEN << NH(1, "ADD", D, "2") >> ELSE << NH(2, "ADD", D, "3") >>], fprog |-> <<>>]
    [] Scn = 4 ->   \* a group is installed while its next-hop is deleted
         [nh |-> [NoNH EXCEPT ![D] = One], nhg |-> NoTbl, ip |-> NoTbl, pend |-> <<>>,
          progs |-> [c \in {"A", "B"} |-> IF c = "A" THEN << NHG(1, "ADD", D, "1", One) >> ELSE << NH(2, "DELETE", D, "1") >>], fprog |-> <<>>]
    [] Scn = 5 ->   \* a Flush of every instance against an entry whose group lives in another instance
         [nh |-> [NoNH EXCEPT ![D] = One], nhg |-> [NoTbl EXCEPT ![D] = [x \in {"1"} |-> One]], ip |-> NoTbl, pend |-> <<>>,
          progs |-> [c \in {"A"} |-> << TOP(1, "ADD", "v6", V, "k1", D, "1") >>], fprog |-> <<D, V>>]
    [] Scn = 6 ->   \* the delete of an entry against its implicit replace
         [nh |-> [NoNH EXCEPT ![D] = One], nhg |-> [NoTbl EXCEPT ![D] = [x \in {"1", "2"} |-> One]],
          ip |-> [NoTbl EXCEPT ![D] = [x \in {"mpls:k1"} |-> [gni |-> D, g |-> "1"]]], pend |-> <<>>,
          progs |-> [c \in {"A", "B"} |-> IF c = "A" THEN << TOP(1, "DELETE", "mpls", D, "k1", "", "") >> ELSE << TOP(2, "ADD", "mpls", D, "k1", D, "2") >>], fprog |-> <<>>]
    [] Scn = 7 ->   \* a held entry becomes resolvable through one caller's installs while the other deletes it
         [nh |-> NoNH, nhg |-> NoTbl, ip |-> NoTbl, pend |-> <<>>,
          progs |-> [c \in {"A", "B"} |-> IF c = "A" THEN << NH(1, "ADD", D, "1"), NHG(2, "ADD", D, "1", One) >>
                                          ELSE << TOP(3, "ADD", "v4", D, "k1", D, "1"), TOP(4, "DELETE", "v4", D, "k1", "", "") >>], fprog |-> <<>>]
    [] Scn = 8 ->   \* an explicit replace of a group against its delete
         [nh |-> [NoNH EXCEPT ![D] = {"1", "2"}], nhg |-> [NoTbl EXCEPT ![D] = [x \in {"1"} |-> One]], ip |-> NoTbl, pend |-> <<>>,
          progs |-> [c \in {"A", "B"} |-> IF c = "A" THEN << NHG(1, "REPLACE", D, "1", {"2"}) >> ELSE << NHG(2, "DELETE", D, "1", {}) >>], fprog |-> <<>>]
    [] Scn = 9 ->   \* the same as 1 across instances, and the group comes back
         [nh |-> [NoNH EXCEPT ![D] = One], nhg |-> [NoTbl EXCEPT ![D] = [x \in {"1"} |-> One]], ip |-> NoTbl, pend |-> <<>>,
          progs |-> [c \in {"A", "B"} |-> IF c = "A" THEN << TOP(1, "ADD", "v4", V, "k1", D, "1") >>
                                          ELSE << NHG(2, "DELETE", D, "1", {}), NHG(3, "ADD", D, "1", One) >>], fprog |-> <<>>]
    [] Scn = 10 ->  \* three installs that each retry the same held group
         [nh |-> [NoNH EXCEPT ![D] = One], nhg |-> NoTbl, ip |-> NoTbl, pend |-> << NHG(90, "ADD", D, "1", {"1", "2"}) >>,
          progs |-> [c \in {"A", "B", "C"} |-> IF c = "A" THEN << NH(1, "ADD", D, "2") >> ELSE IF c = "B" THEN << NH(2, "ADD", D, "3") >> ELSE << NH(3, "ADD", D, "4") >>], fprog |-> <<>>]
    [] Scn = 11 ->  \* a chain that resolves (next-hop, group, entry held in reverse order) while a Flush of one instance runs
         [nh |-> NoNH, nhg |-> NoTbl, ip |-> NoTbl, pend |-> << TOP(90, "ADD", "v4", D, "k1", D, "1"), NHG(91, "ADD", D, "1", One) >>,
          progs |-> [c \in {"A"} |-> << NH(1, "ADD", D, "1") >>], fprog |-> <<D>>]
    [] Scn = 12 ->  \* a group is re-sent with another member while the old member is deleted and a top-level entry arrives
         [nh |-> [NoNH EXCEPT ![D] = {"1", "2"}], nhg |-> [NoTbl EXCEPT ![D] = [x \in {"1"} |-> One]], ip |-> NoTbl, pend |-> <<>>,
          progs |-> [c \in {"A", "B"} |-> IF c = "A" THEN << NHG(1, "ADD", D, "1", {"2"}), TOP(2, "ADD", "v6", D, "k1", D, "1") >>
                                          ELSE << NH(3, "DELETE", D, "1"), NH(4, "DELETE", D, "2") >>], fprog |-> <<>>]
    [] Scn = 13 ->  \* a network instance is created while a Flush of every instance is between two instances
         [nh |-> [NoNH EXCEPT ![D] = One], nhg |-> [NoTbl EXCEPT ![D] = [x \in {"1"} |-> One]],
          ip |-> [NoTbl EXCEPT ![V] = [x \in {"v6:k1"} |-> [gni |-> D, g |-> "1"]], ![D] = [x \in {"v4:k1"} |-> [gni |-> D, g |-> "1"]]], pend |-> <<>>,
          progs |-> [c \in {"A"} |-> << O(1, "ADDNI", "ni", "vrf9", "", {}, "", "") >>], fprog |-> <<V, D>>]
    [] Scn = 14 ->  \* installs and a delete in the instances a Flush of both instances is working through
         [nh |-> [n \in NIs |-> One], nhg |-> NoTbl, ip |-> NoTbl, pend |-> <<>>,
          progs |-> [c \in {"A", "B"} |-> IF c = "A" THEN << NH(1, "ADD", D, "2") >> ELSE << NH(2, "DELETE", V, "1") >>], fprog |-> <<D, V>>]
    [] Scn = 15 ->  \* two top-level entries announced (every instance copied) while a Flush of both instances is between them
         [nh |-> [n \in NIs |-> One], nhg |-> [n \in NIs |-> [x \in {"1"} |-> One]], ip |-> NoTbl, pend |-> <<>>,
          progs |-> [c \in {"A", "B"} |-> IF c = "A" THEN << TOP(1, "ADD", "v4", V, "k1", V, "1") >> ELSE << TOP(2, "ADD", "v6", V, "k2", V, "1") >>], fprog |-> <<D, V>>]
    [] Scn >= 100 /\ Scn < 100 + NAlpha * NAlpha -> PairScenario((Scn - 100) \div NAlpha + 1, ((Scn - 100) - NAlpha * ((Scn - 100) \div NAlpha)) + 1)
    [] OTHER -> [nh |-> NoNH, nhg |-> NoTbl, ip |-> NoTbl, pend |-> <<>>, progs |-> [c \in {"A"} |-> <<>>], fprog |-> <<>>]

\* the counters a sequential set-up leaves
InitRefNH(S) == [n \in NIs |-> [i \in {x \in S.nh[n] : \E g \in DOMAIN S.nhg[n] : x \in S.nhg[n][g]} |-> Cardinality({g \in DOMAIN S.nhg[n] : i \in S.nhg[n][g]})]]
AllTop(S) == UNION {{<<m, k>> : k \in DOMAIN S.ip[m]} : m \in NIs}
InitRefNHG(S) == [n \in NIs |-> [g \in {y \in DOMAIN S.nhg[n] : \E x \in AllTop(S) : S.ip[x[1]][x[2]].gni = n /\ S.ip[x[1]][x[2]].g = y} |->
                                  Cardinality({x \in AllTop(S) : S.ip[x[1]][x[2]].gni = n /\ S.ip[x[1]][x[2]].g = g})]]
InitPend(S) == [k \in {S.pend[i].id : i \in DOMAIN S.pend} |-> CHOOSE o \in {S.pend[i] : i \in DOMAIN S.pend} : o.id = k]

MCInit == \E n \in Scns : LET S == Scenario(n) IN
            CSInit([progs |-> S.progs, fprog |-> S.fprog, scn |-> n], S.nh, S.nhg, S.ip, InitRefNH(S), InitRefNHG(S), InitPend(S)) /\ hist = <<>>
H(r) == hist' = Append(hist, r)
\* the step and the gate the goroutine must be at afterwards (the replay stops where the code's own choices - the order in
\* which it walks the held operations - take it somewhere else)
HC(c, a) == H([c |-> c, a |-> a, site |-> GateOf(cpc'[c]), gid |-> GidOf(cpc'[c])])
HF(a) == H([c |-> "F", a |-> a, site |-> FGate(fpc'), gid |-> 0])

IdOf(x) == IF x = None THEN 0 ELSE x.id
\* whatever the walk of caller c could pick next (the actions constrain it further)
Cands(c) == {pend[k] : k \in DOMAIN pend} \cup UNION {cpc[c].stk[i].todo : i \in DOMAIN cpc[c].stk} \cup {None}
\* a waiter whose lock has been released runs on by itself: nothing else is scheduled before it is parked again
Woken == {c \in Callers : Waiting(c) /\ WaitsFor(c) \cap lockF = {}}
MCNext ==
  IF Woken # {} THEN \E c \in Woken : (AddInstall(c) \/ DelRemove(c) \/ WakeCount(c) \/ WakeDone(c)) /\ HC(c, "wake") ELSE
  \/ \E c \in Callers :
       \/ AddBegin(c) /\ HC(c, "addbegin")
       \/ \E x \in Cands(c) :
            AddTry(c, x) /\ HC(c, "addtry")
       \/ AddInstall(c) /\ HC(c, "addinstall")
       \/ AddCount(c) /\ HC(c, "addcount")
       \/ \E x \in Cands(c) :
            AddWalk(c, x) /\ HC(c, "addwalk")
       \/ NiCall(c) /\ HC(c, "nicall")
       \/ (Block(c) \/ BlockCount(c) \/ BlockUncount(c)) /\ HC(c, "block")
       \/ DelBegin(c) /\ HC(c, "delbegin")
       \/ DelRemove(c) /\ HC(c, "delremove")
       \/ DelUncount(c) /\ HC(c, "deluncount")
  \/ FlushBegin /\ HF("flushbegin")
  \/ FlushNI /\ HF("flushni")
  \/ FlushEnd /\ HF("flushend")

PairScns == 100..(99 + NAlpha * NAlpha)
AllScns == (1..15) \cup (100..(99 + NAlpha * NAlpha))
MCSpec == MCInit /\ [][MCNext]_mcvars
View == csvars

\* what the as-implemented model shows at the end of a behaviour
Anomalies == (IF NoDangling THEN {} ELSE {"dangling"}) \cup (IF CountersExact THEN {} ELSE {"counters"})
        \cup (IF AckedOnce THEN {} ELSE {"doubleAck"}) \cup (IF NothingResolvableHeld THEN {} ELSE {"resolvableHeld"})
Emit == (EmitOn /\ AllDone) =>
          LET S == Scenario(scen.scn) IN
          PrintT("@@" \o ToJson([scn |-> scen.scn, init |-> [nh |-> S.nh, nhg |-> S.nhg, ip |-> S.ip, pend |-> S.pend],
                                 progs |-> S.progs, fprog |-> S.fprog, steps |-> hist, anom |-> Anomalies]))
=============================================================================
