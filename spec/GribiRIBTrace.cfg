SPECIFICATION TraceSpec
CONSTANTS
  DefaultNI = "DEFAULT"
  TraceFile = "trace.ndjson"
INVARIANTS InstalledIsFold NoDangling NothingResolvableHeld NoFwdMeansNoHeld CountersExact MirrorIsRib AnswerOnce PendShape FailedLeavesNoTrace
POSTCONDITION TraceAccepted
CHECK_DEADLOCK FALSE
