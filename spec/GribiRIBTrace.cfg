SPECIFICATION TraceSpec
CONSTANTS
  DefaultNI = "DEFAULT"
  TraceFile = "trace.ndjson"
POSTCONDITION TraceAccepted
CHECK_DEADLOCK FALSE
