---------------------------- MODULE GribiClient_MC ----------------------------
(* Bounded instance of GribiClient: batches of queued requests against every   *)
(* server behaviour (delays, reordering across ids, batching of results, RIB   *)
(* before FIB per id, election/parameter responses, protocol violations,       *)
(* stream faults on either side), with Close/Reset.                            *)
EXTENDS GribiClient, Json

CONSTANTS MaxSteps, MaxOps, FibModes, WithFaults, WithViolations, EmitOn
VARIABLES n, nid, hist
mcvars == <<cvars, n, nid, hist>>

OpRec(id, kd) == [id |-> id, typ |-> "ADD", kind |-> kd, key |-> 1]
OpMsgs == {[k |-> "ops", ops |-> <<OpRec(nid, "nh")>>],
           [k |-> "ops", ops |-> <<OpRec(nid, "v4"), OpRec(nid + 1, "nhg")>>]}

\* a request that reuses the id of the previous operation (recorded as a send error when that one is still pending)
DupMsgs == IF WithViolations /\ nid > 1 /\ (nid - 1) \in DOMAIN pend THEN {[k |-> "ops", ops |-> <<OpRec(nid - 1, "nhg")>>]} ELSE {}

\* results the server may send: for pending ids the next status in order; violations: unknown id, repeated terminal
NextSt(id) ==
  IF \E i \in DOMAIN results : results[i].k = "op" /\ results[i].id = id /\ results[i].st = "RIB" /\ id \in DOMAIN pend
  THEN {"FIB", "FIB_FAILED"} ELSE {"RIB", "FAILED"}
\* statuses that are no verdict (the deprecated OK, the zero value, an undefined number): they complete nothing
NonVerdict == IF WithViolations THEN {"OK", "UNSET", "9"} ELSE {}
GoodResults == {<<[id |-> i, st |-> s]>> : i \in DOMAIN pend, s \in NonVerdict \cup UNION {NextSt(j) : j \in DOMAIN pend}}
               \cup {<<[id |-> i, st |-> "RIB"], [id |-> j, st |-> "RIB"]>> : i, j \in DOMAIN pend}
BadResults == {<<[id |-> 99, st |-> "FAILED"]>>, <<[id |-> 99, st |-> "RIB"]>>}
              \cup {<<[id |-> 99, st |-> "FAILED"], [id |-> i, st |-> "FAILED"]>> : i \in DOMAIN pend}
              \cup {<<[id |-> i, st |-> "FAILED"]>> : i \in handed \ DOMAIN pend}
Resps ==
       {[k |-> "res", results |-> r] : r \in {x \in GoodResults : \A i \in DOMAIN x : x[i].st \in NextSt(x[i].id) \cup NonVerdict}}
  \cup {[k |-> "elec", id |-> <<0, 1>>], [k |-> "params_ok"]}
  \cup (IF WithViolations THEN {[k |-> "res", results |-> r] : r \in BadResults} \cup {[k |-> "multi"]} ELSE {})

MCInit == CInit /\ n = 0 /\ nid = 1 /\ hist = <<>>
H(rec) == hist' = Append(hist, rec) /\ n' = n + 1

MCNext ==
  \/ /\ n = 0
     /\ \E f \in FibModes : LET c == [fib |-> f, elected |-> TRUE, elec |-> <<0, 1>>, params |-> TRUE] IN
          CNew(c) /\ H([a |-> "new", fib |-> f, elected |-> TRUE, params |-> TRUE, elec |-> <<0, 1>>])
     /\ UNCHANGED nid
  \/ /\ n > 0 /\ n < MaxSteps
     /\ \/ CConnect /\ H([a |-> "connect"]) /\ UNCHANGED nid
        \/ /\ conn \in {"none", "up"} /\ nid <= MaxOps       \* queueing before Connect is how fluent uses the client
           /\ \E m \in OpMsgs \cup DupMsgs : CQ(m) /\ H([a |-> "q", m |-> m])
                 /\ nid' = IF m \in DupMsgs THEN nid ELSE nid + Len(m.ops)
        \/ CStart /\ H([a |-> "start"]) /\ UNCHANGED nid
        \/ /\ sending /\ \E r \in Resps : CDeliver(r) /\ H([a |-> "deliver", r |-> r]) /\ UNCHANGED nid
        \/ /\ WithFaults /\ sending /\ CRecvFail /\ \E cd \in {"Unavailable", "Canceled"} : H([a |-> "recvfail", code |-> cd]) /\ UNCHANGED nid
        \/ /\ WithFaults /\ sending /\ CRecvEOF /\ H([a |-> "recveof"]) /\ UNCHANGED nid
        \/ /\ WithFaults /\ sending /\ failIn = -1 /\ sender = "alive"
           /\ \E k \in 0..1 : CSetSendFail(k) /\ H([a |-> "sendfail", n |-> k]) /\ UNCHANGED nid
        \/ /\ conn = "up" /\ UNCHANGED cvars /\ H([a |-> "await"]) /\ UNCHANGED nid
        \* the application acknowledges a result - alone, or while the receiver is handling the next response
        \/ /\ \E i \in handed : CAck(i) /\ H([a |-> "ack", id |-> i]) /\ UNCHANGED nid
        \/ /\ WithFaults /\ conn = "up" /\ CReset /\ H([a |-> "reset"]) /\ UNCHANGED nid

MCSpec == MCInit /\ [][MCNext]_mcvars
View == <<cfg, conn, sending, sendq, sent, lost, pend, pendElec, pendParams, results, sendErrs, recvErrs, sender, receiver, failIn, acked, n, nid>>
Complete == n = MaxSteps
Emit == (EmitOn /\ Complete) => PrintT("@@" \o ToJson(hist \o << [a |-> "await"], [a |-> "close"] >>))
=============================================================================
