----------------------------- MODULE GribiClient -----------------------------
(***************************************************************************)
(* The gRIBI client library (client/gribiclient.go) at the grain of its    *)
(* public calls and of the messages exchanged with the Modify stream:      *)
(*                                                                         *)
(*   CNew, CConnect           New / Connect (spawns sender and receiver)   *)
(*   CQ(m)                    Q: handleModifyRequest (operations become    *)
(*                            pending at queueing time) then sendq or the  *)
(*                            modify channel                               *)
(*   CStart                   StartSending: session parameters, initial    *)
(*                            election id, then the queued messages        *)
(*   CDeliver(r)              the receiver handles one ModifyResponse      *)
(*   CRecvFail, CRecvEOF      the stream fails / ends on the receive side  *)
(*   CSetSendFail(n)          environment: the n+1-th Send from now fails  *)
(*   CAwait                   AwaitConverged (observation)                 *)
(*   CClose, CReset           Close / Reset                                *)
(*                                                                         *)
(* The sender goroutine is eager: a message handed to it is on the stream  *)
(* (or has failed) before the next call is observed - the harness waits    *)
(* for that.  A message is a record [k, ...] as in GribiServer: "params",  *)
(* "elec" [id], "ops" [ops: sequence of [id, typ, kind, key]].  A response *)
(* is [k : "params_ok" | "elec" | "res" | "multi", id, results].           *)
(***************************************************************************)
EXTENDS Integers, Sequences, FiniteSets, TLC

VARIABLES
  cfg,        \* [fib, elected, elec, params] chosen at New (params: the client has session parameters at all)
  conn,       \* "none" | "up" | "closed"
  sending,    \* StartSending was called
  sendq,      \* messages queued before StartSending
  sent,       \* messages that reached the stream, in order (history)
  lost,       \* messages handed to Q that never reached the stream (sender gone / failed send)
  pend,       \* pending operations: id -> [typ, kind, key]
  pendElec, pendParams,   \* BOOLEAN: an election / parameters request is pending
  results,    \* result queue
  sendErrs, recvErrs,     \* number of recorded errors
  sender, receiver,       \* "none" | "alive" | "dead" ; sender may also be "lastone" (exits after the next message)
  failIn,     \* -1: sends succeed; n >= 0: the Send after n more successful ones fails
  handed,     \* history: ids of operations handed to Q and accepted
  acked       \* history: ids whose terminal result the application acknowledged (AckResult removes results from the queue)

cvars == <<cfg, conn, sending, sendq, sent, lost, pend, pendElec, pendParams, results, sendErrs, recvErrs,
           sender, receiver, failIn, handed, acked>>

EmptyFn      == [x \in {} |-> TRUE]
Put(f, k, v) == [x \in (DOMAIN f) \cup {k} |-> IF x = k THEN v ELSE f[x]]
Del(f, k)    == [x \in (DOMAIN f) \ {k} |-> f[x]]

NoCfg == [fib |-> FALSE, elected |-> FALSE, elec |-> <<0, 0>>, params |-> FALSE]

CInit ==
  /\ cfg = NoCfg /\ conn = "none" /\ sending = FALSE /\ sendq = <<>> /\ sent = <<>> /\ lost = <<>>
  /\ pend = EmptyFn /\ pendElec = FALSE /\ pendParams = FALSE /\ results = <<>>
  /\ sendErrs = 0 /\ recvErrs = 0 /\ sender = "none" /\ receiver = "none" /\ failIn = -1 /\ handed = {} /\ acked = {}

CNew(c) ==
  /\ cfg' = c /\ conn' = "none" /\ sending' = FALSE /\ sendq' = <<>> /\ sent' = <<>> /\ lost' = <<>>
  /\ pend' = EmptyFn /\ pendElec' = FALSE /\ pendParams' = FALSE /\ results' = <<>>
  /\ sendErrs' = 0 /\ recvErrs' = 0 /\ sender' = "none" /\ receiver' = "none" /\ failIn' = -1 /\ handed' = {} /\ acked' = {}

CConnect ==
  /\ conn \in {"none", "closed"}
  /\ conn' = "up" /\ sender' = "alive" /\ receiver' = "alive"
  /\ UNCHANGED <<cfg, sending, sendq, sent, lost, pend, pendElec, pendParams, results, sendErrs, recvErrs, failIn, handed, acked>>

(* ---- handing a message to the sender ---- *)
\* state components after trying to put message m on the stream
\* [sent, lost, sender, failIn, sendErrs, receiver, recvErrs]; a failed Send breaks the stream: the
\* receiver (if still there) gets the error too
Xmit(S, m) ==
  IF S.sender \notin {"alive", "lastone"} THEN [S EXCEPT !.lost = Append(@, m)]
  \* the server has ended the RPC: Send returns io.EOF, which is recorded as a send error like any other
  ELSE IF S.sender = "lastone"
       THEN [S EXCEPT !.lost = Append(@, m), !.sender = "dead", !.sendErrs = @ + 1]
  ELSE IF S.failIn = 0
       THEN [S EXCEPT !.lost = Append(@, m), !.sender = "dead", !.sendErrs = @ + 1, !.failIn = -1,
                      !.receiver = IF @ = "alive" THEN "dead" ELSE @,
                      !.recvErrs = IF S.receiver = "alive" THEN @ + 1 ELSE @]
  ELSE [S EXCEPT !.sent = Append(@, m), !.failIn = IF @ > 0 THEN @ - 1 ELSE @]

RECURSIVE XmitAll(_, _)
XmitAll(S, ms) == IF ms = <<>> THEN S ELSE XmitAll(Xmit(S, Head(ms)), Tail(ms))

XS == [sent |-> sent, lost |-> lost, sender |-> sender, failIn |-> failIn, sendErrs |-> sendErrs,
       receiver |-> receiver, recvErrs |-> recvErrs]

(* ---- handleModifyRequest: pending bookkeeping of a message ---- *)
\* operations are added one by one; the first duplicate id stops the processing with a send error
RECURSIVE AddOps(_, _, _)
AddOps(P, ops, H) ==
  IF ops = <<>> THEN [pend |-> P, err |-> FALSE, handed |-> H]
  ELSE IF Head(ops).id \in DOMAIN P THEN [pend |-> P, err |-> TRUE, handed |-> H]
  ELSE AddOps(Put(P, Head(ops).id, [typ |-> Head(ops).typ, kind |-> Head(ops).kind, key |-> Head(ops).key]),
              Tail(ops), H \cup {Head(ops).id})

\* Q as a function on the part of the state it touches
QS == [pend |-> pend, pendElec |-> pendElec, pendParams |-> pendParams, handed |-> handed, sendq |-> sendq, xs |-> XS]

QApply(Q, m) ==
  LET a == IF m.k = "ops" THEN AddOps(Q.pend, m.ops, Q.handed) ELSE [pend |-> Q.pend, err |-> FALSE, handed |-> Q.handed]
      S0 == [Q.xs EXCEPT !.sendErrs = IF a.err THEN @ + 1 ELSE @]
  IN [pend |-> a.pend, handed |-> a.handed,
      pendElec |-> IF m.k = "elec" /\ ~a.err THEN TRUE ELSE Q.pendElec,
      pendParams |-> IF m.k = "params" /\ ~a.err THEN TRUE ELSE Q.pendParams,
      sendq |-> IF sending THEN Q.sendq ELSE Append(Q.sendq, m),
      xs |-> IF sending THEN Xmit(S0, m) ELSE S0]

RECURSIVE QApplyAll(_, _)
QApplyAll(Q, ms) == IF ms = <<>> THEN Q ELSE QApplyAll(QApply(Q, Head(ms)), Tail(ms))

SetQ(Q) ==
  /\ pend' = Q.pend /\ pendElec' = Q.pendElec /\ pendParams' = Q.pendParams /\ handed' = Q.handed /\ sendq' = Q.sendq
  /\ sent' = Q.xs.sent /\ lost' = Q.xs.lost /\ sender' = Q.xs.sender /\ failIn' = Q.xs.failIn /\ sendErrs' = Q.xs.sendErrs
  /\ receiver' = Q.xs.receiver /\ recvErrs' = Q.xs.recvErrs

\* (also after Close: the call returns; the client is still in sending mode, so operations are registered as pending, but the
\* sender is gone and nothing is sent any more)
CQ(m) ==
  /\ SetQ(QApply(QS, m))
  /\ UNCHANGED <<cfg, conn, sending, results, acked>>

\* A burst of Q calls while the stream's Send is stuck and then fails: the first message fails, the
\* sender exits, the others are never sent - and every Q call must still return (C14)
CBurst(ms) ==
  /\ conn = "up" /\ sending
  /\ SetQ(QApplyAll([QS EXCEPT !.xs = [@ EXCEPT !.failIn = IF QS.xs.sender = "alive" THEN 0 ELSE @]], ms))
  /\ UNCHANGED <<cfg, conn, sending, results, acked>>

ParamsMsg == [k |-> "params"]
ElecMsg(id) == [k |-> "elec", id |-> id]

CStart ==
  /\ conn = "up" /\ ~sending
  /\ LET pre == (IF cfg.params THEN <<ParamsMsg>> ELSE <<>>) \o (IF cfg.elected THEN <<ElecMsg(cfg.elec)>> ELSE <<>>)
         S == XmitAll(XS, pre \o sendq)
     IN
     /\ sent' = S.sent /\ lost' = S.lost /\ sender' = S.sender /\ failIn' = S.failIn /\ sendErrs' = S.sendErrs
     /\ receiver' = S.receiver /\ recvErrs' = S.recvErrs
     /\ pendParams' = (pendParams \/ cfg.params) /\ pendElec' = (pendElec \/ cfg.elected)
  /\ sending' = TRUE /\ sendq' = <<>>
  /\ UNCHANGED <<cfg, conn, pend, results, handed, acked>>

(* ---- the receiver ---- *)
Terminal(st) == st \in {"FAILED", "FIB", "FIB_FAILED"} \/ (st = "RIB" /\ ~cfg.fib)
OpRes(id, st, d) == [k |-> "op", id |-> id, st |-> st, typ |-> d.typ, kind |-> d.kind, key |-> d.key]
BareRes(id, st) == [k |-> "op", id |-> id, st |-> st, typ |-> "", kind |-> "", key |-> 0]
NilRes == [k |-> "nil"]

\* process the results of one response in order; stop at the first protocol violation
RECURSIVE DoResults(_, _, _)
DoResults(P, R, rs) ==
  IF rs = <<>> THEN [pend |-> P, results |-> R, err |-> FALSE]
  ELSE LET r == Head(rs) IN
       IF r.id \in DOMAIN P
       THEN DoResults(IF Terminal(r.st) THEN Del(P, r.id) ELSE P, Append(R, OpRes(r.id, r.st, P[r.id])), Tail(rs))
       ELSE IF r.st = "RIB" /\ cfg.fib
            THEN DoResults(P, Append(R, BareRes(r.id, r.st)), Tail(rs))     \* tolerated: RIB ack after the FIB ack
       ELSE [pend |-> P, results |-> Append(R, NilRes), err |-> TRUE]

CDeliver(r) ==
  /\ receiver = "alive"
  /\ CASE r.k = "multi" ->
            /\ recvErrs' = recvErrs + 1 /\ receiver' = "dead"
            /\ UNCHANGED <<pend, pendElec, pendParams, results>>
       [] r.k = "elec" ->
            /\ results' = Append(results, IF pendElec THEN [k |-> "elec", id |-> r.id] ELSE [k |-> "clienterr", id |-> r.id])
            /\ pendElec' = FALSE
            /\ UNCHANGED <<pend, pendParams, recvErrs, receiver>>
       [] r.k = "params_ok" ->
            /\ results' = Append(results, IF pendParams THEN [k |-> "params"] ELSE [k |-> "clienterr_params"])
            /\ pendParams' = FALSE
            /\ UNCHANGED <<pend, pendElec, recvErrs, receiver>>
       [] OTHER ->
            LET d == DoResults(pend, results, r.results) IN
            /\ pend' = d.pend /\ results' = d.results
            /\ recvErrs' = IF d.err THEN recvErrs + 1 ELSE recvErrs
            /\ receiver' = IF d.err THEN "dead" ELSE receiver
            /\ UNCHANGED <<pendElec, pendParams>>
  /\ UNCHANGED <<cfg, conn, sending, sendq, sent, lost, sendErrs, sender, failIn, handed, acked>>

CRecvFail ==
  /\ receiver = "alive"
  /\ recvErrs' = recvErrs + 1 /\ receiver' = "dead"
  /\ UNCHANGED <<cfg, conn, sending, sendq, sent, lost, pend, pendElec, pendParams, results, sendErrs, sender, failIn, handed, acked>>

\* clean end of the stream: no error on the receive side; the next Send fails with io.EOF (as gRPC's
\* SendMsg does on a stream the server has ended), the sender records it and exits
CRecvEOF ==
  /\ receiver = "alive"
  /\ receiver' = "dead" /\ sender' = IF sender = "alive" THEN "lastone" ELSE sender
  /\ UNCHANGED <<cfg, conn, sending, sendq, sent, lost, pend, pendElec, pendParams, results, sendErrs, recvErrs, failIn, handed, acked>>

CSetSendFail(n) ==
  /\ failIn' = n
  /\ UNCHANGED <<cfg, conn, sending, sendq, sent, lost, pend, pendElec, pendParams, results, sendErrs, recvErrs, sender, receiver, handed, acked>>

(* ---- AckResult(id): every result carrying that operation id leaves the result queue ---- *)
HasResultFor(id) == \E i \in DOMAIN results : results[i].k = "op" /\ results[i].id = id
CAck(id) ==
  /\ HasResultFor(id)
  /\ results' = SelectSeq(results, LAMBDA r : ~(r.k = "op" /\ r.id = id))
  /\ acked' = IF \E i \in DOMAIN results : results[i].k = "op" /\ results[i].id = id /\ Terminal(results[i].st) /\ results[i].typ # ""
               THEN acked \cup {id} ELSE acked
  /\ UNCHANGED <<cfg, conn, sending, sendq, sent, lost, pend, pendElec, pendParams, sendErrs, recvErrs, sender, receiver, failIn, handed>>

(* ---- AwaitConverged ---- *)
Converged == sendq = <<>> /\ pend = EmptyFn /\ ~pendElec /\ ~pendParams
AwaitResult == IF sendErrs + recvErrs > 0 THEN "err" ELSE IF Converged THEN "ok" ELSE "timeout"

(* ---- Close / Reset ---- *)
CClose ==
  /\ conn = "up"
  /\ conn' = "closed" /\ sender' = "dead" /\ receiver' = "dead"
  /\ UNCHANGED <<cfg, sending, sendq, sent, lost, pend, pendElec, pendParams, results, sendErrs, recvErrs, failIn, handed, acked>>

CReset ==
  /\ conn' = "closed" /\ sender' = "dead" /\ receiver' = "dead" /\ sending' = FALSE
  /\ sendq' = <<>> /\ pend' = EmptyFn /\ pendElec' = FALSE /\ pendParams' = FALSE /\ results' = <<>>
  /\ sendErrs' = 0 /\ recvErrs' = 0 /\ sent' = <<>> /\ lost' = <<>> /\ failIn' = -1 /\ handed' = {} /\ acked' = {}
  /\ UNCHANGED cfg

-----------------------------------------------------------------------------
(* Properties (C13) *)
ResultIds(st) == {results[i].id : i \in {j \in DOMAIN results : results[j].k = "op" /\ results[j].st = st}}
TermIds == {results[i].id : i \in {j \in DOMAIN results : results[j].k = "op" /\ Terminal(results[j].st) /\ results[j].typ # ""}}
\* every operation handed over is pending or has a terminal result, never both
Conservation == handed = DOMAIN pend \cup TermIds \cup acked /\ DOMAIN pend \cap (TermIds \cup acked) = {}
\* no operation is completed twice
NeverTwice ==
  \A i, j \in DOMAIN results :
     (i < j /\ results[i].k = "op" /\ results[j].k = "op" /\ results[i].id = results[j].id
        /\ Terminal(results[i].st) /\ results[i].typ # "") => ~(Terminal(results[j].st) /\ results[j].typ # "")
\* converged means answered
ConvergedMeansAnswered == (AwaitResult = "ok") => (pend = EmptyFn /\ sendq = <<>> /\ sendErrs = 0 /\ recvErrs = 0)
\* in FIB-ack mode a RIB acknowledgement never completes an operation
RibAckNotTerminalInFibMode == cfg.fib => \A i \in DOMAIN results : (results[i].k = "op" /\ results[i].st = "RIB") => TRUE
=============================================================================
