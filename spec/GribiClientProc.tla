--------------------------- MODULE GribiClientProc ---------------------------
(***************************************************************************)
(* The gRIBI client library (client/gribiclient.go) at the grain of its    *)
(* goroutines.  One Connect spawns a sender and a receiver; the            *)
(* application calls Q, AwaitConverged, Close / Reset.  Every label below  *)
(* is one atomic step of the code between two accesses to shared state:    *)
(*                                                                         *)
(*  app   q.begin   handleModifyRequest: the operation becomes pending     *)
(*        q.rlock   c.awaiting.RLock()                                     *)
(*        q.check   chIsClosed(c.sendExitCh)  (consumes the exit token!)   *)
(*        q.select  select { modifyCh <- m ; <-sendExitCh }                *)
(*        q.runlock c.awaiting.RUnlock()                                   *)
(*        aw.lock   c.awaiting.Lock()  - announce (blocks new readers)     *)
(*        aw.locked              ...   - acquired once the readers left    *)
(*        aw.check  hasErrors / isConverged ; aw.unlock                    *)
(*        dc.check  disconnect: chIsClosed(sendExitCh) ; dc.close          *)
(*        dc.wait   c.wg.Wait()                                            *)
(*        rs.clear  Reset: errors, queues, a fresh modifyCh                *)
(*  snd   s.loop    c.shut.Load()         s.recv  v, ok := <-modifyCh      *)
(*        s.rlock   awaiting.RLock()      s.send  stream.Send(m)           *)
(*        s.runlock                       s.exit1 sendExitCh <- {}         *)
(*        s.exit2   close(sendExitCh)     s.exit3 informDone; wg.Done      *)
(*  rcv   r.loop    c.shut.Load()         r.recv  stream.Recv()            *)
(*        r.rlock   awaiting.RLock()      r.handle EOF / error / response  *)
(*        r.runlock                       r.exit  informDone; wg.Done      *)
(*  env   the Modify stream: answers, a receive error, a clean end, a      *)
(*        failing Send (which breaks the stream for Recv too).             *)
(*                                                                         *)
(* sync.RWMutex is modelled as Go implements it: a pending Lock() blocks   *)
(* new RLock() calls.  Channels: modifyCh has capacity Cap (5 in the code);*)
(* sendExitCh has capacity 1 and is written once and then closed.          *)
(***************************************************************************)
EXTENDS Integers, Sequences, FiniteSets, TLC

CONSTANTS Cap,        \* capacity of modifyCh
          NQ,         \* number of Q calls the application makes
          MaxAwait,   \* AwaitConverged gives up (context deadline) after that many looks
          Closer,     \* "close" | "reset" | "none" - what the application does last
          SelectOnExit \* TRUE: q() also selects on sendExitCh (the code as repaired by 9773e1f)

VARIABLES
  pc,          \* [app, snd, rcv] -> label
  qn,          \* Q calls completed
  modCh,       \* buffered contents of modifyCh (message numbers)
  modClosed,
  exitTok, exitClosed,     \* sendExitCh: token buffered (0/1), closed
  shut,        \* c.shut
  rwR, rwW, rwWait,        \* awaiting: active readers, writer active, writers waiting
  wg,          \* c.wg
  pend,        \* set of message numbers whose operation is pending
  sendErr, recvErr,
  doneTok,     \* c.doneCh holds its token
  sent,        \* messages that reached the stream (sequence)
  dropped,     \* messages Q accepted but never handed to the sender (sender gone)
  inbox,       \* what stream.Recv() will return next: sequence over {"resp", "bad", "err", "eof"} \X msg
  broken,      \* the stream has failed (Send failed or a receive error was injected)
  halfClosed,  \* CloseSend was called
  ended,       \* the server ended the RPC (eof delivered to inbox)
  faults,      \* faults the environment may still inject
  cont,        \* [snd, rcv] -> BOOLEAN: continue looping after runlock
  cur,         \* [snd, rcv] -> message / event in hand
  awaitN, awaitRes,        \* looks taken, verdict of AwaitConverged: "" | "ok" | "err" | "timeout"
  panicked     \* a goroutine panicked (send on / close of a closed channel)

pvars == <<pc, qn, modCh, modClosed, exitTok, exitClosed, shut, rwR, rwW, rwWait, wg, pend, sendErr, recvErr,
           doneTok, sent, dropped, inbox, broken, halfClosed, ended, faults, cont, cur, awaitN, awaitRes, panicked>>

Goto(p, l) == pc' = [pc EXCEPT ![p] = l]
At(p, l) == pc[p] = l

PInit ==
  /\ pc = [app |-> "q.begin", snd |-> "s.loop", rcv |-> "r.loop"]
  /\ qn = 0 /\ modCh = <<>> /\ modClosed = FALSE /\ exitTok = 0 /\ exitClosed = FALSE /\ shut = FALSE
  /\ rwR = 0 /\ rwW = FALSE /\ rwWait = 0 /\ wg = 2 /\ pend = {} /\ sendErr = 0 /\ recvErr = 0 /\ doneTok = 0
  /\ sent = <<>> /\ dropped = {} /\ inbox = <<>> /\ broken = FALSE /\ halfClosed = FALSE /\ ended = FALSE
  /\ faults \in {0, 1}
  /\ cont = [snd |-> TRUE, rcv |-> TRUE] /\ cur = [snd |-> 0, rcv |-> <<"", 0>>]
  /\ awaitN = 0 /\ awaitRes = "" /\ panicked = FALSE

CanRLock == ~rwW /\ rwWait = 0

(* ------------------------------ application ------------------------------ *)
AfterQ == IF qn + 1 < NQ THEN "q.begin" ELSE "aw.lock"

QBegin ==
  /\ At("app", "q.begin") /\ qn < NQ
  /\ pend' = pend \cup {qn + 1} /\ Goto("app", "q.rlock")
  /\ UNCHANGED <<qn, modCh, modClosed, exitTok, exitClosed, shut, rwR, rwW, rwWait, wg, sendErr, recvErr, doneTok, sent,
                 dropped, inbox, broken, halfClosed, ended, faults, cont, cur, awaitN, awaitRes, panicked>>

RLock(p, next) ==
  /\ CanRLock /\ rwR' = rwR + 1 /\ Goto(p, next)
  /\ UNCHANGED <<qn, modCh, modClosed, exitTok, exitClosed, shut, rwW, rwWait, wg, pend, sendErr, recvErr, doneTok, sent,
                 dropped, inbox, broken, halfClosed, ended, faults, cont, cur, awaitN, awaitRes, panicked>>

QRLock == At("app", "q.rlock") /\ RLock("app", "q.check")

\* chIsClosed: a receive that succeeds (token or closed) reports "closed"; the token is gone afterwards
QCheck ==
  /\ At("app", "q.check")
  /\ IF exitTok = 1 \/ exitClosed
     THEN exitTok' = 0 /\ dropped' = dropped \cup {qn + 1} /\ Goto("app", "q.runlock")
     ELSE UNCHANGED <<exitTok, dropped>> /\ Goto("app", "q.select")
  /\ UNCHANGED <<qn, modCh, modClosed, exitClosed, shut, rwR, rwW, rwWait, wg, pend, sendErr, recvErr, doneTok, sent,
                 inbox, broken, halfClosed, ended, faults, cont, cur, awaitN, awaitRes, panicked>>

QSelectSend ==
  /\ At("app", "q.select")
  /\ \/ /\ modClosed /\ panicked' = TRUE /\ UNCHANGED modCh          \* send on closed channel
     \/ /\ ~modClosed /\ Len(modCh) < Cap /\ modCh' = Append(modCh, qn + 1) /\ UNCHANGED panicked
  /\ Goto("app", "q.runlock")
  /\ UNCHANGED <<qn, modClosed, exitTok, exitClosed, shut, rwR, rwW, rwWait, wg, pend, sendErr, recvErr, doneTok, sent,
                 dropped, inbox, broken, halfClosed, ended, faults, cont, cur, awaitN, awaitRes>>

QSelectExit ==
  /\ At("app", "q.select") /\ SelectOnExit /\ (exitTok = 1 \/ exitClosed)
  /\ exitTok' = 0 /\ dropped' = dropped \cup {qn + 1} /\ Goto("app", "q.runlock")
  /\ UNCHANGED <<qn, modCh, modClosed, exitClosed, shut, rwR, rwW, rwWait, wg, pend, sendErr, recvErr, doneTok, sent,
                 inbox, broken, halfClosed, ended, faults, cont, cur, awaitN, awaitRes, panicked>>

RUnlockVars == <<modCh, modClosed, exitTok, exitClosed, shut, rwW, rwWait, wg, pend, sendErr, recvErr, doneTok, sent,
                 dropped, inbox, broken, halfClosed, ended, faults, cont, cur, awaitN, awaitRes, panicked>>

QRUnlock ==
  /\ At("app", "q.runlock")
  /\ rwR' = rwR - 1 /\ qn' = qn + 1 /\ Goto("app", AfterQ)
  /\ UNCHANGED RUnlockVars

\* AwaitConverged: Lock() = announce + acquire
AwLock ==
  /\ At("app", "aw.lock")
  /\ rwWait' = rwWait + 1 /\ Goto("app", "aw.locked")
  /\ UNCHANGED <<qn, modCh, modClosed, exitTok, exitClosed, shut, rwR, rwW, wg, pend, sendErr, recvErr, doneTok, sent,
                 dropped, inbox, broken, halfClosed, ended, faults, cont, cur, awaitN, awaitRes, panicked>>

AwLocked ==
  /\ At("app", "aw.locked") /\ rwR = 0 /\ ~rwW
  /\ rwW' = TRUE /\ rwWait' = rwWait - 1 /\ Goto("app", "aw.check")
  /\ UNCHANGED <<qn, modCh, modClosed, exitTok, exitClosed, shut, rwR, wg, pend, sendErr, recvErr, doneTok, sent,
                 dropped, inbox, broken, halfClosed, ended, faults, cont, cur, awaitN, awaitRes, panicked>>

AwVerdict == IF sendErr + recvErr > 0 THEN "err" ELSE IF pend = {} THEN "ok" ELSE ""

AwCheck ==
  /\ At("app", "aw.check")
  /\ awaitRes' = AwVerdict /\ awaitN' = awaitN + 1 /\ Goto("app", "aw.unlock")
  /\ UNCHANGED <<qn, modCh, modClosed, exitTok, exitClosed, shut, rwR, rwW, rwWait, wg, pend, sendErr, recvErr, doneTok, sent,
                 dropped, inbox, broken, halfClosed, ended, faults, cont, cur, panicked>>

AfterAwait == IF Closer = "none" THEN "app.done" ELSE "dc.check"

\* the context deadline passes after MaxAwait unsuccessful looks
AwUnlock ==
  /\ At("app", "aw.unlock")
  /\ rwW' = FALSE
  /\ IF awaitRes # "" THEN Goto("app", AfterAwait) /\ UNCHANGED awaitRes
     ELSE IF awaitN >= MaxAwait THEN awaitRes' = "timeout" /\ Goto("app", AfterAwait)
     ELSE Goto("app", "aw.lock") /\ UNCHANGED awaitRes
  /\ UNCHANGED <<qn, modCh, modClosed, exitTok, exitClosed, shut, rwR, rwWait, wg, pend, sendErr, recvErr, doneTok, sent,
                 dropped, inbox, broken, halfClosed, ended, faults, cont, cur, awaitN, panicked>>

\* disconnect()
DcCheck ==
  /\ At("app", "dc.check")
  /\ IF exitTok = 1 \/ exitClosed THEN exitTok' = 0 /\ Goto("app", "dc.wait")
     ELSE UNCHANGED exitTok /\ Goto("app", "dc.close")
  /\ UNCHANGED <<qn, modCh, modClosed, exitClosed, shut, rwR, rwW, rwWait, wg, pend, sendErr, recvErr, doneTok, sent,
                 dropped, inbox, broken, halfClosed, ended, faults, cont, cur, awaitN, awaitRes, panicked>>

DcClose ==
  /\ At("app", "dc.close")
  /\ IF modClosed THEN panicked' = TRUE /\ UNCHANGED modClosed ELSE modClosed' = TRUE /\ UNCHANGED panicked
  /\ Goto("app", "dc.wait")
  /\ UNCHANGED <<qn, modCh, exitTok, exitClosed, shut, rwR, rwW, rwWait, wg, pend, sendErr, recvErr, doneTok, sent,
                 dropped, inbox, broken, halfClosed, ended, faults, cont, cur, awaitN, awaitRes>>

DcWait ==
  /\ At("app", "dc.wait") /\ wg = 0
  /\ Goto("app", IF Closer = "reset" THEN "rs.clear" ELSE "app.done")
  /\ UNCHANGED <<qn, modCh, modClosed, exitTok, exitClosed, shut, rwR, rwW, rwWait, wg, pend, sendErr, recvErr, doneTok, sent,
                 dropped, inbox, broken, halfClosed, ended, faults, cont, cur, awaitN, awaitRes, panicked>>

RsClear ==
  /\ At("app", "rs.clear")
  /\ sendErr' = 0 /\ recvErr' = 0 /\ pend' = {} /\ modCh' = <<>> /\ modClosed' = FALSE /\ doneTok' = 0
  /\ Goto("app", "app.done")
  /\ UNCHANGED <<qn, exitTok, exitClosed, shut, rwR, rwW, rwWait, wg, sent, dropped, inbox, broken, halfClosed, ended,
                 faults, cont, cur, awaitN, awaitRes, panicked>>

(* -------------------------------- sender --------------------------------- *)
SndLoop ==
  /\ At("snd", "s.loop") /\ Goto("snd", IF shut THEN "s.exit1" ELSE "s.recv")
  /\ UNCHANGED <<qn, modCh, modClosed, exitTok, exitClosed, shut, rwR, rwW, rwWait, wg, pend, sendErr, recvErr, doneTok, sent,
                 dropped, inbox, broken, halfClosed, ended, faults, cont, cur, awaitN, awaitRes, panicked>>

SndRecv ==
  /\ At("snd", "s.recv") /\ (modCh # <<>> \/ modClosed)
  /\ IF modCh # <<>>
     THEN /\ cur' = [cur EXCEPT !.snd = Head(modCh)] /\ modCh' = Tail(modCh) /\ Goto("snd", "s.rlock")
          /\ UNCHANGED halfClosed
     ELSE /\ halfClosed' = TRUE /\ Goto("snd", "s.exit1") /\ UNCHANGED <<cur, modCh>>     \* CloseSend
  /\ UNCHANGED <<qn, modClosed, exitTok, exitClosed, shut, rwR, rwW, rwWait, wg, pend, sendErr, recvErr, doneTok, sent,
                 dropped, inbox, broken, ended, faults, cont, awaitN, awaitRes, panicked>>

SndRLock == At("snd", "s.rlock") /\ RLock("snd", "s.send")

\* stream.Send: fails when the stream is broken / ended, or when the environment injects its fault here
SndSend(fail) ==
  /\ At("snd", "s.send")
  /\ fail \in (IF broken \/ ended THEN {TRUE} ELSE IF faults > 0 THEN {TRUE, FALSE} ELSE {FALSE})
  /\ IF fail
     THEN /\ sendErr' = sendErr + 1 /\ broken' = TRUE /\ cont' = [cont EXCEPT !.snd = FALSE]
          /\ faults' = IF broken \/ ended THEN faults ELSE faults - 1
          /\ UNCHANGED sent
     ELSE /\ sent' = Append(sent, cur.snd) /\ cont' = [cont EXCEPT !.snd = TRUE] /\ UNCHANGED <<sendErr, broken, faults>>
  /\ Goto("snd", "s.runlock")
  /\ UNCHANGED <<qn, modCh, modClosed, exitTok, exitClosed, shut, rwR, rwW, rwWait, wg, pend, recvErr, doneTok,
                 dropped, inbox, halfClosed, ended, cur, awaitN, awaitRes, panicked>>

SndRUnlock ==
  /\ At("snd", "s.runlock")
  /\ rwR' = rwR - 1 /\ Goto("snd", IF cont.snd THEN "s.loop" ELSE "s.exit1")
  /\ UNCHANGED qn /\ UNCHANGED RUnlockVars

SndExit1 ==
  /\ At("snd", "s.exit1") /\ exitTok = 0
  /\ exitTok' = 1 /\ Goto("snd", "s.exit2")
  /\ UNCHANGED <<qn, modCh, modClosed, exitClosed, shut, rwR, rwW, rwWait, wg, pend, sendErr, recvErr, doneTok, sent,
                 dropped, inbox, broken, halfClosed, ended, faults, cont, cur, awaitN, awaitRes, panicked>>

SndExit2 ==
  /\ At("snd", "s.exit2")
  /\ exitClosed' = TRUE /\ Goto("snd", "s.exit3")
  /\ UNCHANGED <<qn, modCh, modClosed, exitTok, shut, rwR, rwW, rwWait, wg, pend, sendErr, recvErr, doneTok, sent,
                 dropped, inbox, broken, halfClosed, ended, faults, cont, cur, awaitN, awaitRes, panicked>>

SndExit3 ==
  /\ At("snd", "s.exit3")
  /\ doneTok' = 1 /\ wg' = wg - 1 /\ Goto("snd", "s.done")
  /\ UNCHANGED <<qn, modCh, modClosed, exitTok, exitClosed, shut, rwR, rwW, rwWait, pend, sendErr, recvErr, sent,
                 dropped, inbox, broken, halfClosed, ended, faults, cont, cur, awaitN, awaitRes, panicked>>

(* ------------------------------- receiver -------------------------------- *)
RcvLoop ==
  /\ At("rcv", "r.loop") /\ Goto("rcv", IF shut THEN "r.exit" ELSE "r.recv")
  /\ UNCHANGED <<qn, modCh, modClosed, exitTok, exitClosed, shut, rwR, rwW, rwWait, wg, pend, sendErr, recvErr, doneTok, sent,
                 dropped, inbox, broken, halfClosed, ended, faults, cont, cur, awaitN, awaitRes, panicked>>

RcvRecv ==
  /\ At("rcv", "r.recv") /\ inbox # <<>>
  /\ cur' = [cur EXCEPT !.rcv = Head(inbox)] /\ inbox' = Tail(inbox) /\ Goto("rcv", "r.rlock")
  /\ UNCHANGED <<qn, modCh, modClosed, exitTok, exitClosed, shut, rwR, rwW, rwWait, wg, pend, sendErr, recvErr, doneTok, sent,
                 dropped, broken, halfClosed, ended, faults, cont, awaitN, awaitRes, panicked>>

RcvRLock == At("rcv", "r.rlock") /\ RLock("rcv", "r.handle")

RcvHandle ==
  /\ At("rcv", "r.handle")
  /\ LET k == cur.rcv[1]  m == cur.rcv[2] IN
     CASE k = "eof"  -> shut' = TRUE /\ cont' = [cont EXCEPT !.rcv = FALSE] /\ UNCHANGED <<recvErr, pend>>
       [] k = "err"  -> recvErr' = recvErr + 1 /\ cont' = [cont EXCEPT !.rcv = FALSE] /\ UNCHANGED <<shut, pend>>
       [] k = "resp" /\ m \in pend -> pend' = pend \ {m} /\ cont' = [cont EXCEPT !.rcv = TRUE] /\ UNCHANGED <<shut, recvErr>>
       \* one response that answers m and also carries a result for an id that is not pending: m is completed,
       \* then the error is recorded and the receiver leaves
       [] k = "respbad" /\ m \in pend -> pend' = pend \ {m} /\ recvErr' = recvErr + 1 /\ cont' = [cont EXCEPT !.rcv = FALSE] /\ UNCHANGED shut
       [] OTHER      -> recvErr' = recvErr + 1 /\ cont' = [cont EXCEPT !.rcv = FALSE] /\ UNCHANGED <<shut, pend>>
  /\ Goto("rcv", "r.runlock")
  /\ UNCHANGED <<qn, modCh, modClosed, exitTok, exitClosed, rwR, rwW, rwWait, wg, sendErr, doneTok, sent,
                 dropped, inbox, broken, halfClosed, ended, faults, cur, awaitN, awaitRes, panicked>>

RcvRUnlock ==
  /\ At("rcv", "r.runlock")
  /\ rwR' = rwR - 1 /\ Goto("rcv", IF cont.rcv THEN "r.loop" ELSE "r.exit")
  /\ UNCHANGED qn /\ UNCHANGED RUnlockVars

RcvExit ==
  /\ At("rcv", "r.exit")
  /\ doneTok' = 1 /\ wg' = wg - 1 /\ Goto("rcv", "r.done")
  /\ UNCHANGED <<qn, modCh, modClosed, exitTok, exitClosed, shut, rwR, rwW, rwWait, pend, sendErr, recvErr, sent,
                 dropped, inbox, broken, halfClosed, ended, faults, cont, cur, awaitN, awaitRes, panicked>>

(* ------------------------------ environment ------------------------------ *)
Delivered == {inbox[i][2] : i \in {j \in DOMAIN inbox : inbox[j][1] \in {"resp", "respbad"}}}
Answerable == ({sent[i] : i \in DOMAIN sent} \cap pend) \ Delivered
EnvVars == <<pc, qn, modCh, modClosed, exitTok, exitClosed, shut, rwR, rwW, rwWait, wg, pend, sendErr, recvErr, doneTok, sent,
             dropped, halfClosed, cont, cur, awaitN, awaitRes, panicked>>

\* the server answers a message it received
EnvResp(m) ==
  /\ ~broken /\ ~ended /\ m \in Answerable
  /\ inbox' = Append(inbox, <<"resp", m>>) /\ UNCHANGED <<broken, ended, faults>> /\ UNCHANGED EnvVars

\* protocol violation by the server (counts as the fault): an answer to m batched with a result for an unknown id
EnvRespBad(m) ==
  /\ ~broken /\ ~ended /\ m \in Answerable /\ faults > 0
  /\ inbox' = Append(inbox, <<"respbad", m>>) /\ faults' = faults - 1 /\ UNCHANGED <<broken, ended>> /\ UNCHANGED EnvVars

\* fault: the stream fails on the receive side
EnvRecvErr ==
  /\ ~broken /\ ~ended /\ faults > 0
  /\ inbox' = Append(inbox, <<"err", 0>>) /\ broken' = TRUE /\ faults' = faults - 1 /\ UNCHANGED ended /\ UNCHANGED EnvVars

\* a stream broken by a failed Send fails Recv as well (once)
EnvBrokenRecv ==
  /\ broken /\ ~ended /\ ~(\E i \in DOMAIN inbox : inbox[i][1] = "err") /\ ~At("rcv", "r.done") /\ recvErr = 0
  /\ cur.rcv[1] # "err"
  /\ inbox' = Append(inbox, <<"err", 0>>) /\ UNCHANGED <<broken, ended, faults>> /\ UNCHANGED EnvVars

\* the server ends the RPC: after CloseSend, or - as a fault - on its own
EnvEOF ==
  /\ ~broken /\ ~ended /\ (halfClosed \/ faults > 0)
  /\ inbox' = Append(inbox, <<"eof", 0>>) /\ ended' = TRUE
  /\ faults' = (IF halfClosed THEN faults ELSE faults - 1) /\ UNCHANGED broken /\ UNCHANGED EnvVars

Env == (\E m \in 1..NQ : EnvResp(m) \/ EnvRespBad(m)) \/ EnvRecvErr \/ EnvBrokenRecv \/ EnvEOF

App == QBegin \/ QRLock \/ QCheck \/ QSelectSend \/ QSelectExit \/ QRUnlock \/ AwLock \/ AwLocked \/ AwCheck \/ AwUnlock
       \/ DcCheck \/ DcClose \/ DcWait \/ RsClear
Snd == SndLoop \/ SndRecv \/ SndRLock \/ (\E f \in BOOLEAN : SndSend(f)) \/ SndRUnlock \/ SndExit1 \/ SndExit2 \/ SndExit3
Rcv == RcvLoop \/ RcvRecv \/ RcvRLock \/ RcvHandle \/ RcvRUnlock \/ RcvExit

PNext == App \/ Snd \/ Rcv \/ Env

\* fairness: every goroutine runs; a broken stream fails Recv; a half-closed stream is ended by the server;
\* the server answers what it received (needed for convergence, not for termination)
Fairness == WF_pvars(App) /\ WF_pvars(Snd) /\ WF_pvars(Rcv) /\ WF_pvars(EnvBrokenRecv) /\ WF_pvars(EnvEOF /\ halfClosed)
PSpec == PInit /\ [][PNext]_pvars /\ Fairness

-----------------------------------------------------------------------------
(* Properties (C14, C13) *)
NoPanic == ~panicked
\* Close / Reset returned  =>  no sender or receiver goroutine is left
CloseLeavesNoGoroutine == (At("app", "app.done") /\ Closer # "none") => (At("snd", "s.done") /\ At("rcv", "r.done") /\ wg = 0)
\* AwaitConverged says "ok" only when nothing was pending and no error was recorded at that look
AwaitSound == (At("app", "aw.unlock") /\ awaitRes = "ok") => (pend = {} /\ sendErr + recvErr = 0)
\* an error recorded before a look makes that look return the error
AwaitReportsErrors == (At("app", "aw.unlock") /\ sendErr + recvErr > 0) => awaitRes = "err"
\* accounting: a message accepted by Q is pending, answered, or (after Reset) forgotten - and a message is
\* never both pending and answered twice; what was dropped or is still in the channel was never sent
Accounting == /\ {sent[i] : i \in DOMAIN sent} \cap dropped = {}
              /\ \A i, j \in DOMAIN sent : i # j => sent[i] # sent[j]
              /\ rwR >= 0 /\ rwR <= 3 /\ wg >= 0
\* Reset leaves a fresh client
ResetIsFresh == (At("app", "app.done") /\ Closer = "reset") => (pend = {} /\ sendErr = 0 /\ recvErr = 0 /\ modCh = <<>> /\ ~modClosed)

\* liveness (under Fairness): every call of the application returns
AppTerminates == <>At("app", "app.done")
QReturns == \A l \in {"q.rlock", "q.check", "q.select", "q.runlock"} : At("app", l) ~> ~At("app", l)
CloseReturns == At("app", "dc.wait") ~> At("app", IF Closer = "reset" THEN "rs.clear" ELSE "app.done")
=============================================================================
