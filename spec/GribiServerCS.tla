---------------------------- MODULE GribiServerCS ----------------------------
(***************************************************************************)
(* The server's session table and election state at the grain of its lock- *)
(* protected critical sections (server/server.go): newClient, deleteClient *)
(* (csMu W); checkClientsConsistent (csMu R); setClientParams,             *)
(* updateParams, storeClientElectionID (csMu W); the compare-and-set of    *)
(* runElection (elecMu); the snapshot doModify takes (csMu R, elecMu R).   *)
(* Sessions interleave at exactly these points.                            *)
(***************************************************************************)
EXTENDS Integers, Sequences, FiniteSets, TLC

VARIABLES sess,    \* label -> [params, set, last]   (params: the rendered clientParams)
          cur, master,
          versions, \* every <<cur, master>> the election state went through, in order
          seen,    \* label -> index into versions: the session cannot read an older version
          stored   \* label -> set of ids the session stored (announced)
csvars == <<sess, cur, master, versions, seen, stored>>

EmptyFn      == [x \in {} |-> TRUE]
Put(f, k, v) == [x \in (DOMAIN f) \cup {k} |-> IF x = k THEN v ELSE f[x]]
Del(f, k)    == [x \in (DOMAIN f) \ {k} |-> f[x]]
NoId == <<0, 0>>
IdLT(a, b) == a[1] < b[1] \/ (a[1] = b[1] /\ a[2] < b[2])
IdLE(a, b) == a = b \/ IdLT(a, b)
DefaultParams == "{false false false}"

CSInit == sess = EmptyFn /\ cur = NoId /\ master = "" /\ versions = << <<NoId, "">> >> /\ seen = EmptyFn /\ stored = EmptyFn

CSReset == sess' = EmptyFn /\ cur' = NoId /\ master' = "" /\ versions' = << <<NoId, "">> >> /\ seen' = EmptyFn /\ stored' = EmptyFn

Touch(s) == seen' = Put(seen, s, Len(versions))

NewClient(s) ==
  /\ sess' = Put(sess, s, [params |-> DefaultParams, set |-> FALSE, last |-> NoId])
  /\ stored' = Put(stored, s, {}) /\ Touch(s)
  /\ UNCHANGED <<cur, master, versions>>
DeleteClient(s) ==
  /\ sess' = Del(sess, s) /\ UNCHANGED <<cur, master, versions, seen, stored>>
ConsistentWith(s, p) == \A t \in DOMAIN sess \ {s} : sess[t].params = p
SetParams(s, p, final) ==
  /\ s \in DOMAIN sess
  /\ sess' = [sess EXCEPT ![s] = [@ EXCEPT !.params = p, !.set = IF final THEN TRUE ELSE @]]
  /\ Touch(s) /\ UNCHANGED <<cur, master, versions, stored>>
StoreElec(s, id) ==
  /\ s \in DOMAIN sess
  /\ sess' = [sess EXCEPT ![s] = [@ EXCEPT !.last = id]]
  /\ stored' = [stored EXCEPT ![s] = @ \cup {id}] /\ Touch(s)
  /\ UNCHANGED <<cur, master, versions>>
\* the compare-and-set is atomic: it is decided against the current value
CASWins(id) == IdLE(cur, id)
ElecCAS(s, id) ==
  /\ cur' = IF CASWins(id) THEN id ELSE cur
  /\ master' = IF CASWins(id) THEN s ELSE master
  /\ versions' = Append(versions, <<cur', master'>>)
  /\ seen' = Put(seen, s, Len(versions) + 1)
  /\ UNCHANGED <<sess, stored>>
\* a snapshot <<c, m>> is one single version, not older than what the session has seen
SnapshotOK(s, c, m) == \E k \in (IF s \in DOMAIN seen THEN seen[s] ELSE 1)..Len(versions) : versions[k] = <<c, m>>

\* quiescent consistency (C11): the learnt id is the maximum stored, the primary stored it
AllStored == UNION {stored[s] : s \in DOMAIN stored}
QuiescentOK ==
  /\ cur = (IF AllStored = {} THEN NoId ELSE CHOOSE m \in AllStored : \A x \in AllStored : IdLE(x, m))
  /\ (cur # NoId => (master \in DOMAIN stored /\ cur \in stored[master]))
=============================================================================
