--------------------------- MODULE GribiServer_MC ---------------------------
(* Bounded instance of GribiServer for TLC: message alphabets over a few    *)
(* sessions and a small election-id lattice, and a history variable used to *)
(* emit input sequences for the Go harness.                                 *)
EXTENDS GribiServer, Json

CONSTANTS
  Sess,        \* session labels
  HiVals, LoVals, \* election ids are HiVals \X LoVals (plus the zero id in messages)
  ParamMsgs,   \* "good" | "all": which session-parameter messages are in the alphabet
  WithBadMsgs, \* BOOLEAN: multi-field and empty messages
  OpShapes,    \* "chain" | "nh" | "none": operations in the alphabet
  StampModes,  \* subset of {"last", "any", "none"}: election id stamped on operations
  FwdModes, AckModes,
  MaxMsgs,     \* messages per behaviour
  MaxOpen,     \* sessions opened per behaviour
  WithClose, WithFlushRPC,
  WithSendFail, \* BOOLEAN: messages whose response cannot be written (transport failure)
  MultiOps,    \* BOOLEAN: requests of two operations, the first stamped with the session's own id, the second with any stamp
  EmitOn

VARIABLES nmsg, nopen, hist, nextid
mcvars == <<allvars, nmsg, nopen, hist, nextid>>

Ids == HiVals \X LoVals

ParamAlphabet ==
  IF ParamMsgs = "good"
  THEN {[k |-> "params", red |-> "SINGLE_PRIMARY", per |-> "PRESERVE", ack |-> a] : a \in AckModes}
  ELSE {[k |-> "params", red |-> r, per |-> p, ack |-> a] :
          r \in {"SINGLE_PRIMARY", "ALL_PRIMARY"}, p \in {"PRESERVE", "DELETE"}, a \in AckModes}

ElecAlphabet == {[k |-> "elec", id |-> i] : i \in Ids \cup {NoId}}

BaseOp(id, t, kd, k) ==
  [id |-> id, ni |-> DefaultNI, typ |-> t, kind |-> kd, key |-> k, pl |-> "a", nhs |-> <<>>,
   bk |-> "", g |-> "", gni |-> "", bad |-> "", eid |-> NoId, noeid |-> FALSE]

Shapes(id) ==
  IF OpShapes = "none" THEN {}
  ELSE IF OpShapes = "nh"
  THEN {BaseOp(id, "ADD", "nh", "1"), [BaseOp(id, "DELETE", "nh", "1") EXCEPT !.pl = ""]}
  ELSE {BaseOp(id, "ADD", "nh", "1"),
        [BaseOp(id, "ADD", "nhg", "1") EXCEPT !.nhs = <<"1">>],
        [BaseOp(id, "ADD", "v4", "k1") EXCEPT !.g = "1"],
        [BaseOp(id, "DELETE", "nh", "1") EXCEPT !.pl = ""],
        [BaseOp(id, "DELETE", "nhg", "1") EXCEPT !.pl = ""],
        [BaseOp(id, "REPLACE", "v4", "k1") EXCEPT !.g = "1", !.pl = "b"],
        [BaseOp(id, "ADD", "nh", "1") EXCEPT !.ni = "nosuchni"],
        [BaseOp(id, "ADD", "nh", "1") EXCEPT !.ni = ""]}

Stamps(s) ==
       (IF "last" \in StampModes THEN {[eid |-> sess[s].last, noeid |-> FALSE]} ELSE {})
  \cup (IF "any" \in StampModes THEN {[eid |-> i, noeid |-> FALSE] : i \in Ids} ELSE {})
  \cup (IF "none" \in StampModes THEN {[eid |-> NoId, noeid |-> TRUE]} ELSE {})

OpsAlphabet(s) ==
  {[k |-> "ops", ops |-> << [o EXCEPT !.eid = st.eid, !.noeid = st.noeid] >>] : o \in Shapes(nextid), st \in Stamps(s)}
  \cup (IF MultiOps
        THEN {[k |-> "ops", ops |-> << [BaseOp(nextid, "ADD", "nh", "1") EXCEPT !.eid = sess[s].last],
                                      [BaseOp(nextid + 1, "ADD", "nh", "2") EXCEPT !.eid = st.eid, !.noeid = st.noeid] >>] :
                 st \in Stamps(s) \cup {[eid |-> NoId, noeid |-> TRUE]} \cup {[eid |-> i, noeid |-> FALSE] : i \in Ids}}
        ELSE {})

BadAlphabet == IF WithBadMsgs THEN {[k |-> "multi"], [k |-> "empty"]} ELSE {}

Msgs(s) == ParamAlphabet \cup ElecAlphabet \cup OpsAlphabet(s) \cup BadAlphabet

FlushAlphabet ==
  {[ni |-> n, el |-> "override", id |-> NoId] : n \in {"*", "", "nosuchni", "<empty>"}}   \* "<empty>": the name field set to ""
  \cup {[ni |-> "*", el |-> "none", id |-> NoId]}
  \cup {[ni |-> "*", el |-> "id", id |-> i] : i \in Ids \cup {NoId}}

MCInit ==
  /\ \E f \in FwdModes : Init({DefaultNI}, f)
  /\ SInit
  /\ nmsg = 0 /\ nopen = 0 /\ nextid = 1
  /\ hist = << [a |-> "sreset", nis |-> {DefaultNI}, fwd |-> fwd] >>

H(rec) == hist' = Append(hist, rec)

MCNext ==
  \/ /\ nopen < MaxOpen
     /\ \E s \in Sess : s = "s" \o ToString(nopen + 1) /\ Open(s) /\ H([a |-> "open", s |-> s])
     /\ nopen' = nopen + 1 /\ UNCHANGED <<nmsg, nextid>>
  \/ /\ nmsg < MaxMsgs
     /\ \E s \in DOMAIN sess : \E m \in Msgs(s) : \E f \in (IF WithSendFail THEN BOOLEAN ELSE {FALSE}) :
          /\ MsgBegin(s, m, f) /\ H([a |-> "msg", s |-> s, m |-> m, sendfail |-> f])
          /\ nextid' = IF m.k = "ops" THEN nextid + Len(m.ops) ELSE nextid
     /\ nmsg' = nmsg + 1 /\ UNCHANGED nopen
  \/ (OpDirect \/ OpAdd \/ OpAddEnd \/ OpDelete \/ OpRibErr \/ MsgEnd
        \/ \E e \in UNION Range(call.stack) : STry(e))
     /\ UNCHANGED <<nmsg, nopen, hist, nextid>>
  \/ /\ WithClose /\ nmsg < MaxMsgs
     /\ \E s \in DOMAIN sess : \E md \in {"eof", "recverr"} : Close(s, md) /\ H([a |-> "close", s |-> s, mode |-> md])
     /\ nmsg' = nmsg + 1 /\ UNCHANGED <<nopen, nextid>>
  \/ /\ WithFlushRPC /\ nmsg < MaxMsgs
     /\ \E r \in FlushAlphabet : FlushRPC(r) /\ H([a |-> "flushrpc", r |-> r])
     /\ nmsg' = nmsg + 1 /\ UNCHANGED <<nopen, nextid>>

MCSpec == MCInit /\ [][MCNext]_mcvars

View == <<fwd, nis, rib, pend, refNH, refNHG, call, pflush, sess, cur, master, req, ann, sf, nmsg, nopen, nextid>>

Complete == Idle /\ (nmsg = MaxMsgs \/ (DOMAIN sess = {} /\ nopen = MaxOpen /\ ~WithFlushRPC))
Emit == (EmitOn /\ Complete) => PrintT("@@" \o ToJson(hist))
=============================================================================
