----------------------------- MODULE GribiFluent -----------------------------
(***************************************************************************)
(* The fluent builders and the fluent client's Modify helpers              *)
(* (fluent/fluent.go).  A builder is a flat field map (path -> string, the *)
(* generic rendering of the protobuf it denotes) plus its network instance *)
(* and optional election id; every With*/Add* method is an update of that  *)
(* map.  AddEntry/ReplaceEntry/DeleteEntry snapshot the builders into a    *)
(* queued ModifyRequest; UpdateElectionID queues an election message.      *)
(* All argument and field values are strings (ids <<hi, lo>> included).    *)
(***************************************************************************)
EXTENDS Integers, Sequences, FiniteSets, TLC

VARIABLES started, mode, initId, curId, opCount, builders, queued,
          rawpos,    \* positions in `queued` of pre-formed requests (InjectRequest / Enqueue): not the builders' doing
          base       \* number of queued messages that belonged to an earlier connection (Stop + Start): they are not sent again
fvars == <<started, mode, initId, curId, opCount, builders, queued, rawpos, base>>

EmptyFn      == [x \in {} |-> TRUE]
Put(f, k, v) == [x \in (DOMAIN f) \cup {k} |-> IF x = k THEN v ELSE f[x]]
Del(f, k)    == [x \in (DOMAIN f) \ {k} |-> f[x]]
K(p, k, s)   == p \o "[" \o ToString(k) \o "]" \o s
MaxList      == 16
DelList(f, p, s) == [x \in (DOMAIN f) \ {K(p, k, s) : k \in 1..MaxList} |-> f[x]]
RECURSIVE PutList(_, _, _, _, _)
PutList(f, p, s, vals, from) ==
  IF vals = <<>> THEN f ELSE PutList(Put(f, K(p, from, s), Head(vals)), p, s, Tail(vals), from + 1)

NoEid == [set |-> FALSE, id |-> <<"0", "0">>]
Eid(hi, lo) == [set |-> TRUE, id |-> <<hi, lo>>]
NewBuilder(kind) == [kind |-> kind, ni |-> "", eid |-> NoEid, f |-> EmptyFn, nnh |-> 0, nenc |-> 0]

HdrNum(h) == CASE h = "IPinIP" -> "2" [] h = "MPLS" -> "4" [] OTHER -> "8"
EntryPrefix(kind) == CASE kind = "v4" -> "ipv4_entry." [] kind = "v6" -> "ipv6_entry." [] OTHER -> "label_entry."

\* the builder after method m with arguments a (a sequence of strings)
Apply(b, m, a) ==
  LET f == b.f
      set(k, v) == [b EXCEPT !.f = Put(f, k, v)]
      ep == EntryPrefix(b.kind)
      ek == K("next_hop.encap_header", b.nenc + 1, "")
  IN
  CASE m = "WithNetworkInstance" -> [b EXCEPT !.ni = a[1]]
    [] m = "WithElectionID" -> [b EXCEPT !.eid = Eid(a[2], a[1])]          \* (low, high)
    \* next-hop
    [] m = "WithIndex" -> set("index", a[1])
    [] m = "WithIPAddress" -> set("next_hop.ip_address", a[1])
    [] m = "WithInterfaceRef" ->
         [b EXCEPT !.f = Put(Del(f, "next_hop.interface_ref.subinterface"), "next_hop.interface_ref.interface", a[1])]
    [] m = "WithSubinterfaceRef" ->
         [b EXCEPT !.f = Put(Put(f, "next_hop.interface_ref.interface", a[1]), "next_hop.interface_ref.subinterface", a[2])]
    [] m = "WithMacAddress" -> set("next_hop.mac_address", a[1])
    [] m = "WithIPinIP" -> [b EXCEPT !.f = Put(Put(f, "next_hop.ip_in_ip.src_ip", a[1]), "next_hop.ip_in_ip.dst_ip", a[2])]
    [] m = "WithNextHopNetworkInstance" -> set("next_hop.network_instance", a[1])
    [] m = "WithPopTopLabel" -> set("next_hop.pop_top_label", "true")
    [] m = "WithPushedLabelStack" ->
         [b EXCEPT !.f = PutList(DelList(f, "next_hop.pushed_mpls_label_stack", ".pushed_mpls_label_stack_uint64"),
                                 "next_hop.pushed_mpls_label_stack", ".pushed_mpls_label_stack_uint64", a, 1)]
    [] m = "WithDecapsulateHeader" -> set("next_hop.decapsulate_header", HdrNum(a[1]))
    [] m = "WithEncapsulateHeader" -> set("next_hop.encapsulate_header", HdrNum(a[1]))
    [] m = "AddEncapHeaderMPLS" ->
         [b EXCEPT !.nenc = @ + 1,
                   !.f = PutList(Put(Put(f, ek \o ".index", ToString(b.nenc + 1)), ek \o ".encap_header.type", "4"),
                                 ek \o ".encap_header.mpls.mpls_label_stack", ".mpls_label_stack_uint64", a, 1)]
    [] m = "AddEncapHeaderUDPV6" ->
         LET u == ek \o ".encap_header.udp_v6." IN
         [b EXCEPT !.nenc = @ + 1,
                   !.f = Put(Put(Put(Put(Put(Put(Put(Put(f, ek \o ".index", ToString(b.nenc + 1)), ek \o ".encap_header.type", "8"),
                             u \o "dscp", a[1]), u \o "dst_ip", a[2]), u \o "dst_udp_port", a[3]), u \o "ip_ttl", a[4]),
                             u \o "src_ip", a[5]), u \o "src_udp_port", a[6])]
    \* next-hop-group
    [] m = "WithID" -> set("id", a[1])
    [] m = "WithBackupNHG" -> set("next_hop_group.backup_next_hop_group", a[1])
    [] m = "AddNextHop" ->
         [b EXCEPT !.nnh = @ + 1,
                   !.f = Put(Put(f, K("next_hop_group.next_hop", b.nnh + 1, ".index"), a[1]),
                             K("next_hop_group.next_hop", b.nnh + 1, ".next_hop.weight"), a[2])]
    \* ipv4 / ipv6 / mpls
    [] m = "WithPrefix" -> set("prefix", a[1])
    [] m = "WithLabel" -> set("label_uint64", a[1])
    [] m = "WithNextHopGroup" -> set(ep \o "next_hop_group", a[1])
    [] m = "WithNextHopGroupNetworkInstance" -> set(ep \o "next_hop_group_network_instance", a[1])
    [] m = "WithMetadata" -> set(ep \o "entry_metadata", a[1])
    [] m = "WithPoppedLabelStack" ->
         [b EXCEPT !.f = PutList(DelList(f, "label_entry.popped_mpls_label_stack", ".popped_mpls_label_stack_uint64"),
                                 "label_entry.popped_mpls_label_stack", ".popped_mpls_label_stack_uint64", a, 1)]
    [] OTHER -> b

\* which methods exist on which builder
Methods(kind) ==
  CASE kind = "nh" -> {"WithIndex", "WithNetworkInstance", "WithIPAddress", "WithInterfaceRef", "WithSubinterfaceRef", "WithMacAddress",
                       "WithIPinIP", "WithNextHopNetworkInstance", "WithPopTopLabel", "WithPushedLabelStack", "WithDecapsulateHeader",
                       "WithEncapsulateHeader", "AddEncapHeaderMPLS", "AddEncapHeaderUDPV6", "WithElectionID"}
    [] kind = "nhg" -> {"WithID", "WithNetworkInstance", "WithBackupNHG", "AddNextHop", "WithElectionID"}
    [] kind = "mpls" -> {"WithLabel", "WithNetworkInstance", "WithNextHopGroup", "WithNextHopGroupNetworkInstance", "WithPoppedLabelStack"}
    [] OTHER -> {"WithPrefix", "WithNetworkInstance", "WithNextHopGroup", "WithNextHopGroupNetworkInstance", "WithMetadata", "WithElectionID"}

-----------------------------------------------------------------------------
FInit ==
  /\ started = FALSE /\ mode = "" /\ initId = <<"0", "0">> /\ curId = <<"0", "0">> /\ opCount = 0
  /\ builders = EmptyFn /\ queued = <<>> /\ rawpos = {} /\ base = 0

FStart(md, id) ==
  /\ started' = TRUE /\ mode' = md /\ initId' = id /\ curId' = id /\ opCount' = 0
  /\ builders' = EmptyFn /\ queued' = <<>> /\ rawpos' = {} /\ base' = 0

\* Stop followed by Start on the same fluent client: a new connection (what was queued for the old one is gone), but the
\* client's own state - the id counter and the election id last set with UpdateElectionID - is kept
FRestart ==
  /\ started
  /\ base' = Len(queued)
  /\ UNCHANGED <<started, mode, initId, curId, opCount, builders, queued, rawpos>>

FNew(b, kind) ==
  /\ started
  /\ builders' = Put(builders, b, NewBuilder(kind))
  /\ UNCHANGED <<started, mode, initId, curId, opCount, queued, rawpos, base>>

FCall(b, m, a) ==
  /\ started /\ b \in DOMAIN builders /\ m \in Methods(builders[b].kind)
  /\ builders' = [builders EXCEPT ![b] = Apply(@, m, a)]
  /\ UNCHANGED <<started, mode, initId, curId, opCount, queued, rawpos, base>>

\* the operation a builder turns into (a snapshot of the builder at this moment)
OpOf(b, typ, id) ==
  [id |-> id, typ |-> typ, ni |-> builders[b].ni, kind |-> builders[b].kind,
   eid |-> IF builders[b].eid.set THEN builders[b].eid
           ELSE IF mode = "elected" THEN Eid(curId[1], curId[2]) ELSE NoEid,
   f |-> builders[b].f]

FQueue(typ, bs) ==
  /\ started /\ \A i \in DOMAIN bs : bs[i] \in DOMAIN builders
  /\ queued' = Append(queued, [k |-> "ops", ops |-> [i \in DOMAIN bs |-> OpOf(bs[i], typ, opCount + i)]])
  /\ opCount' = opCount + Len(bs)
  /\ UNCHANGED <<started, mode, initId, curId, builders, rawpos, base>>

FUpdate(id) ==
  /\ started
  /\ curId' = id
  /\ queued' = Append(queued, [k |-> "elec", id |-> id])
  /\ UNCHANGED <<started, mode, initId, opCount, builders, rawpos, base>>

\* InjectRequest / Enqueue: a pre-formed request with explicit operation ids is queued as it is; the ids the builders'
\* operations get afterwards are not affected (the ids are the caller's business, distinct from the automatic ones)
RawOp(id) == [id |-> id, typ |-> "ADD", ni |-> "DEFAULT", kind |-> "nh", eid |-> NoEid, f |-> [x \in {"index"} |-> "77"]]
FInject(ids) ==
  /\ started
  /\ queued' = Append(queued, [k |-> "ops", ops |-> [i \in DOMAIN ids |-> RawOp(ids[i])]])
  /\ rawpos' = rawpos \cup {Len(queued) + 1}
  /\ UNCHANGED <<started, mode, initId, curId, opCount, builders, base>>

\* what goes onto the stream once sending starts
ParamsMsg == [k |-> "params", red |-> IF mode = "elected" THEN "SINGLE_PRIMARY" ELSE "ALL_PRIMARY", per |-> "PRESERVE", ack |-> "RIB_ACK"]
Sent == <<ParamsMsg>> \o (IF mode = "elected" THEN << [k |-> "elec", id |-> initId] >> ELSE <<>>) \o SubSeq(queued, base + 1, Len(queued))

-----------------------------------------------------------------------------
(* Properties (C18) *)
\* later calls never alter messages already queued
QueuedImmutable == [][(started' /\ ~started) \/ (\A i \in DOMAIN queued : i \in DOMAIN queued' /\ queued'[i] = queued[i])]_fvars
RECURSIVE OpsFrom(_, _)
OpsFrom(q, i) == IF i > Len(q) THEN <<>> ELSE (IF q[i].k = "ops" /\ i \notin rawpos THEN q[i].ops ELSE <<>>) \o OpsFrom(q, i + 1)
\* the operations the builders made
AllOps(q) == OpsFrom(q, 1)
\* ids are 1, 2, 3, ... in queueing order
IdsFromOne == LET o == AllOps(queued) IN Len(o) = opCount /\ \A i \in DOMAIN o : o[i].id = i
\* an operation without its own id carries the election id that was current when it was queued
StampedWhenElected == mode = "elected" => \A i \in DOMAIN AllOps(queued) : AllOps(queued)[i].eid.set
=============================================================================
