--------------------------- MODULE GribiModifyProc ---------------------------
(***************************************************************************)
(* One Modify RPC at goroutine grain (server/server.go Modify / doModify). *)
(*                                                                         *)
(*   handler  h.wait    err := <-errCh                                     *)
(*            h.close   close(resultDone); deleteClient (csMu write lock)  *)
(*   receiver r.recv    ms.Recv()  - a message, io.EOF or an error         *)
(*            r.snap    doModify: getClientState (csMu read lock, released *)
(*                      at once) - HoldCsAcrossSend = TRUE keeps it for    *)
(*                      the whole request                                  *)
(*            r.offer   resultChan <- res   (unbuffered; one per reply)    *)
(*            r.err     errCh <- err        (unbuffered)                   *)
(*   pump     p.select  select { res := <-resultChan ; <-resultDone }      *)
(*            p.send    ms.Send(res) - may fail: then  errCh <- err        *)
(*   other    another session's newClient / deleteClient (csMu write lock) *)
(*                                                                         *)
(* The handler takes exactly one value from errCh.  Whatever the client    *)
(* does (half-close, failed write in the middle of a batch, receive error) *)
(* the handler returns and the session's footprint is removed (C09, C10).  *)
(* The receiver and the pump may stay blocked for ever on a channel nobody *)
(* reads any more - a goroutine leak the code has - but they must not hold *)
(* a lock then: with HoldCsAcrossSend = TRUE (a read lock held across the  *)
(* hand-over of replies) TLC shows deleteClient and every other session    *)
(* blocked for ever after a failed write in the middle of a batch.         *)
(***************************************************************************)
EXTENDS Integers, Sequences, FiniteSets, TLC

CONSTANTS Requests,          \* number of messages the client sends before it half-closes
          RepliesPerRequest, \* replies a request produces (operations in it)
          HoldCsAcrossSend   \* FALSE: the code

VARIABLES pcH, pcR, pcP, pcO, errOffer, resOffer, doneClosed, csR, csW, reqLeft, repLeft, faults, deleted
mvars == <<pcH, pcR, pcP, pcO, errOffer, resOffer, doneClosed, csR, csW, reqLeft, repLeft, faults, deleted>>
\* errOffer: set of goroutines blocked offering a value on errCh; resOffer: receiver is offering a reply

MInit ==
  /\ pcH = "h.wait" /\ pcR = "r.recv" /\ pcP = "p.select" /\ pcO = "o.idle"
  /\ errOffer = {} /\ resOffer = FALSE /\ doneClosed = FALSE /\ csR = 0 /\ csW = FALSE
  /\ reqLeft = Requests /\ repLeft = 0 /\ faults \in {0, 1} /\ deleted = FALSE

CanRLock == ~csW
CanWLock == ~csW /\ csR = 0

(* ------------------------------- receiver -------------------------------- *)
RRecvMsg ==
  /\ pcR = "r.recv" /\ reqLeft > 0
  /\ reqLeft' = reqLeft - 1 /\ repLeft' = RepliesPerRequest /\ pcR' = "r.snap"
  /\ UNCHANGED <<pcH, pcP, pcO, errOffer, resOffer, doneClosed, csR, csW, faults, deleted>>
\* half-close (EOF) or - as a fault - a receive error
RRecvEnd ==
  /\ pcR = "r.recv" /\ (reqLeft = 0 \/ faults > 0)
  /\ faults' = IF reqLeft = 0 THEN faults ELSE faults - 1
  /\ pcR' = "r.err" /\ errOffer' = errOffer \cup {"r"}
  /\ UNCHANGED <<pcH, pcP, pcO, resOffer, doneClosed, csR, csW, reqLeft, repLeft, deleted>>
RSnap ==
  /\ pcR = "r.snap" /\ CanRLock
  /\ csR' = IF HoldCsAcrossSend THEN csR + 1 ELSE csR
  /\ pcR' = "r.offer" /\ resOffer' = TRUE
  /\ UNCHANGED <<pcH, pcP, pcO, errOffer, doneClosed, csW, reqLeft, repLeft, faults, deleted>>
\* the reply was taken by the pump (see PTake); next reply or next message
RNext ==
  /\ pcR = "r.offer" /\ ~resOffer
  /\ IF repLeft > 0 THEN resOffer' = TRUE /\ UNCHANGED <<pcR, csR>>
     ELSE /\ pcR' = "r.recv" /\ csR' = (IF HoldCsAcrossSend THEN csR - 1 ELSE csR) /\ UNCHANGED resOffer
  /\ UNCHANGED <<pcH, pcP, pcO, errOffer, doneClosed, csW, reqLeft, repLeft, faults, deleted>>

(* --------------------------------- pump ---------------------------------- *)
PTake ==
  /\ pcP = "p.select" /\ resOffer
  /\ resOffer' = FALSE /\ repLeft' = repLeft - 1 /\ pcP' = "p.send"
  /\ UNCHANGED <<pcH, pcR, pcO, errOffer, doneClosed, csR, csW, reqLeft, faults, deleted>>
PDone ==
  /\ pcP = "p.select" /\ doneClosed /\ pcP' = "p.end"
  /\ UNCHANGED <<pcH, pcR, pcO, errOffer, resOffer, doneClosed, csR, csW, reqLeft, repLeft, faults, deleted>>
PSend(fail) ==
  /\ pcP = "p.send" /\ fail \in (IF faults > 0 THEN BOOLEAN ELSE {FALSE})
  /\ IF fail THEN pcP' = "p.err" /\ errOffer' = errOffer \cup {"p"} /\ faults' = faults - 1
     ELSE pcP' = "p.select" /\ UNCHANGED <<errOffer, faults>>
  /\ UNCHANGED <<pcH, pcR, pcO, resOffer, doneClosed, csR, csW, reqLeft, repLeft, deleted>>

(* -------------------------------- handler -------------------------------- *)
HTake(g) ==
  /\ pcH = "h.wait" /\ g \in errOffer
  /\ errOffer' = errOffer \ {g} /\ pcH' = "h.close"
  /\ pcR' = (IF g = "r" THEN "r.end" ELSE pcR) /\ pcP' = (IF g = "p" THEN "p.end" ELSE pcP)
  /\ UNCHANGED <<pcO, resOffer, doneClosed, csR, csW, reqLeft, repLeft, faults, deleted>>
HClose ==
  /\ pcH = "h.close" /\ doneClosed' = TRUE /\ pcH' = "h.delete"
  /\ UNCHANGED <<pcR, pcP, pcO, errOffer, resOffer, csR, csW, reqLeft, repLeft, faults, deleted>>
HDelete ==
  /\ pcH = "h.delete" /\ CanWLock
  /\ deleted' = TRUE /\ pcH' = "h.end"
  /\ UNCHANGED <<pcR, pcP, pcO, errOffer, resOffer, doneClosed, csR, csW, reqLeft, repLeft, faults>>

(* ---------------------- another session negotiating ---------------------- *)
OStart == pcO = "o.idle" /\ pcO' = "o.lock" /\ UNCHANGED <<pcH, pcR, pcP, errOffer, resOffer, doneClosed, csR, csW, reqLeft, repLeft, faults, deleted>>
OLock == pcO = "o.lock" /\ CanWLock /\ csW' = TRUE /\ pcO' = "o.unlock"
         /\ UNCHANGED <<pcH, pcR, pcP, errOffer, resOffer, doneClosed, csR, reqLeft, repLeft, faults, deleted>>
OUnlock == pcO = "o.unlock" /\ csW' = FALSE /\ pcO' = "o.end"
           /\ UNCHANGED <<pcH, pcR, pcP, errOffer, resOffer, doneClosed, csR, reqLeft, repLeft, faults, deleted>>

Receiver == RRecvMsg \/ RRecvEnd \/ RSnap \/ RNext
Pump == PTake \/ PDone \/ \E f \in BOOLEAN : PSend(f)
Handler == (\E g \in {"r", "p"} : HTake(g)) \/ HClose \/ HDelete
Other == OStart \/ OLock \/ OUnlock
MNext == Receiver \/ Pump \/ Handler \/ Other
MSpec == MInit /\ [][MNext]_mvars /\ WF_mvars(Receiver) /\ WF_mvars(Pump) /\ WF_mvars(Handler) /\ WF_mvars(Other)

-----------------------------------------------------------------------------
\* a goroutine that is left behind (blocked on a channel nobody will read) holds no lock
Leaked == pcH = "h.end" /\ (pcR \in {"r.offer", "r.err"} \/ pcP = "p.err")
LeakedHoldNoLock == pcH = "h.end" => csR = 0
\* liveness (C09, C10): the RPC returns and its footprint is removed; other sessions are served
HandlerReturns == <>(pcH = "h.end" /\ deleted)
OthersServed == <>(pcO = "o.end")
=============================================================================
