-------------------------- MODULE GribiServerCSTrace --------------------------
(* Trace validation at critical-section grain (C11, concurrent C04/C05): the    *)
(* events were recorded by the verif hooks inside the locks of a real server    *)
(* driven by concurrent sessions (race detector on), ordered by a sequence      *)
(* number taken in the hook.  Every event must be a step of GribiServerCS from  *)
(* the current state; at the end the quiescent state must be consistent and     *)
(* every request must have been answered.                                       *)
EXTENDS GribiServerCS, Json

CONSTANT TraceFile
TraceLog == ndJsonDeserialize(TraceFile)
VARIABLE l
cstvars == <<csvars, l>>
Ev == TraceLog[l]
IsEvent(e) == l <= Len(TraceLog) /\ TraceLog[l].ev = e /\ l' = l + 1
Flag(b, name) == IF b THEN {name} ELSE {}
Report(comps) == IF comps = {} THEN TRUE ELSE PrintT(<<"MISMATCH", l, Ev.ev, comps>>)

TStart == IsEvent("concstart") /\ CSReset
TNew == IsEvent("newClient") /\ NewClient(Ev.s)
TDel == IsEvent("deleteClient") /\ DeleteClient(Ev.s)
TCheck ==
  /\ IsEvent("paramsCheck")
  /\ Report(Flag(Ev.ok # ConsistentWith(Ev.s, Ev.p), "csParamsCheck"))
  /\ UNCHANGED csvars
TSet == IsEvent("setClientParams") /\ (IF Ev.s \in DOMAIN sess THEN SetParams(Ev.s, Ev.p, FALSE) ELSE UNCHANGED csvars)
TUpd == IsEvent("updateParams") /\ (IF Ev.s \in DOMAIN sess THEN SetParams(Ev.s, Ev.p, TRUE) ELSE UNCHANGED csvars)
TStore == IsEvent("storeElec") /\ (IF Ev.s \in DOMAIN sess THEN StoreElec(Ev.s, Ev.id) ELSE UNCHANGED csvars)
\* the logged outcome of the compare-and-set must be the atomic one; then follow the log
TCAS ==
  /\ IsEvent("elecCAS")
  /\ Report(Flag(Ev.nm # CASWins(Ev.id), "csCASDecision")
            \cup Flag(Ev.cur # (IF CASWins(Ev.id) THEN Ev.id ELSE cur), "csCASValue")
            \cup Flag(Ev.master # (IF CASWins(Ev.id) THEN Ev.s ELSE master), "csCASMaster"))
  /\ cur' = Ev.cur /\ master' = Ev.master
  /\ versions' = Append(versions, <<Ev.cur, Ev.master>>)
  /\ seen' = Put(seen, Ev.s, Len(versions) + 1)
  /\ UNCHANGED <<sess, stored>>
TSnap ==
  /\ IsEvent("modSnapshot")
  /\ Report(Flag(~SnapshotOK(Ev.s, Ev.cur, Ev.master), "csTornSnapshot")
            \cup Flag(Ev.s \in DOMAIN sess /\ Ev.last # sess[Ev.s].last, "csSnapshotLast"))
  /\ UNCHANGED csvars

\* expected next-hop tables from the acknowledged operations (disjoint key ranges per session, in order)
RECURSIVE FoldNH(_, _)
FoldNH(F, ops) ==
  IF ops = <<>> THEN F
  ELSE LET o == Head(ops)
           k == <<o.ni, o.key>>
       IN FoldNH(IF o.typ = "DELETE" THEN Del(F, k) ELSE Put(F, k, o.pl), Tail(ops))
LoggedNH(st) == [k \in UNION {{<<n, key>> : key \in DOMAIN st.rib[n].nh} : n \in DOMAIN st.rib} |-> st.rib[k[1]].nh[k[2]].pl]

TEnd ==
  /\ IsEvent("concend")
  /\ Report(Flag(Ev.unanswered # <<>>, "csUnanswered")
            \cup Flag(cur # Ev.cur \/ master # Ev.master, "csFinalDiffers")
            \cup Flag(~QuiescentOK, "csQuiescentElection")
            \cup Flag("error" \in DOMAIN Ev.st, "csStateError")
            \cup Flag(~Ev.flush /\ "error" \notin DOMAIN Ev.st /\ (\A k \in 0..Len(Ev.maybe) : LoggedNH(Ev.st) # FoldNH(EmptyFn, Ev.acked \o SubSeq(Ev.maybe, 1, k))), "csRibNotFoldOfAcks"))
  /\ UNCHANGED csvars

CSTNext == TStart \/ TNew \/ TDel \/ TCheck \/ TSet \/ TUpd \/ TStore \/ TCAS \/ TSnap \/ TEnd
CSTInit == CSInit /\ l = 1
CSTSpec == CSTInit /\ [][CSTNext]_cstvars

Matched == TLCGet("stats").diameter - 1
TraceAccepted ==
  /\ PrintT(<<"TRACE", "matched", Matched, "of", Len(TraceLog)>>)
  /\ Matched = Len(TraceLog)
=============================================================================
