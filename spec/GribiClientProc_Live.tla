------------------------ MODULE GribiClientProc_Live ------------------------
(* Liveness instance of GribiClientProc: under fair scheduling of the three  *)
(* goroutines (and a stream that fails Recv once it is broken and is ended   *)
(* by the server once it is half-closed) every call of the application       *)
(* returns - whatever fault the stream suffers and wherever it suffers it.   *)
EXTENDS GribiClientProc
CONSTANTS MaxFaults
LiveSpec == PInit /\ faults <= MaxFaults /\ [][PNext]_pvars /\ Fairness
=============================================================================
