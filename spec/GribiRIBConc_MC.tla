-------------------------- MODULE GribiRIBConc_MC --------------------------
(* Bounded instances of GribiRIBConc: a Flush of three network instances     *)
(* against one or two concurrent adders; every interleaving of the lock      *)
(* acquisitions.  With HoldToEnd = TRUE (the code) every quiescent state is  *)
(* linearizable; with FALSE TLC finds the history                            *)
(*   Y = add(DEFAULT) acknowledged, then X = add(vrf2) acknowledged, both    *)
(*   during the Flush, X removed by it and Y not.                            *)
EXTENDS GribiRIBConc

MC_FlushNIs == <<"DEFAULT", "vrf1", "vrf2">>
\* one adder: first into the first instance the Flush visits, then into the last one
MC_Progs1 == [a1 |-> << [ni |-> "DEFAULT", key |-> 100], [ni |-> "vrf2", key |-> 200] >>]
\* two adders
MC_Progs2 == [a1 |-> << [ni |-> "DEFAULT", key |-> 100], [ni |-> "vrf2", key |-> 200] >>,
              a2 |-> << [ni |-> "vrf1", key |-> 300], [ni |-> "DEFAULT", key |-> 400] >>]
Initial == [n \in NISet |-> {1}]

MCInit == LInit(Initial)
MCSpec == MCInit /\ [][LNext]_lvars
Linearizable == Quiescent => LinearizableTo(Initial, hist, rib)
\* lock discipline: the lock of an instance is held by whoever changes it
TypeOK == \A n \in NISet : lock[n] \in {"", "flush"} \cup Adders
=============================================================================
